(* C02 — wire format, model runner and the trace oracle prop_ok. Definitions only.

   case  = F WB  <writer ops>  <writer carrier script>  tamper(4 numbers)  <reads>  <reader carrier script>
           writer op: 0 len (poll_write of len bytes) | 1 (poll_flush); lists are count-prefixed;
           reads: pairs (buffer length, repetitions).
   trace = 1  MSG TAG MFL read_buffer.len encrypt_buffer.len
           <writer records: result(2) state(3) bytes-handed-to-carrier(1)>  ok
           [ final-flush record  <frame headers seen on the wire>  bytes-the-carrier-will-deliver
             <reader records: result(3) state(7) bytes-pulled(1)> ]                       *)
From Coq Require Import List NArith Bool.
From V.common Require Import Wire.
From V.gen Require Import Consts.
From V.C02 Require Import Model.
Import ListNotations.
Open Scope N_scope.

Definition REP_MAX : N := 20000.
Definition IDX_MAX : N := 100000.

Definition p_wop : parser wop :=
  let* tag := pN in
  match tag with
  | 0 => let* len := pN in pret (OWrite len)
  | 1 => pret OFlush
  | 2 => pret OClose
  | 3 => let* lens := plist pN in pret (OWriteV lens)
  | _ => pfail
  end.

Definition p_tamper : parser tamper :=
  let* tag := pN in let* a := pN in let* b := pN in let* c := pN in
  let i := N.min a IDX_MAX in     (* an index beyond any wire is a no-op either way *)
  match tag with
  | 0 => pret TNone
  | 1 => pret (TFlip i b c)
  | 2 => pret (TDrop i)
  | 3 => pret (TDup i)
  | 4 => pret (TSwap i)
  | 5 => pret (TTrunc a)
  | _ => pfail
  end.

Record case := mkCase {
  k_cfg : cfg; k_wops : list wop; k_wsc : list N; k_tamper : tamper;
  k_reads : list (N * N); k_rsc : list N
}.

Definition decode_case (l : list N) : option case :=
  pall (let* f := pN in let* wb := pN in
        let* wops := plist p_wop in
        let* wsc := plist pN in
        let* t := p_tamper in
        let* reads := plist (let* b := pN in let* r := pN in pret (b, r)) in
        let* rsc := plist pN in
        pret (mkCase (mkCfg f wb MAX_FRAME_LEN) wops wsc t reads rsc)) l.

Definition expand (reads : list (N * N)) : list N :=
  flat_map (fun br : N * N => repeat (fst br) (N.to_nat (N.min (snd br) REP_MAX))) reads.

(* ---- encoders ---- *)
Definition enc_wres (x : wres) : list N :=
  match x with WReady n => [0; n] | WPending => [1; 0] | WErr e => [2; e] | WPanic => [3; 0] end.
Definition enc_wstate (s : wstate) : list N :=
  match s with WIdle => [0; 0; 0] | Writing off elen => [1; off; elen] end.
Definition enc_wrec (xr : wres * writer) : list N :=
  let '(x, w) := xr in
  match x with
  | WPanic => [3; 0; 0; 0; 0; 0; 0; 0]
  | _ => enc_wres x ++ enc_wstate (w_state w) ++ [w_sent w; b2n (w_lp w); b2n (w_cclosed w)]
  end.

Definition enc_rres (x : rres) : list N :=
  match x with
  | RReady n pos => [0; n; pos] | RPending => [1; 0; 0] | RErr e => [2; e; 0] | RPanic => [3; 0; 0]
  end.
Definition enc_rstate (r : reader) : list N :=
  match r_state r with
  | ReadData mr => [0; mr; 0; 0]
  | ReadFrameLen => [1; 0; 0; 0]
  | ProcNone => [2; 0; 0; 0]
  | ProcPend a b c => [3; a; b; c]
  | Failed => [4; 0; 0; 0]
  end ++ [r_nread r; r_offset r; enc_opt (r_cfs r)].
Definition enc_rrec (xr : rres * reader) : list N :=
  let '(x, r) := xr in
  match x with
  | RPanic => [3; 0; 0; 0; 0; 0; 0; 0; 0; 0; 0; 0]
  | _ => enc_rres x ++ enc_rstate r ++ [r_wbase r + r_nread r; b2n (r_lp r)]
  end.

Definition header (c : cfg) : list N := [MSG; TAG; c_mfl c; rbuf_len c; ebuf_len c].

(* frame headers of the bytes that reached the carrier; a trailing 0 marks an incomplete frame *)
Definition wire_hdrs (w : writer) : list N :=
  let fr := sent_frames (w_frames w) (w_sent w) in
  map (fun x => x + TAG) fr ++ (if frames_wire fr =? w_sent w then [] else [0]).

Definition run_case (l : list N) : list N :=
  match decode_case l with
  | None => [0]
  | Some k =>
      let c := k_cfg k in
      let '(wtr, w, ok) := run_writer c (k_wops k) (k_wsc k) writer_init in
      1 :: header c ++ enc_list enc_wrec wtr ++ [b2n ok] ++
      (if ok then
         let '(fx, fw, _) := poll_flush c [] w in
         match fx with
         | WPanic => enc_wrec (fx, fw) ++ [0; 0; 0]
         | _ =>
             let plains := sent_frames (w_frames fw) (w_sent fw) in
             let e := env_of c plains (k_tamper k) in
             enc_wrec (fx, fw) ++
             enc_list (fun x => [x]) (wire_hdrs fw) ++
             [e_avail e] ++
             enc_list enc_rrec (run_reader e (expand (k_reads k)) (k_rsc k) (reader_init c))
         end
       else [])
  end.

(* ---- decoding a trace ---- *)
Record wrec := mkWQ { wq_res : wres; wq_st : wstate; wq_sent : N; wq_lp : bool; wq_closed : bool }.
Definition p_wrec : parser wrec :=
  let* tag := pN in let* a := pN in
  let* st := pN in let* off := pN in let* elen := pN in let* sent := pN in
  let* lp := pBool in let* cl := pBool in
  let x := match tag with 0 => WReady a | 1 => WPending | 2 => WErr a | _ => WPanic end in
  pret (mkWQ x (if st =? 0 then WIdle else Writing off elen) sent lp cl).

Record rrec := mkRR { q_res : rres; q_tag : N; q_nread : N; q_offset : N; q_pulled : N; q_lp : bool }.
Definition p_rrec : parser rrec :=
  let* tag := pN in let* a := pN in let* b := pN in
  let* st := pN in let* _ := pN in let* _ := pN in let* _ := pN in
  let* nread := pN in let* offset := pN in let* _ := pN in let* pulled := pN in let* lp := pBool in
  let x := match tag with 0 => RReady a b | 1 => RPending | 2 => RErr a | _ => RPanic end in
  pret (mkRR x st nread offset pulled lp).

Record trace := mkTrace {
  t_header : list N;
  t_wrecs : list wrec;
  t_ok : bool;
  t_rest : option (wrec * list N * N * list rrec)
}.

Definition p_trace : parser trace :=
  let* h := prep 5 pN in
  let* wr := plist p_wrec in
  let* ok := pBool in
  if ok then
    let* fl := p_wrec in
    let* hdrs := plist pN in
    let* avail := pN in
    let* rr := plist p_rrec in
    pret (mkTrace h wr true (Some (fl, hdrs, avail, rr)))
  else pret (mkTrace h wr false None).

(* ---- the oracle: what the property text demands of an observed run ---- *)

Definition faulty_sc (sc : list N) : bool := existsb (fun x => SPECIAL <=? x) sc.
Definition is_close (o : wop) : bool := match o with OClose => true | _ => false end.
Definition op_len (o : wop) : N :=
  match o with OWrite len => len | OWriteV lens => first_nonempty lens | _ => 0 end.
Definition st_idle (s : wstate) : bool := match s with WIdle => true | _ => false end.

(* writer calls, one record per call: never a panic, never InvalidData; an error only when the
   carrier was scripted to fail or was closed by the caller; a write of len bytes accepts between
   1 and len bytes (0 for an empty buffer); poll_flush / poll_close = Ready leave nothing buffered
   and a completed close has closed the carrier; Pending only after the carrier returned Pending
   (so a waker is registered) *)
Fixpoint wcalls_ok (errs : bool) (ops : list wop) (recs : list wrec) : bool :=
  match ops, recs with
  | [], [] => true
  | o :: ot, q :: rt =>
      match wq_res q with
      | WReady n =>
          if is_write o then (n <=? op_len o) && ((op_len o =? 0) || (1 <=? n))
          else st_idle (wq_st q) && (negb (is_close o) || wq_closed q)
      | WPending => wq_lp q && (negb (is_write o) || (1 <=? op_len o))
      | WErr e => errs && negb (e =? E_INVALID)
      | WPanic => false
      end && wcalls_ok errs ot rt
  | _, _ => false
  end.

(* plaintext accepted while the carrier was still open *)
Fixpoint waccepted (ops : list wop) (recs : list wrec) : N :=
  match ops, recs with
  | o :: ot, q :: rt =>
      if wq_closed q then 0
      else (if is_write o then match wq_res q with WReady n => n | _ => 0 end else 0) + waccepted ot rt
  | _, _ => 0
  end.

(* frames on the wire: each carries 1..MAX_FRAME_LEN plaintext bytes in a Noise message of at
   most 65535 bytes *)
Definition hdr_ok (mfl h : N) : bool := (TAG + 1 <=? h) && (h <=? SNOW_MAX) && (h - TAG <=? mfl).

(* plaintext an honest reader may deliver from a wire: the frames of the longest prefix of items
   that are, in order, the unmodified ciphertexts 0,1,2,.. with a truthful header, and that the
   carrier delivers completely *)
Fixpoint clean_prefix (items : list item) (plains : list N) (k avail : N) : N :=
  match items, plains with
  | it :: t, p :: pt =>
      if (i_hdr it =? i_blen it) && (i_blen it =? p + TAG)
         && match i_auth it with Some j => j =? k | None => false end
         && (item_len it <=? avail)
      then p + clean_prefix t pt (k + 1) (avail - item_len it)
      else 0
  | _, _ => 0
  end.

Definition is_clean (t : tamper) : bool :=
  match t with TNone => true | _ => false end.

(* reader calls (the socket is polled on after errors): never a panic, never an internal-state
   error; every delivered chunk is the next chunk of the stream (no loss, duplication, reordering
   or alteration), fits the caller's buffer and is non-empty for a non-empty buffer; nothing beyond
   the clean prefix of a tampered wire is ever delivered; once InvalidData was reported every later
   call reports InvalidData (fail-stop); on an untampered wire InvalidData never occurs; other
   errors are the carrier's (EOF / zero-length read, or a scripted I/O error); when EOF comes
   after the whole untampered wire was pulled, everything has been delivered; Pending only after the
   carrier returned Pending *)
Fixpoint rcalls_ok (clean rerrs : bool) (limit total avail : N) (bufs : list N) (recs : list rrec)
                   (delivered : N) (failed : bool) : bool :=
  match recs with
  | [] => true
  | q :: rt =>
      match bufs with
      | [] => false
      | b :: bt =>
          match q_res q with
          | RReady n pos =>
              negb failed && (pos =? delivered) && (n <=? b) && ((b =? 0) || (1 <=? n)) &&
              (delivered + n <=? limit) &&
              rcalls_ok clean rerrs limit total avail bt rt (delivered + n) failed
          | RPending =>
              negb failed && q_lp q && rcalls_ok clean rerrs limit total avail bt rt delivered failed
          | RErr e =>
              if e =? E_INVALID then
                negb clean && rcalls_ok clean rerrs limit total avail bt rt delivered true
              else
                negb failed &&
                ((e =? E_EOF) || (rerrs && (6 <=? e) && (e <=? 9))) &&
                (negb clean || negb ((e =? E_EOF) && (q_pulled q =? avail)) || (delivered =? total)) &&
                rcalls_ok clean rerrs limit total avail bt rt delivered failed
          | RPanic => false
          end
      end
  end.

Definition prop_ok (case trace : list N) : bool :=
  match decode_case case, trace with
  | None, [0] => true
  | Some k, 1 :: body =>
      let c := k_cfg k in
      if (1 <=? c_factor c) && (1 <=? c_wbuf c) then
        match pall p_trace body with
        | None => false
        | Some t =>
            nlist_eqb (t_header t) (header c) &&
            t_ok t &&
            wcalls_ok (faulty_sc (k_wsc k) || existsb is_close (k_wops k)) (k_wops k) (t_wrecs t) &&
            match t_rest t with
            | None => false
            | Some (fq, hdrs, avail, rr) =>
                let plains := map (fun h => h - TAG) hdrs in
                let total := sum plains in
                let items := apply_tamper (k_tamper k) (honest plains) in
                let was_closed := existsb wq_closed (t_wrecs t) in
                (* the final flush (carrier accepting everything): completes unless the carrier was
                   closed by the caller; what reached the carrier is whole frames, and their
                   plaintext is exactly what was accepted while the carrier was open *)
                match wq_res fq with
                | WReady _ => st_idle (wq_st fq)
                | WErr e => was_closed && (e =? E_BROKENPIPE)
                | _ => false
                end &&
                (wq_sent fq =? frames_wire plains) &&
                forallb (hdr_ok (c_mfl c)) hdrs &&
                (total =? waccepted (k_wops k) (t_wrecs t)) &&
                (avail =? tamper_avail (k_tamper k) (honest plains)) &&
                rcalls_ok (is_clean (k_tamper k)) (faulty_sc (k_rsc k))
                          (clean_prefix items plains 0 avail) total avail
                          (expand (k_reads k)) rr 0 false
            end
        end
      else true    (* a zero read-ahead factor or write-buffer size is outside the property *)
  | _, _ => false
  end.

(* No known-finding classes for C02: the defects found (see KNOWN_FINDINGS.txt `fixed:`) are
   repaired in the code; every failing case is a violation. *)
Definition known_class (case trace : list N) : N := 0.
