(* C02 — one socket used on both halves in any interleaving, and a whole connection: two
   directions, data delivered in any number of rounds, arbitrary manipulation per round. *)
From Coq Require Import List Arith NArith Bool Lia.
From Coq Require Import ZifyBool ZifyNat ZifyN.
From V.gen Require Import Consts.
From V.C02 Require Import Model Proofs Tamper.
Import ListNotations.
Open Scope N_scope.

Arguments N.add : simpl never.
Arguments N.sub : simpl never.
Arguments N.mul : simpl never.
Arguments N.eqb : simpl never.
Arguments N.ltb : simpl never.
Arguments N.leb : simpl never.
Arguments N.min : simpl never.
Arguments N.of_nat : simpl never.

Ltac consts := unfold SNOW_MAX, TAG, MSG, NOISE_EXTRA_ENCRYPT_SPACE, MAX_NOISE_MSG_LEN in *.

(* ------------------------------------------------------------------ the two halves do not interact *)

Lemma run_writer_cons c o t sc w :
  run_writer c (o :: t) sc w =
  let '(x, w', sc') := wstep c o sc w in
  if w_is_final x then ([(x, w')], w', false)
  else let '(l, wf, ok) := run_writer c t sc' w' in ((x, w') :: l, wf, ok).
Proof. reflexivity. Qed.

(* A run that alternates between the two halves of one socket in any order gives, half by half,
   exactly the results of running each half alone on its own calls and its own carrier script. *)
Theorem mixed_split c e : forall ops rsc wsc r w recs r' w',
  run_mixed c e ops rsc wsc r w = (recs, r', w', true) ->
  rrecs_of recs = run_reader e (reads_of ops) rsc r /\
  wrecs_of recs = fst (fst (run_writer c (wops_of ops) wsc w)) /\
  w' = snd (fst (run_writer c (wops_of ops) wsc w)).
Proof.
  induction ops as [|o t IH]; intros rsc wsc r w recs r' w'; cbn [run_mixed].
  - intros [= <- <- <-]. cbn. auto.
  - destruct o as [b|o].
    + destruct (poll_read e b rsc r) as [[x r1] rsc1] eqn:Ep.
      destruct (is_final x) eqn:Ef; [intros [=]|].
      destruct (run_mixed c e t rsc1 wsc r1 w) as [[[l rf] wf] ok] eqn:Er.
      intros [= <- <- <- ->]. destruct (IH _ _ _ _ _ _ _ Er) as (A & B & C).
      cbn [reads_of wops_of rrecs_of wrecs_of flat_map app run_reader].
      rewrite Ep, Ef. fold (reads_of t). fold (rrecs_of l). fold (wrecs_of l). fold (wops_of t).
      rewrite A. auto.
    + destruct (wstep c o wsc w) as [[x w1] wsc1] eqn:Es.
      destruct (w_is_final x) eqn:Ef; [intros [=]|].
      destruct (run_mixed c e t rsc wsc1 r w1) as [[[l rf] wf] ok] eqn:Er.
      intros [= <- <- <- ->]. destruct (IH _ _ _ _ _ _ _ Er) as (A & B & C).
      cbn [reads_of wops_of rrecs_of wrecs_of flat_map app].
      fold (reads_of t). fold (rrecs_of l). fold (wrecs_of l). fold (wops_of t).
      rewrite run_writer_cons, Es, Ef.
      destruct (run_writer c (wops_of t) wsc1 w1) as [[l2 wf2] ok2]. cbn [fst snd] in *.
      rewrite A, B, C. auto.
Qed.

(* ------------------------------------------------------------------ small list facts *)

Lemma wire_len_app a b : wire_len (a ++ b) = wire_len a + wire_len b.
Proof. induction a as [|x t IH]; cbn [wire_len app]; [lia | rewrite IH; lia]. Qed.

Lemma wf_items e : wf_env e -> items_wf (e_plains e) (e_items e).
Proof.
  intros W. unfold items_wf. rewrite Forall_forall. intros it Hin. split.
  - exact (wf_hdr e W it Hin).
  - intros k Hk. exact (wf_auth e W it k Hin Hk).
Qed.

Lemma skipn_app_len {A} (a b : list A) : skipn (length a) (a ++ b) = b.
Proof. induction a as [|x t IH]; cbn [skipn length app]; [reflexivity | exact IH]. Qed.

Lemma sent_frames_prefix : forall l m s s', s <= s' ->
  exists k, sent_frames (l ++ m) s' = sent_frames l s ++ k.
Proof.
  induction l as [|x t IH]; intros m s s' Hs; cbn [sent_frames app]; [eexists; reflexivity|].
  destruct (2 + (x + TAG) <=? s) eqn:E1.
  - destruct (2 + (x + TAG) <=? s') eqn:E2; [|lia].
    destruct (IH m (s - (2 + (x + TAG))) (s' - (2 + (x + TAG))) ltac:(lia)) as [k Hk].
    exists k. cbn [app]. rewrite Hk. reflexivity.
  - eexists. cbn [app]. reflexivity.
Qed.

Lemma sent_frames_forall (P : N -> Prop) : forall l s, Forall P l -> Forall P (sent_frames l s).
Proof.
  induction l as [|x t IH]; intros s H; cbn [sent_frames]; [constructor|].
  inversion H; subst. destruct (2 + (x + TAG) <=? s); constructor; [assumption | apply IH; assumption].
Qed.

Lemma honest_from_app : forall a b k, honest_from k (a ++ b) = honest_from k a ++ honest_from (k + nlen a) b.
Proof.
  unfold nlen. induction a as [|x t IH]; intros b k; cbn [honest_from app length].
  - f_equal. lia.
  - f_equal. rewrite IH. f_equal. f_equal. lia.
Qed.

(* ------------------------------------------------------------------ the writer only ever adds *)

Definition wmono (w w' : writer) : Prop :=
  (exists fr, w_frames w' = w_frames w ++ fr) /\ w_sent w <= w_sent w'.

Lemma wmono_refl w : wmono w w.
Proof. split; [exists []; rewrite app_nil_r; reflexivity | lia]. Qed.

Lemma wmono_trans a b c : wmono a b -> wmono b c -> wmono a c.
Proof.
  intros [[f1 H1] S1] [[f2 H2] S2]. split; [|lia].
  exists (f1 ++ f2). rewrite H2, H1, app_assoc. reflexivity.
Qed.

Lemma drain_sent eb closed : forall sc off elen sent res off' sent' sc',
  drain eb closed sc off elen sent = (res, off', sent', sc') -> sent <= sent'.
Proof.
  induction sc as [|x t IH]; intros off elen sent res off' sent' sc'; cbn [drain];
    (destruct ((elen <? off) || (eb <? elen)); [intros [= <- <- <- <-]; lia|]);
    (destruct closed; [intros [= <- <- <- <-]; lia|]).
  - intros [= <- <- <- <-]. lia.
  - destruct (x =? 0); [intros [= <- <- <- <-]; lia|].
    destruct (x =? SPECIAL); [intros [= <- <- <- <-]; lia|].
    destruct (SPECIAL <? x); [intros [= <- <- <- <-]; lia|].
    destruct (off + N.min x (elen - off) =? elen); [intros [= <- <- <- <-]; lia|].
    intro H. apply IH in H. lia.
Qed.

Lemma wpre_sent c sc w dres st1 sent1 sc1 : wpre c sc w = (dres, st1, sent1, sc1) -> w_sent w <= sent1.
Proof.
  unfold wpre. destruct (w_state w) as [|off elen]; [intros [= <- <- <- <-]; lia|].
  destruct (drain (ebuf_len c) (w_cclosed w) sc off elen (w_sent w)) as [[[res off'] s] sc0] eqn:Ed.
  pose proof (drain_sent _ _ _ _ _ _ _ _ _ _ Ed).
  destruct res; intros [= <- <- <- <-]; assumption.
Qed.

Lemma poll_write_mono c len sc w x w' sc' : poll_write c len sc w = (x, w', sc') -> wmono w w'.
Proof.
  unfold poll_write. destruct (wpre c sc w) as [[[dres st1] sent1] sc1] eqn:Ed.
  pose proof (wpre_sent _ _ _ _ _ _ _ Ed) as Hs.
  assert (Hsame : forall st cl l, wmono w (mkW st (w_frames w) sent1 cl l)).
  { intros. split; cbn [w_frames w_sent]; [exists []; rewrite app_nil_r; reflexivity | exact Hs]. }
  destruct dres; try (intros [= <- <- <-]; apply Hsame).
  - destruct (len =? 0); [intros [= <- <- <-]; apply Hsame|].
    destruct (c_mfl c =? 0); [intros [= <- <- <-]; apply Hsame|].
    destruct (pack c (chunk_count c len) len match st1 with WIdle => 0 | Writing _ elen => elen end)
      as [[[bo' total] fr]|]; [|intros [= <- <- <-]; apply Hsame].
    destruct (total =? 0); [intros [= <- <- <-]; apply Hsame|].
    intros [= <- <- <-]. split; cbn [w_frames w_sent]; [eauto | exact Hs].
  - destruct (len =? 0); [intros [= <- <- <-]; apply Hsame|].
    destruct (c_mfl c =? 0); [intros [= <- <- <-]; apply Hsame|].
    destruct (pack c (chunk_count c len) len match st1 with WIdle => 0 | Writing _ elen => elen end)
      as [[[bo' total] fr]|]; [|intros [= <- <- <-]; apply Hsame].
    destruct (total =? 0); [intros [= <- <- <-]; apply Hsame|].
    intros [= <- <- <-]. split; cbn [w_frames w_sent]; [eauto | exact Hs].
Qed.

Lemma poll_flush_mono c sc w x w' sc' : poll_flush c sc w = (x, w', sc') -> wmono w w'.
Proof.
  unfold poll_flush. destruct (wpre c sc w) as [[[dres st1] sent1] sc1] eqn:Ed.
  pose proof (wpre_sent _ _ _ _ _ _ _ Ed) as Hs.
  assert (Hsame : forall st cl l, wmono w (mkW st (w_frames w) sent1 cl l)).
  { intros. split; cbn [w_frames w_sent]; [exists []; rewrite app_nil_r; reflexivity | exact Hs]. }
  destruct dres; try (intros [= <- <- <-]; apply Hsame).
  destruct (carrier_ctl (w_cclosed w) sc1) as [[| |e] sc2]; intros [= <- <- <-]; apply Hsame.
Qed.

Lemma poll_close_mono c sc w x w' sc' : poll_close c sc w = (x, w', sc') -> wmono w w'.
Proof.
  unfold poll_close. destruct (poll_flush c sc w) as [[y w1] sc1] eqn:Ef.
  pose proof (poll_flush_mono _ _ _ _ _ _ Ef) as [[fr Hf] Hs].
  assert (Hsame : forall cl l, wmono w (mkW (w_state w1) (w_frames w1) (w_sent w1) cl l)).
  { intros. split; cbn [w_frames w_sent]; [eauto | exact Hs]. }
  destruct y; try (intros [= <- <- <-]; split; [eauto|exact Hs]).
  destruct (carrier_ctl (w_cclosed w1) sc1) as [[| |e] sc2]; intros [= <- <- <-]; apply Hsame.
Qed.

Lemma wstep_mono c o sc w x w' sc' : wstep c o sc w = (x, w', sc') -> wmono w w'.
Proof.
  destruct o; cbn [wstep]; [apply poll_write_mono | apply poll_flush_mono | apply poll_close_mono | apply poll_write_mono].
Qed.

Lemma run_writer_mono c : forall ops sc w tr wf ok, run_writer c ops sc w = (tr, wf, ok) -> wmono w wf.
Proof.
  induction ops as [|o t IH]; intros sc w tr wf ok; cbn [run_writer].
  - intros [= <- <- <-]. apply wmono_refl.
  - destruct (wstep c o sc w) as [[x w'] sc'] eqn:Es. pose proof (wstep_mono _ _ _ _ _ _ _ Es) as H1.
    destruct (w_is_final x); [intros [= <- <- <-]; exact H1|].
    destruct (run_writer c t sc' w') as [[l wf'] ok'] eqn:Er. intros [= <- <- <-].
    eapply wmono_trans; [exact H1 | eapply IH; exact Er].
Qed.

Lemma wmono_sent w w' : wmono w w' -> exists k,
  sent_frames (w_frames w') (w_sent w') = sent_frames (w_frames w) (w_sent w) ++ k.
Proof. intros [[fr ->] Hs]. apply sent_frames_prefix. exact Hs. Qed.

(* ------------------------------------------------------------------ one direction of a connection *)

Record FInv (c : cfg) (f : flow) : Prop := {
  fi_w : WInv c (f_w f);
  fi_items : items_wf (f_plains f) (f_items f);
  fi_avail : f_avail f <= wire_len (f_items f);
  fi_r : Inv2 (flow_env c f) (f_D f) (f_r f);
  fi_pre : exists m, sent_frames (w_frames (f_w f)) (w_sent (f_w f)) = f_plains f ++ m;
  fi_cut : f_cut f = false -> f_avail f = wire_len (f_items f)
}.

(* nothing in this direction has been manipulated or cut so far *)
Definition Clean (f : flow) : Prop := f_items f = honest (f_plains f) /\ f_cut f = false.

Lemma flow_wf c f : 1 <= c_factor c -> FInv c f -> wf_env (flow_env c f).
Proof. intros Hf [_ Hi Ha _ _ _]. unfold flow_env. apply env_wf; assumption. Qed.

Lemma flow_init_inv c : 1 <= c_factor c -> FInv c (flow_init c).
Proof.
  intro Hf. unfold flow_init.
  assert (W : wf_env (mkEnv c [] [] 0)) by (apply env_wf; [exact Hf|constructor|cbn; lia]).
  constructor; cbn [f_w f_r f_items f_plains f_avail f_cut f_D].
  - apply writer_init_inv.
  - constructor.
  - cbn. lia.
  - exact (init_inv2 _ W).
  - exists []. reflexivity.
  - reflexivity.
Qed.

Lemma flow_init_clean c : Clean (flow_init c).
Proof. split; reflexivity. Qed.

(* the reader has never delivered more than the clean prefix of what the network delivered *)
Theorem flow_clean_bound c f : 1 <= c_factor c -> FInv c f ->
  f_D f <= clean_prefix (f_items f) (f_plains f) 0 (f_avail f).
Proof.
  intros Hf HF. pose proof (flow_wf c f Hf HF) as W.
  exact (clean_bound (flow_env c f) (f_D f) (f_r f) W (fi_r c f HF)).
Qed.

Definition no_tamper (ts : list tamper) : Prop := Forall (fun t => t = TNone) ts.

Lemma no_tamper_id ts : no_tamper ts -> (forall l, apply_tampers ts l = l) /\ trunc_of ts = None.
Proof.
  unfold no_tamper, apply_tampers. induction ts as [|t ts IH]; intro H; [split; reflexivity|].
  inversion H as [|? ? Ht Hts]; subst. destruct (IH Hts) as [A B].
  split; [intro l; cbn [fold_left apply_tamper]; apply A | cbn [trunc_of]; exact B].
Qed.

Lemma frame_ok_le c (l : list N) : Forall (frame_ok c) l -> Forall (fun p => p <= c_mfl c) l.
Proof. intro H. eapply Forall_impl; [|exact H]. intros a [_ Ha]. exact Ha. Qed.

Lemma ext_intro c f items' plains' avail' mi mp :
  items' = f_items f ++ mi -> plains' = f_plains f ++ mp -> f_avail f <= avail' ->
  ext (flow_env c f) (mkEnv c items' plains' avail').
Proof.
  intros -> -> Ha. constructor; cbn [flow_env e_cfg e_items e_plains e_avail]; eauto.
Qed.

(* the network step *)
Lemma deliver_inv c ts f f' new :
  1 <= c_factor c -> c_mfl c + TAG <= SNOW_MAX -> FInv c f -> deliver ts f = (f', new) ->
  FInv c f' /\ f_w f' = f_w f /\ f_r f' = f_r f /\ f_D f' = f_D f /\
  f_plains f' = sent_frames (w_frames (f_w f)) (w_sent (f_w f)) /\
  f_plains f' = f_plains f ++ new /\
  (Clean f -> no_tamper ts -> Clean f').
Proof.
  intros Hf Hm HF. pose proof (flow_wf c f Hf HF) as W.
  destruct HF as [HW Hi Ha HR [m Hpre] Hcut]. unfold deliver. rewrite Hpre, skipn_app_len.
  assert (Hnew : Forall (fun p => p <= c_mfl c) m).
  { apply frame_ok_le. destruct HW as [HFr _].
    pose proof (sent_frames_forall (frame_ok c) _ (w_sent (f_w f)) HFr) as Hsf. rewrite Hpre in Hsf.
    apply Forall_app in Hsf. exact (proj2 Hsf). }
  assert (Hti : items_wf (f_plains f ++ m) (apply_tampers ts (honest_from (nlen (f_plains f)) m))).
  { apply apply_tampers_wf. apply (honest_from_wf (c_mfl c)); [exact Hm|exact Hnew|].
    intros j p Hj. rewrite nthP_app_r. exact Hj. }
  assert (Hold : items_wf (f_plains f ++ m) (f_items f)) by (apply items_wf_ext; exact Hi).
  destruct (f_cut f) eqn:Ec.
  - intros [= <- <-]. cbn [f_w f_r f_items f_plains f_avail f_cut f_D].
    split; [|do 5 (split; [reflexivity|]); intros [_ Hcc] _; exfalso; congruence].
    constructor; cbn [f_w f_r f_items f_plains f_avail f_cut f_D]; try assumption.
    + eapply inv2_ext; [exact W| |exact HR].
      apply (ext_intro c f _ _ _ [] m); [cbn [f_items]; rewrite app_nil_r; reflexivity|reflexivity|cbn [f_avail f_items]; lia].
    + exists []. rewrite app_nil_r. exact Hpre.
  - specialize (Hcut eq_refl).
    set (ti := apply_tampers ts (honest_from (nlen (f_plains f)) m)) in *.
    assert (Hall : items_wf (f_plains f ++ m) (f_items f ++ ti)) by (apply Forall_app; split; assumption).
    destruct (trunc_of ts) as [pos|] eqn:Et; intros [= <- <-]; cbn [f_w f_r f_items f_plains f_avail f_cut f_D].
    + split; [|do 5 (split; [reflexivity|]);
                intros _ Hn; destruct (no_tamper_id ts Hn) as [_ B]; congruence].
      constructor; cbn [f_w f_r f_items f_plains f_avail f_cut f_D]; try assumption.
      * rewrite wire_len_app. lia.
      * eapply inv2_ext; [exact W| |exact HR].
        apply (ext_intro c f _ _ _ ti m); [reflexivity|reflexivity|cbn [f_avail f_items]; lia].
      * exists []. rewrite app_nil_r. exact Hpre.
      * discriminate.
    + split; [|do 5 (split; [reflexivity|])].
      * constructor; cbn [f_w f_r f_items f_plains f_avail f_cut f_D]; try assumption.
        -- rewrite wire_len_app. lia.
        -- eapply inv2_ext; [exact W| |exact HR].
           apply (ext_intro c f _ _ _ ti m); [reflexivity|reflexivity|cbn [f_avail f_items]; lia].
        -- exists []. rewrite app_nil_r. exact Hpre.
        -- intros _. rewrite wire_len_app. reflexivity.
      * intros [Hc _] Hn. destruct (no_tamper_id ts Hn) as [A _]. unfold ti. rewrite A, Hc.
        split; [|reflexivity]. cbn [f_items f_plains]. unfold honest. rewrite honest_from_app. f_equal.
Qed.

(* ------------------------------------------------------------------ a read phase with both halves in use *)

(* judgement on the records of a mixed run: delivered chunks are consecutive pieces of the stream
   starting at D; no call panics; in a clean direction of W wire bytes carrying `total`
   plaintext bytes the reader never fails, never delivers more than was written, and has
   delivered everything whenever the carrier reports its end after the whole wire *)
Fixpoint mixed_ok (hon : bool) (W total D : N) (recs : list srec) : Prop :=
  match recs with
  | [] => True
  | QR x r' :: t =>
      match x with
      | RReady n pos => pos = D /\ (hon = true -> D + n <= total) /\ mixed_ok hon W total (D + n) t
      | RPending => mixed_ok hon W total D t
      | RErr err =>
          (hon = true -> r_state r' <> Failed /\
                         (err = E_EOF -> r_wbase r' + r_nread r' = W -> D = total)) /\
          mixed_ok hon W total D t
      | RPanic => False
      end
  | QW x _ :: t => x <> WPanic /\ mixed_ok hon W total D t
  end.

Lemma run_mixed_inv c e : 1 <= c_mfl c -> c_mfl c + TAG <= SNOW_MAX -> 1 <= c_wbuf c ->
  wf_env e -> e_cfg e = c ->
  forall (hon : bool),
  (hon = true -> 1 <= c_factor c /\ plains_ok c (e_plains e) /\ e_items e = honest (e_plains e) /\
                 e_avail e = wire_len (e_items e)) ->
  forall ops rsc wsc D r w recs r' w' ok,
  Inv2 e D r -> WInv c w -> run_mixed c e ops rsc wsc r w = (recs, r', w', ok) ->
  ok = true /\ Inv2 e (D + mdelivered recs) r' /\ WInv c w' /\ wmono w w' /\
  mixed_ok hon (wire_len (e_items e)) (sum (e_plains e)) D recs.
Proof.
  intros H1 H2 H3 W Hc hon Hhon.
  induction ops as [|o t IH]; intros rsc wsc D r w recs r' w' ok HI HW; cbn [run_mixed].
  - intros [= <- <- <- <-]. cbn [mdelivered mixed_ok]. replace (D + 0) with D by lia.
    split; [reflexivity|]. split; [exact HI|]. split; [exact HW|]. split; [apply wmono_refl | exact I].
  - destruct o as [b|o].
    + destruct (poll_read e b rsc r) as [[x r1] rsc1] eqn:Ep.
      pose proof (poll_inv2 e b W rsc D r x r1 rsc1 HI Ep) as Hx.
      pose proof (poll_inv e b W rsc D r x r1 rsc1 (proj1 HI) Ep) as Hres.
      destruct x as [n pos| |err|]; cbn [is_final]; try contradiction.
      * destruct (run_mixed c e t rsc1 wsc r1 w) as [[[l rf] wf] ok'] eqn:Er. intros [= <- <- <- <-].
        destruct (IH _ _ _ _ _ _ _ _ _ Hx HW Er) as (A & B & C & D0 & E).
        cbn [mdelivered mixed_ok]. replace (D + (n + mdelivered l)) with (D + n + mdelivered l) by lia.
        split; [exact A|]. split; [exact B|]. split; [exact C|]. split; [exact D0|].
        cbn [res_ok] in Hres. destruct Hres as (Hp & _). split; [exact Hp|]. split; [|exact E].
        intro Hh. destruct (Hhon Hh) as (_ & _ & _ & _).
        pose proof (inv_D_le e _ _ (proj1 Hx)). pose proof (pstart_le_sum (e_plains e) (r_ctr r1)). lia.
      * destruct (run_mixed c e t rsc1 wsc r1 w) as [[[l rf] wf] ok'] eqn:Er. intros [= <- <- <- <-].
        destruct (IH _ _ _ _ _ _ _ _ _ Hx HW Er) as (A & B & C & D0 & E).
        cbn [mdelivered mixed_ok]. auto.
      * destruct (run_mixed c e t rsc1 wsc r1 w) as [[[l rf] wf] ok'] eqn:Er. intros [= <- <- <- <-].
        destruct (IH _ _ _ _ _ _ _ _ _ Hx HW Er) as (A & B & C & D0 & E).
        cbn [mdelivered mixed_ok].
        split; [exact A|]. split; [exact B|]. split; [exact C|]. split; [exact D0|]. split; [|exact E].
        intro Hh. destruct (Hhon Hh) as (Hf & Hp & Hit & Hav).
        cbn [res_ok] in Hres. destruct Hres as [HI1 Hcase].
        assert (He : e = honest_env c (e_plains e)).
        { destruct e as [c0 items plains avail]. cbn [e_cfg e_items e_plains e_avail] in *.
          unfold honest_env. subst. reflexivity. }
        split.
        -- destruct Hcase as [[_ [mr Hs]]|[_ Hs]]; [congruence|]. exfalso.
           unfold Inv in HI1. rewrite Hs in HI1. destruct HI1 as (_ & (it & Hit' & Hbad) & _).
           rewrite Hit, Hc in *. rewrite (honest_good c (e_plains e) _ _ Hp Hit') in Hbad. discriminate.
        -- intros -> Hall. destruct Hcase as [[_ [mr Hs]]|[Hcase _]]; [|discriminate].
           rewrite He in HI1. rewrite Hit in Hall.
           exact (eof_complete c (e_plains e) D r1 mr Hf H2 Hp HI1 Hs Hall).
    + destruct (wstep c o wsc w) as [[x w1] wsc1] eqn:Es.
      destruct (wstep_ok c o wsc w x w1 wsc1 H1 H2 H3 HW Es) as ((A0 & _ & Ax) & _).
      pose proof (wstep_mono _ _ _ _ _ _ _ Es) as Hm1.
      assert (Hfin : w_is_final x = false) by (destruct x; try reflexivity; contradiction).
      rewrite Hfin.
      destruct (run_mixed c e t rsc wsc1 r w1) as [[[l rf] wf] ok'] eqn:Er. intros [= <- <- <- <-].
      destruct (IH _ _ _ _ _ _ _ _ _ HI A0 Er) as (A & B & C & D0 & E).
      cbn [mdelivered mixed_ok].
      split; [exact A|]. split; [exact B|]. split; [exact C|].
      split; [eapply wmono_trans; eassumption|]. split; [|exact E].
      destruct x; try discriminate; contradiction.
Qed.

(* ------------------------------------------------------------------ rounds *)

Lemma fi_set_w c f w : FInv c f -> WInv c w -> wmono (f_w f) w -> FInv c (set_w f w).
Proof.
  intros [HW Hi Ha HR [m Hpre] Hcut] HW' Hm. unfold set_w.
  constructor; cbn [f_w f_r f_items f_plains f_avail f_cut f_D]; try assumption.
  destruct (wmono_sent _ _ Hm) as [k Hk]. exists (m ++ k). rewrite Hk, Hpre, app_assoc. reflexivity.
Qed.

Lemma clean_set_w f w : Clean f -> Clean (set_w f w).
Proof. intros [A B]. split; assumption. Qed.

Definition round_ok (c : cfg) (rd : round) (F : flow) (tr : rtrace) : Prop :=
  (* the writer calls: judged by wrun_ok (C02_write_frames) *)
  wrun_ok (rd_wops rd) (rd_wsc rd) (w_cclosed (f_w F)) (rt_wrecs tr) /\
  rt_ok tr = true /\ fst (rt_flush tr) <> WPanic /\
  (* the final flush against a carrier that accepts everything completes unless the carrier was closed *)
  (forall e, fst (rt_flush tr) = WErr e -> e = E_BROKENPIPE /\ w_cclosed (snd (rt_flush tr)) = true) /\
  fst (rt_flush tr) <> WPending.

Lemma final_flush_ok c w fx fw sc' : WInv c w -> poll_flush c [] w = (fx, fw, sc') ->
  fx <> WPanic /\ fx <> WPending /\
  (forall e, fx = WErr e -> e = E_BROKENPIPE /\ w_cclosed fw = true) /\
  (forall n, fx = WReady n -> w_state fw = WIdle /\ w_sent fw = frames_wire (w_frames fw)).
Proof.
  intros HW Hf. destruct (poll_flush_ok c [] w fx fw sc' HW Hf) as ((A & _ & Ax) & _ & Hcl & Hrd & _).
  split; [destruct fx; try discriminate; contradiction|].
  split.
  - intros ->. unfold poll_flush in Hf. destruct (wpre c [] w) as [[[dres st1] sent1] sc1] eqn:Ed.
    unfold wpre in Ed. destruct (w_state w) as [|off elen].
    + injection Ed as <- <- <- <-. cbn [carrier_ctl] in Hf. destruct (w_cclosed w); discriminate.
    + cbn [drain] in Ed.
      destruct ((elen <? off) || (ebuf_len c <? elen)); [injection Ed as <- <- <- <-; discriminate|].
      destruct (w_cclosed w); injection Ed as <- <- <- <-; [discriminate|].
      cbn [carrier_ctl] in Hf. discriminate.
  - split.
    + intros e ->. destruct Ax as [_ [[Hc ->]|[[[] _]|(x & [] & _)]]]. split; [reflexivity|]. congruence.
    + intros n ->. destruct (Hrd n eq_refl) as (_ & B & C). split; assumption.
Qed.

Lemma fi_set_r c f r D : FInv c f -> Inv2 (flow_env c f) D r -> FInv c (set_r f r D).
Proof.
  intros [HW Hi Ha HR Hpre Hcut] HR'. unfold set_r.
  constructor; cbn [f_w f_r f_items f_plains f_avail f_cut f_D]; assumption.
Qed.

Lemma plains_ok_of c l : Forall (frame_ok c) l -> plains_ok c l.
Proof. intro H. exact H. Qed.

(* One round, from any state in which both directions are in order: no call on either socket
   panics; both directions are in order again; the writer calls, the final flush and the calls of
   the read phase are judged; what the network took over is exactly what the writer's frames that
   reached the carrier completely; a clean direction stays clean when the round is not tampered
   with. *)
Theorem round_inv c rd F G tr F' G' ok :
  1 <= c_factor c -> 1 <= c_mfl c -> c_mfl c + TAG <= SNOW_MAX -> 1 <= c_wbuf c ->
  FInv c F -> FInv c G -> run_round c rd F G = (tr, F', G', ok) ->
  ok = true /\ FInv c F' /\ FInv c G' /\ round_ok c rd F tr /\
  f_D F' = f_D F + mdelivered (rt_mixed tr) /\ f_D G' = f_D G /\
  f_plains F' = f_plains F ++ rt_new tr /\
  (forall n, fst (rt_flush tr) = WReady n -> f_plains F' = w_frames (snd (rt_flush tr))) /\
  (forall hon : bool, (hon = true -> Clean F /\ no_tamper (rd_tampers rd)) ->
     mixed_ok hon (wire_len (f_items F')) (sum (f_plains F')) (f_D F) (rt_mixed tr)) /\
  (Clean F -> no_tamper (rd_tampers rd) -> Clean F') /\ (Clean G -> Clean G').
Proof.
  intros Hf H1 H2 H3 HF HG. unfold run_round.
  destruct (run_writer c (rd_wops rd) (rd_wsc rd) (f_w F)) as [[wtr w1] okw] eqn:Ew.
  destruct (run_writer_ok c H1 H2 H3 _ _ _ _ _ _ (fi_w c F HF) Ew) as (-> & HW1 & _ & Hwr & _).
  pose proof (run_writer_mono c _ _ _ _ _ _ Ew) as Hm1. cbn [negb].
  destruct (poll_flush c [] w1) as [[fx fw] scf] eqn:Efl.
  destruct (final_flush_ok c w1 fx fw scf HW1 Efl) as (Hnp & Hnpend & Herr & Hrdy).
  destruct (poll_flush_ok c [] w1 fx fw scf HW1 Efl) as ((HWf & _) & _).
  pose proof (poll_flush_mono c _ _ _ _ _ Efl) as Hm2.
  assert (Hfin : w_is_final fx = false) by (destruct fx; try reflexivity; congruence).
  rewrite Hfin.
  assert (HF1 : FInv c (set_w F fw)) by (apply fi_set_w; [exact HF|exact HWf|eapply wmono_trans; eassumption]).
  destruct (deliver (rd_tampers rd) (set_w F fw)) as [F2 new] eqn:Ed.
  destruct (deliver_inv c _ _ _ _ Hf H2 HF1 Ed) as (HF2 & Dw & Dr & DD & Dpl & Dapp & Dclean).
  cbn [set_w f_w f_r f_D f_plains] in Dw, Dr, DD, Dpl, Dapp.
  destruct (run_mixed c (flow_env c F2) (rd_sched rd) (rd_rsc rd) (rd_xsc rd) (f_r F2) (f_w G))
    as [[[recs r'] wg] ok2] eqn:Em.
  intros [= <- <- <- <-]. cbn [rt_wrecs rt_ok rt_flush rt_new rt_avail rt_mixed rt_ok2 fst snd].
  pose proof (flow_wf c F2 Hf HF2) as W2.
  assert (Hmix : forall hon : bool, (hon = true -> Clean F2) ->
            ok2 = true /\ Inv2 (flow_env c F2) (f_D F2 + mdelivered recs) r' /\ WInv c wg /\ wmono (f_w G) wg /\
            mixed_ok hon (wire_len (f_items F2)) (sum (f_plains F2)) (f_D F2) recs).
  { intros hon Hh.
    apply (run_mixed_inv c (flow_env c F2) H1 H2 H3 W2 eq_refl hon) with
      (ops := rd_sched rd) (rsc := rd_rsc rd) (wsc := rd_xsc rd) (r := f_r F2) (w := f_w G);
      [|exact (fi_r c F2 HF2)|exact (fi_w c G HG)|exact Em].
    intro Hhon. destruct (Hh Hhon) as [Hit Hcut]. cbn [flow_env e_cfg e_items e_plains e_avail].
    split; [exact Hf|]. split; [|split; [exact Hit|apply (fi_cut c F2 HF2); exact Hcut]].
    rewrite Dpl. apply sent_frames_forall. exact (proj1 HWf). }
  destruct (Hmix false ltac:(discriminate)) as (-> & HI' & HWg & Hmg & _).
  split; [reflexivity|].
  split; [apply fi_set_r; assumption|].
  split; [apply fi_set_w; assumption|].
  split.
  { unfold round_ok. cbn [rt_wrecs rt_ok rt_flush fst snd].
    split; [exact Hwr|]. split; [reflexivity|]. split; [exact Hnp|]. split; [exact Herr|exact Hnpend]. }
  cbn [set_r set_w f_D f_plains f_items f_cut].
  split; [rewrite DD; reflexivity|]. split; [reflexivity|]. split; [exact Dapp|].
  split.
  { intros n Hn. destruct (Hrdy n Hn) as [_ Hs]. rewrite Dpl, Hs. apply sent_frames_all. }
  split.
  { intros hon Hh. rewrite <- DD.
    refine (proj2 (proj2 (proj2 (proj2 (Hmix hon _))))).
    intro Hhon. destruct (Hh Hhon) as [Hc Hn]. apply Dclean; [apply clean_set_w; exact Hc | exact Hn]. }
  split.
  - intros Hc Hn. destruct (Dclean (clean_set_w F fw Hc) Hn) as [A B]. split; assumption.
  - intros [A B]. split; assumption.
Qed.

Definition GInv (c : cfg) (F0 F1 : flow) : Prop := FInv c F0 /\ FInv c F1.

(* A whole connection: any number of rounds in any directions, any calls, carrier behaviours,
   manipulations and interleavings — no call ever panics, and both directions stay in order. *)
Theorem rounds_inv c :
  1 <= c_factor c -> 1 <= c_mfl c -> c_mfl c + TAG <= SNOW_MAX -> 1 <= c_wbuf c ->
  forall rds F0 F1 trs A B ok, GInv c F0 F1 -> run_rounds c rds F0 F1 = (trs, A, B, ok) ->
  ok = true /\ GInv c A B /\ length trs = length rds.
Proof.
  intros Hf H1 H2 H3. induction rds as [|rd t IH]; intros F0 F1 trs A B ok [G0 G1]; cbn [run_rounds].
  - intros [= <- <- <- <-]. split; [reflexivity|]. split; [split; assumption | reflexivity].
  - destruct (rd_dir rd).
    + destruct (run_round c rd F1 F0) as [[[tr F1'] F0'] ok1] eqn:Er.
      destruct (round_inv c rd F1 F0 tr F1' F0' ok1 Hf H1 H2 H3 G1 G0 Er) as (-> & I1 & I0 & _).
      destruct (run_rounds c t F0' F1') as [[[l A'] B'] ok'] eqn:Et. intros [= <- <- <- <-].
      destruct (IH _ _ _ _ _ _ (conj I0 I1) Et) as (X & Y & Z).
      split; [exact X|]. split; [exact Y|]. cbn [length]. rewrite Z. reflexivity.
    + destruct (run_round c rd F0 F1) as [[[tr F0'] F1'] ok1] eqn:Er.
      destruct (round_inv c rd F0 F1 tr F0' F1' ok1 Hf H1 H2 H3 G0 G1 Er) as (-> & I0 & I1 & _).
      destruct (run_rounds c t F0' F1') as [[[l A'] B'] ok'] eqn:Et. intros [= <- <- <- <-].
      destruct (IH _ _ _ _ _ _ (conj I0 I1) Et) as (X & Y & Z).
      split; [exact X|]. split; [exact Y|]. cbn [length]. rewrite Z. reflexivity.
Qed.

(* rounds compose: the state after a prefix of the rounds is the state the remaining rounds start
   from (so round_inv speaks about every single round of a run) *)
Theorem rounds_app c : forall pre post F0 F1,
  run_rounds c (pre ++ post) F0 F1 =
  let '(t1, A, B, ok1) := run_rounds c pre F0 F1 in
  if ok1 then let '(t2, A', B', ok2) := run_rounds c post A B in (t1 ++ t2, A', B', ok2)
  else (t1, A, B, false).
Proof.
  induction pre as [|rd t IH]; intros post F0 F1; cbn [app run_rounds].
  - destruct (run_rounds c post F0 F1) as [[[t2 A'] B'] ok2]. reflexivity.
  - destruct (rd_dir rd).
    + destruct (run_round c rd F1 F0) as [[[tr F1'] F0'] ok1]. destruct ok1; [|reflexivity].
      rewrite IH. destruct (run_rounds c t F0' F1') as [[[l A] B] ok']. destruct ok'; [|reflexivity].
      destruct (run_rounds c post A B) as [[[t2 A'] B'] ok2]. reflexivity.
    + destruct (run_round c rd F0 F1) as [[[tr F0'] F1'] ok1]. destruct ok1; [|reflexivity].
      rewrite IH. destruct (run_rounds c t F0' F1') as [[[l A] B] ok']. destruct ok'; [|reflexivity].
      destruct (run_rounds c post A B) as [[[t2 A'] B'] ok2]. reflexivity.
Qed.

(* from the start of the connection: in both directions the plaintext delivered never exceeds the
   clean prefix of what the network delivered *)
Theorem connection_bound c :
  1 <= c_factor c -> 1 <= c_mfl c -> c_mfl c + TAG <= SNOW_MAX -> 1 <= c_wbuf c ->
  forall rds trs A B ok, run_rounds c rds (flow_init c) (flow_init c) = (trs, A, B, ok) ->
  ok = true /\ GInv c A B /\
  f_D A <= clean_prefix (f_items A) (f_plains A) 0 (f_avail A) /\
  f_D B <= clean_prefix (f_items B) (f_plains B) 0 (f_avail B).
Proof.
  intros Hf H1 H2 H3 rds trs A B ok Hr.
  destruct (rounds_inv c Hf H1 H2 H3 rds _ _ _ _ _ _ (conj (flow_init_inv c Hf) (flow_init_inv c Hf)) Hr)
    as (-> & [GA GB] & _).
  split; [reflexivity|]. split; [split; assumption|].
  split; apply (flow_clean_bound c); assumption.
Qed.
