(* C02 — the read buffer at byte level.  Model.v represents the valid part of read_buffer,
   read_buffer[0 .. nread), by the wire position of its first byte (`r_wbase`): "the buffer is a
   contiguous window of the wire".  Here the buffer is a map from buffer index to the wire position
   of the byte stored there, written by the carrier (ReadData) and by the one-byte copy of
   reset_read_state, and the window representation is PROVED to be an invariant of every
   poll_read: so the slice handed to the AEAD, read_buffer[offset .. offset + frame_size), holds
   exactly the wire bytes [wbase + offset, wbase + offset + frame_size), and the two header bytes
   read at read_buffer[offset], read_buffer[offset + 1] are the wire bytes at wbase + offset. *)
From Coq Require Import List Arith NArith Bool Lia.
From Coq Require Import ZifyBool ZifyNat ZifyN.
From V.gen Require Import Consts.
From V.C02 Require Import Model.
Import ListNotations.
Open Scope N_scope.

Arguments N.add : simpl never.
Arguments N.sub : simpl never.
Arguments N.mul : simpl never.
Arguments N.eqb : simpl never.
Arguments N.ltb : simpl never.
Arguments N.leb : simpl never.
Arguments N.min : simpl never.

(* buffer index -> wire position of the byte stored there (None: never written) *)
Definition buf := N -> option N.
Definition buf_init : buf := fun _ => None.

(* io.poll_read(&mut read_buffer[nread..max_read]) = Ok(k): the carrier stores the next k wire
   bytes, wire[p .. p + k), at read_buffer[at .. at + k) *)
Definition fill (bf : buf) (at_ p k : N) : buf :=
  fun i => if (at_ <=? i) && (i <? at_ + k) then Some (p + (i - at_)) else bf i.

(* reset_read_state(remaining): `read_buffer[0] = read_buffer[nread - 1]` when one byte is left *)
Definition reset_buf (bf : buf) (nread remaining : N) : buf :=
  if remaining =? 1 then fun i => if i =? 0 then bf (nread - 1) else bf i else bf.

(* the buffer effect of one pass through the ReadFrameLen arm (only the reset branch writes) *)
Definition step_len_buf (r : reader) (bf : buf) : buf :=
  if r_nread r <? r_offset r then bf
  else
    let remaining := r_nread r - r_offset r in
    if remaining <? 2 then reset_buf bf (r_nread r) remaining else bf.

(* the buffer effect of poll_read, following poll_go step by step *)
Fixpoint poll_go_buf (e : renv) (buflen : N) (sc : list N) (r : reader) (bf : buf) : buf :=
  let '(r1, res) := match r_state r with
                    | ReadFrameLen => step_len e r
                    | _ => (r, None)
                    end in
  let bf1 := match r_state r with ReadFrameLen => step_len_buf r bf | _ => bf end in
  match res with
  | Some _ => bf1
  | None =>
      match r_state r1 with
      | ReadData mr =>
          if (mr <? r_nread r1) || (rbuf_len (e_cfg e) <? mr) then bf1
          else
            match sc with
            | [] => bf1
            | x :: t =>
                if x =? 0 then bf1
                else if x =? SPECIAL then bf1
                else if SPECIAL <? x then bf1
                else
                  let pulled := r_wbase r1 + r_nread r1 in
                  let k := N.min x (N.min (mr - r_nread r1) (e_avail e - pulled)) in
                  if k =? 0 then bf1
                  else poll_go_buf e buflen t
                         (mkR ReadFrameLen (r_nread r1 + k) (r_offset r1) (r_cfs r1)
                              (r_wbase r1) (r_ctr r1) (r_pbase r1) false)
                         (fill bf1 (r_nread r1) pulled k)
            end
      | _ => bf1
      end
  end.

Definition poll_read_buf (e : renv) (buflen : N) (sc : list N) (r : reader) (bf : buf) : buf :=
  poll_go_buf e buflen sc (set_lp r false) bf.

(* read_buffer[0 .. nread) is the wire from position r_wbase on *)
Definition Win (bf : buf) (r : reader) : Prop :=
  forall i, i < r_nread r -> bf i = Some (r_wbase r + i).

Lemma win_init c : Win buf_init (reader_init c).
Proof. intros i Hi. cbn [reader_init r_nread] in Hi. lia. Qed.

Lemma win_same bf r r' : r_nread r' = r_nread r -> r_wbase r' = r_wbase r -> Win bf r -> Win bf r'.
Proof. intros H1 H2 H i Hi. rewrite H1 in Hi. rewrite H2. apply H. exact Hi. Qed.

Lemma step_len_win e r r1 res bf : step_len e r = (r1, res) -> Win bf r -> Win (step_len_buf r bf) r1.
Proof.
  unfold step_len, step_len_buf.
  destruct (r_nread r <? r_offset r) eqn:E1; [intros [= <- <-] H; exact H|].
  destruct (r_nread r - r_offset r <? 2) eqn:E2.
  - intros [= <- <-] H. unfold reset_read, reset_buf, Win. cbn [r_nread r_wbase].
    intros i Hi. destruct (r_nread r - r_offset r =? 1) eqn:E3; [|lia].
    assert (i = 0) by lia. subst i. replace (0 =? 0) with true by lia.
    rewrite (H (r_nread r - 1)) by lia. f_equal. lia.
  - destruct (r_cfs r) as [fs|].
    + cbv beta iota zeta. destruct (r_nread r - r_offset r <? fs).
      * destruct (r_nread r + fs <? cmax (e_cfg e)); intros [= <- <-] H; exact H.
      * destruct (fs <=? TAG); intros [= <- <-] H; exact H.
    + destruct (hdr_at (e_items e) (r_wbase r + r_offset r)) as [fs|]; cbv beta iota zeta.
      * destruct (r_nread r - r_offset r - 2 <? fs).
        -- destruct (r_nread r + fs <? cmax (e_cfg e)); intros [= <- <-] H; exact H.
        -- destruct (fs <=? TAG); intros [= <- <-] H; exact H.
      * intros [= <- <-] H; exact H.
Qed.

Lemma proc_window e b r r2 x : proc e b r = (r2, x) -> r_nread r2 = r_nread r /\ r_wbase r2 = r_wbase r.
Proof.
  unfold proc. destruct (r_state r) as [mr| | |poff psize pfs|]; try (intros [= <- <-]; split; reflexivity).
  - destruct (r_cfs r) as [fs|]; [|intros [= <- <-]; split; reflexivity].
    destruct (fs <? TAG); [intros [= <- <-]; split; reflexivity|].
    destruct (rbuf_len (e_cfg e) <? r_offset r + fs); [intros [= <- <-]; split; reflexivity|].
    destruct (r_nread r <? r_offset r + fs); [intros [= <- <-]; split; reflexivity|].
    destruct (SNOW_MAX <? fs); [intros [= <- <-]; split; reflexivity|].
    destruct (body_ok (e_items e) (r_ctr r) (r_wbase r + r_offset r) fs);
      (destruct (fs - TAG <=? b); [intros [= <- <-]; split; reflexivity|]);
      destruct (c_mfl (e_cfg e) <? fs - TAG); intros [= <- <-]; split; reflexivity.
  - destruct (psize <? poff); [intros [= <- <-]; split; reflexivity|].
    destruct (psize - poff <=? b); intros [= <- <-]; split; reflexivity.
Qed.

Lemma fill_win bf r k st lp :
  Win bf r -> Win (fill bf (r_nread r) (r_wbase r + r_nread r) k)
                  (mkR st (r_nread r + k) (r_offset r) (r_cfs r) (r_wbase r) (r_ctr r) (r_pbase r) lp).
Proof.
  intros H i Hi. cbn [r_nread r_wbase] in *. unfold fill.
  destruct ((r_nread r <=? i) && (i <? r_nread r + k)) eqn:E.
  - f_equal. lia.
  - apply H. lia.
Qed.

Lemma set_lp_win bf r l : Win bf r -> Win bf (set_lp r l).
Proof. destruct r. exact (fun H => H). Qed.

(* One poll_read keeps the window, whatever the carrier does. *)
Theorem poll_go_win e b : forall sc r bf x r' sc',
  Win bf r -> poll_go e b sc r = (x, r', sc') -> Win (poll_go_buf e b sc r bf) r'.
Proof.
  induction sc as [|s t IH]; intros r bf x r' sc' HW; cbn [poll_go poll_go_buf];
    destruct (match r_state r with ReadFrameLen => step_len e r | _ => (r, None) end) as [r1 res] eqn:Epre;
    set (bf1 := match r_state r with ReadFrameLen => step_len_buf r bf | _ => bf end);
    (assert (HW1 : Win bf1 r1)
      by (unfold bf1; destruct (r_state r); try (injection Epre as <- <-; exact HW);
          eapply step_len_win; eassumption));
    (destruct res as [y|]; [intros [= <- <- <-]; exact HW1|]).
  - destruct (r_state r1) eqn:Es1.
    + destruct ((max_read <? r_nread r1) || (rbuf_len (e_cfg e) <? max_read));
        intros [= <- <- <-]; try apply set_lp_win; exact HW1.
    + intros [= <- <- <-]; exact HW1.
    + destruct (proc e b r1) as [r2 y] eqn:Ep. intros [= <- <- <-].
      destruct (proc_window _ _ _ _ _ Ep) as [A B]. eapply win_same; eassumption.
    + destruct (proc e b r1) as [r2 y] eqn:Ep. intros [= <- <- <-].
      destruct (proc_window _ _ _ _ _ Ep) as [A B]. eapply win_same; eassumption.
    + intros [= <- <- <-]; exact HW1.
  - destruct (r_state r1) eqn:Es1.
    + destruct ((max_read <? r_nread r1) || (rbuf_len (e_cfg e) <? max_read));
        [intros [= <- <- <-]; exact HW1|].
      destruct (s =? 0); [intros [= <- <- <-]; apply set_lp_win; exact HW1|].
      destruct (s =? SPECIAL); [intros [= <- <- <-]; apply set_lp_win; exact HW1|].
      destruct (SPECIAL <? s); [intros [= <- <- <-]; apply set_lp_win; exact HW1|].
      destruct (N.min s (N.min (max_read - r_nread r1) (e_avail e - (r_wbase r1 + r_nread r1))) =? 0);
        [intros [= <- <- <-]; apply set_lp_win; exact HW1|].
      intro H. eapply IH; [|exact H]. apply fill_win. exact HW1.
    + intros [= <- <- <-]; exact HW1.
    + destruct (proc e b r1) as [r2 y] eqn:Ep. intros [= <- <- <-].
      destruct (proc_window _ _ _ _ _ Ep) as [A B]. eapply win_same; eassumption.
    + destruct (proc e b r1) as [r2 y] eqn:Ep. intros [= <- <- <-].
      destruct (proc_window _ _ _ _ _ Ep) as [A B]. eapply win_same; eassumption.
    + intros [= <- <- <-]; exact HW1.
Qed.

Theorem poll_read_win e b sc r bf x r' sc' :
  Win bf r -> poll_read e b sc r = (x, r', sc') -> Win (poll_read_buf e b sc r bf) r'.
Proof. intros HW H. unfold poll_read in H. eapply poll_go_win; [apply set_lp_win; exact HW | exact H]. Qed.

(* a whole run of poll_read calls, threading the byte-level buffer *)
Fixpoint run_buf (e : renv) (bufs : list N) (sc : list N) (r : reader) (bf : buf) : reader * buf :=
  match bufs with
  | [] => (r, bf)
  | b :: bt =>
      let '(x, r', sc') := poll_read e b sc r in
      let bf' := poll_read_buf e b sc r bf in
      if is_final x then (r', bf') else run_buf e bt sc' r' bf'
  end.

Theorem run_win e : forall bufs sc r bf r' bf',
  Win bf r -> run_buf e bufs sc r bf = (r', bf') -> Win bf' r'.
Proof.
  induction bufs as [|b bt IH]; intros sc r bf r' bf' HW; cbn [run_buf].
  - intros [= <- <-]. exact HW.
  - destruct (poll_read e b sc r) as [[x r1] sc1] eqn:Ep.
    pose proof (poll_read_win e b sc r bf x r1 sc1 HW Ep) as H1.
    destruct (is_final x); [intros [= <- <-]; exact H1|]. apply IH. exact H1.
Qed.

(* what the window means for the places where poll_read looks into the buffer: the frame header at
   read_buffer[offset], read_buffer[offset + 1] and the slice read_buffer[offset .. offset + fs)
   given to the AEAD are the wire bytes at r_wbase + offset — the positions `hdr_at` and
   `body_ok` are asked about in Model.step_len / Model.proc *)
Theorem window_slice bf r fs : Win bf r -> r_offset r + fs <= r_nread r ->
  forall i, i < fs -> bf (r_offset r + i) = Some (r_wbase r + r_offset r + i).
Proof. intros H Hle i Hi. rewrite (H (r_offset r + i)) by lia. f_equal. lia. Qed.
