From Coq Require Import ExtrOcamlBasic.
From V.C02 Require Import Glue.
Extraction Language OCaml.
Extraction "c02_model.ml" run_case prop_ok known_class.
