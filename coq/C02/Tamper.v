(* C02 — arbitrary manipulation of the ciphertext in transit: every list of manipulations yields a
   well-formed reader environment (so all reader theorems apply to it), the reader never delivers
   more than the clean prefix of the wire, and a reader state stays valid when the network
   appends further frames to the wire (deliveries in several rounds). *)
From Coq Require Import List Arith NArith Bool Lia.
From Coq Require Import ZifyBool ZifyNat ZifyN.
From V.gen Require Import Consts.
From V.C02 Require Import Model Proofs.
Import ListNotations.
Open Scope N_scope.

Arguments N.add : simpl never.
Arguments N.sub : simpl never.
Arguments N.mul : simpl never.
Arguments N.eqb : simpl never.
Arguments N.ltb : simpl never.
Arguments N.leb : simpl never.
Arguments N.min : simpl never.
Arguments N.of_nat : simpl never.
Arguments N.modulo : simpl never.
Arguments N.lxor : simpl never.

Ltac consts := unfold SNOW_MAX, TAG, MSG, NOISE_EXTRA_ENCRYPT_SPACE, MAX_NOISE_MSG_LEN in *.

(* ------------------------------------------------------------------ the reader's counter *)

(* the counter only passes items that are authentic, in order and truthfully framed *)
Definition Inv2 (e : renv) (D : N) (r : reader) : Prop :=
  Inv e D r /\ forall j, not_auth e j -> r_ctr r <= j.

Lemma init_inv2 e : wf_env e -> Inv2 e 0 (reader_init (e_cfg e)).
Proof. intro W. split; [apply init_inv; exact W|]. intros j _. cbn [reader_init r_ctr]. lia. Qed.

Lemma poll_inv2 e b : wf_env e -> forall sc D r x r' sc',
  Inv2 e D r -> poll_read e b sc r = (x, r', sc') ->
  match x with
  | RReady n _ => Inv2 e (D + n) r'
  | RPanic => False
  | _ => Inv2 e D r'
  end.
Proof.
  intros W sc D r x r' sc' [HI HC] Ep.
  pose proof (poll_inv e b W sc D r x r' sc' HI Ep) as H.
  assert (HC' : forall j, not_auth e j -> r_ctr r' <= j).
  { intros j Hj. eapply poll_ctr; [exact W|exact Hj|exact HI|apply HC; exact Hj|exact Ep]. }
  destruct x as [n pos| |err|]; cbn [res_ok] in H.
  - destruct H as (_ & _ & _ & H). split; assumption.
  - split; assumption.
  - destruct H as [H _]. split; assumption.
  - exact H.
Qed.

(* how the receive nonce advances: a poll_read call decrypts at most one frame, and the counter
   moves (by exactly one) only in a call that delivers bytes of that frame *)
Definition ctr_step (r : reader) (x : rres) (r' : reader) : Prop :=
  r_ctr r' = r_ctr r \/ (r_ctr r' = r_ctr r + 1 /\ exists n pos, x = RReady n pos).

Lemma proc_ctr_step e b r r2 x : proc e b r = (r2, x) -> ctr_step r x r2.
Proof.
  unfold proc, ctr_step.
  destruct (r_state r) as [mr| | |poff psize pfs|]; try (intros [= <- <-]; left; reflexivity).
  - destruct (r_cfs r) as [fs|]; [|intros [= <- <-]; left; reflexivity].
    destruct (fs <? TAG); [intros [= <- <-]; left; reflexivity|].
    destruct (rbuf_len (e_cfg e) <? r_offset r + fs); [intros [= <- <-]; left; reflexivity|].
    destruct (r_nread r <? r_offset r + fs); [intros [= <- <-]; left; reflexivity|].
    destruct (SNOW_MAX <? fs); [intros [= <- <-]; left; reflexivity|].
    destruct (body_ok (e_items e) (r_ctr r) (r_wbase r + r_offset r) fs).
    + destruct (fs - TAG <=? b); [intros [= <- <-]; right; cbn [r_ctr]; eauto|].
      destruct (c_mfl (e_cfg e) <? fs - TAG); intros [= <- <-]; [left; reflexivity | right; cbn [r_ctr]; eauto].
    + destruct (fs - TAG <=? b); [intros [= <- <-]; left; reflexivity|].
      destruct (c_mfl (e_cfg e) <? fs - TAG); intros [= <- <-]; left; reflexivity.
  - destruct (psize <? poff); [intros [= <- <-]; left; reflexivity|].
    destruct (psize - poff <=? b); intros [= <- <-]; left; reflexivity.
Qed.

Lemma poll_go_ctr_step e b : forall sc r x r' sc', poll_go e b sc r = (x, r', sc') -> ctr_step r x r'.
Proof.
  assert (Htr : forall (r r1 r' : reader) x, r_ctr r1 = r_ctr r -> ctr_step r1 x r' -> ctr_step r x r').
  { intros r r1 r' x H [A|[A B]]; [left|right; split; [|exact B]]; congruence. }
  induction sc as [|s t IH]; intros r x r' sc'; cbn [poll_go];
    destruct (match r_state r with ReadFrameLen => step_len e r | _ => (r, None) end) as [r1 res] eqn:Epre;
    (assert (Hc : r_ctr r1 = r_ctr r)
      by (destruct (r_state r); try (injection Epre as <- <-; reflexivity);
          eapply step_len_ctr; eassumption));
    (destruct res as [y|]; [intros [= <- <- <-]; left; exact Hc|]).
  - destruct (r_state r1) eqn:Es1.
    + destruct ((max_read <? r_nread r1) || (rbuf_len (e_cfg e) <? max_read));
        intros [= <- <- <-]; left; rewrite ?set_lp_ctr; exact Hc.
    + intros [= <- <- <-]; left; exact Hc.
    + destruct (proc e b r1) as [r2 y] eqn:Ep. intros [= <- <- <-].
      eapply Htr; [exact Hc | eapply proc_ctr_step; exact Ep].
    + destruct (proc e b r1) as [r2 y] eqn:Ep. intros [= <- <- <-].
      eapply Htr; [exact Hc | eapply proc_ctr_step; exact Ep].
    + intros [= <- <- <-]; left; exact Hc.
  - destruct (r_state r1) eqn:Es1.
    + destruct ((max_read <? r_nread r1) || (rbuf_len (e_cfg e) <? max_read));
        [intros [= <- <- <-]; left; exact Hc|].
      destruct (s =? 0); [intros [= <- <- <-]; left; rewrite set_lp_ctr; exact Hc|].
      destruct (s =? SPECIAL); [intros [= <- <- <-]; left; rewrite set_lp_ctr; exact Hc|].
      destruct (SPECIAL <? s); [intros [= <- <- <-]; left; rewrite set_lp_ctr; exact Hc|].
      destruct (N.min s (N.min (max_read - r_nread r1) (e_avail e - (r_wbase r1 + r_nread r1))) =? 0);
        [intros [= <- <- <-]; left; rewrite set_lp_ctr; exact Hc|].
      intro H. eapply Htr; [|eapply IH; exact H]. cbn [r_ctr]. exact Hc.
    + intros [= <- <- <-]; left; exact Hc.
    + destruct (proc e b r1) as [r2 y] eqn:Ep. intros [= <- <- <-].
      eapply Htr; [exact Hc | eapply proc_ctr_step; exact Ep].
    + destruct (proc e b r1) as [r2 y] eqn:Ep. intros [= <- <- <-].
      eapply Htr; [exact Hc | eapply proc_ctr_step; exact Ep].
    + intros [= <- <- <-]; left; exact Hc.
Qed.

Theorem poll_ctr_step e b sc r x r' sc' : poll_read e b sc r = (x, r', sc') -> ctr_step r x r'.
Proof.
  unfold poll_read. intro H. pose proof (poll_go_ctr_step e b _ _ _ _ _ H) as [A|[A B]].
  - left. rewrite A. apply set_lp_ctr.
  - right. split; [rewrite A, set_lp_ctr; reflexivity | exact B].
Qed.

(* every item below the counter is the authentic frame of its index *)
Lemma below_ctr e D r : wf_env e -> Inv2 e D r -> forall j, j < r_ctr r ->
  exists it p, nthI (e_items e) j = Some it /\ nthP (e_plains e) j = Some p /\
               i_hdr it = i_blen it /\ i_blen it = p + TAG /\ i_auth it = Some j.
Proof.
  intros W [_ HC] j Hj.
  destruct (nthI (e_items e) j) as [it|] eqn:Hit.
  - destruct ((i_hdr it =? i_blen it) && auth_is it j) eqn:Eg.
    + apply andb_true_iff in Eg. destruct Eg as [E1 E2]. unfold auth_is in E2.
      destruct (i_auth it) as [k|] eqn:Ea; [|discriminate]. assert (k = j) by lia. subst k.
      destruct (wf_auth e W it j (nthI_in _ _ _ Hit) Ea) as (p & Hp1 & Hp2).
      exists it, p. repeat split; try assumption. lia.
    + exfalso. assert (Hna : not_auth e j).
      { intros it' Hit'. rewrite Hit in Hit'. injection Hit' as <-. exact Eg. }
      specialize (HC j Hna). lia.
  - exfalso. assert (Hna : not_auth e j) by (intros it' Hit'; congruence).
    specialize (HC j Hna). lia.
Qed.

(* the frame the reader is working on lies within what the carrier delivers *)
Lemma inv_S_le e D r : Inv e D r -> istart (e_items e) (r_ctr r) <= e_avail e.
Proof.
  destruct r as [st nread offset cfs wbase ctr pbase lp]. unfold Inv.
  cbn [r_state r_nread r_offset r_cfs r_wbase r_ctr r_pbase r_lp].
  destruct st, cfs; intros H; try tauto; decompose [and] H; try lia.
Qed.

Lemma nthI_succ it t j : nthI (it :: t) (j + 1) = nthI t j.
Proof. cbn [nthI]. destruct (j + 1 =? 0) eqn:E; [lia|]. f_equal. lia. Qed.
Lemma nthP_succ p t j : nthP (p :: t) (j + 1) = nthP t j.
Proof. cbn [nthP]. destruct (j + 1 =? 0) eqn:E; [lia|]. f_equal. lia. Qed.

Lemma pstart_le_clean : forall items plains k avail n,
  (forall j, j < n -> exists it p, nthI items j = Some it /\ nthP plains j = Some p /\
                      i_hdr it = i_blen it /\ i_blen it = p + TAG /\ i_auth it = Some (k + j)) ->
  istart items n <= avail ->
  pstart plains n <= clean_prefix items plains k avail.
Proof.
  induction items as [|it t IH]; intros plains k avail n Hall Hs.
  - destruct (n =? 0) eqn:En.
    + assert (n = 0) by lia. subst n. destruct plains; cbn [pstart]; [lia|]. replace (0 =? 0) with true by lia. lia.
    + destruct (Hall 0 ltac:(lia)) as (it & p & H & _). discriminate.
  - destruct (n =? 0) eqn:En.
    { assert (n = 0) by lia. subst n. destruct plains; cbn [pstart]; [lia|]. replace (0 =? 0) with true by lia. lia. }
    destruct (Hall 0 ltac:(lia)) as (it0 & p0 & H1 & H2 & H3 & H4 & H5).
    cbn [nthI] in H1. replace (0 =? 0) with true in H1 by lia. injection H1 as <-.
    destruct plains as [|p pt]; [discriminate|].
    cbn [nthP] in H2. replace (0 =? 0) with true in H2 by lia. injection H2 as <-.
    cbn [istart] in Hs. rewrite En in Hs.
    cbn [clean_prefix pstart]. rewrite En.
    replace (k + 0) with k in H5 by lia. rewrite H5.
    destruct ((i_hdr it =? i_blen it) && (i_blen it =? p + TAG) && (k =? k) && (item_len it <=? avail)) eqn:Ec; [|lia].
    assert (Hle : pstart pt (n - 1) <= clean_prefix t pt (k + 1) (avail - item_len it)).
    { apply IH; [|lia]. intros j Hj. destruct (Hall (j + 1) ltac:(lia)) as (it1 & p1 & G1 & G2 & G3 & G4 & G5).
      rewrite nthI_succ in G1. rewrite nthP_succ in G2. exists it1, p1.
      repeat split; try assumption. rewrite G5. f_equal. lia. }
    lia.
Qed.

(* the reader has never delivered more than the clean prefix of the wire *)
Lemma clean_bound e D r : wf_env e -> Inv2 e D r ->
  D <= clean_prefix (e_items e) (e_plains e) 0 (e_avail e).
Proof.
  intros W HI2. pose proof (inv_D_le e D r (proj1 HI2)) as H1.
  pose proof (inv_S_le e D r (proj1 HI2)) as H2.
  assert (H3 : pstart (e_plains e) (r_ctr r) <= clean_prefix (e_items e) (e_plains e) 0 (e_avail e)).
  { apply pstart_le_clean; [|exact H2]. intros j Hj.
    destruct (below_ctr e D r W HI2 j Hj) as (it & p & A & B & C & D0 & E).
    exists it, p. repeat split; assumption. }
  lia.
Qed.

Lemma run_clean_bound e : wf_env e -> forall bufs sc D r, Inv2 e D r ->
  D + delivered (run_reader e bufs sc r) <= clean_prefix (e_items e) (e_plains e) 0 (e_avail e).
Proof.
  intro W. induction bufs as [|b bt IH]; intros sc D r HI; cbn [run_reader delivered].
  - pose proof (clean_bound e D r W HI). lia.
  - destruct (poll_read e b sc r) as [[x r'] sc'] eqn:Ep.
    pose proof (poll_inv2 e b W sc D r x r' sc' HI Ep) as H.
    destruct x as [n pos| |err|]; cbn [is_final delivered] in *.
    + specialize (IH sc' _ _ H). lia.
    + specialize (IH sc' _ _ H). lia.
    + specialize (IH sc' _ _ H). lia.
    + contradiction.
Qed.

(* Whatever happened to the ciphertext in transit: the plaintext delivered by any run of the
   reader is bounded by the clean prefix of the wire — the frames of the longest prefix of items
   that are, in order, the unmodified ciphertexts 0,1,2,.. with truthful headers and that the
   carrier delivers completely. *)
Theorem read_clean_prefix e : wf_env e -> forall bufs sc,
  delivered (run_reader e bufs sc (reader_init (e_cfg e))) <=
  clean_prefix (e_items e) (e_plains e) 0 (e_avail e).
Proof.
  intros W bufs sc. pose proof (run_clean_bound e W bufs sc 0 _ (init_inv2 e W)). lia.
Qed.

(* ------------------------------------------------------------------ well-formed wires *)

Definition item_wf (plains : list N) (it : item) : Prop :=
  i_hdr it < 65536 /\
  forall k, i_auth it = Some k -> exists p, nthP plains k = Some p /\ i_blen it = p + TAG.

Definition items_wf (plains : list N) (items : list item) : Prop := Forall (item_wf plains) items.

Lemma env_wf c items plains avail :
  1 <= c_factor c -> items_wf plains items -> avail <= wire_len items ->
  wf_env (mkEnv c items plains avail).
Proof.
  intros Hf Hi Ha. unfold items_wf in Hi. rewrite Forall_forall in Hi.
  constructor; cbn [e_cfg e_items e_plains e_avail]; try assumption.
  - intros it Hin. exact (proj1 (Hi it Hin)).
  - intros it k Hin Hk. exact (proj2 (Hi it Hin) k Hk).
Qed.

Lemma nthP_app_l l m : forall k p, nthP l k = Some p -> nthP (l ++ m) k = Some p.
Proof.
  induction l as [|x t IH]; cbn [nthP app]; intros k p; [discriminate|].
  destruct (k =? 0); [trivial | apply IH].
Qed.

Lemma nthP_app_r l m : forall j, nthP (l ++ m) (nlen l + j) = nthP m j.
Proof.
  unfold nlen. induction l as [|x t IH]; intro j; cbn [app length].
  - replace (N.of_nat 0 + j) with j by lia. reflexivity.
  - cbn [nthP]. destruct (N.of_nat (S (length t)) + j =? 0) eqn:E; [lia|].
    replace (N.of_nat (S (length t)) + j - 1) with (N.of_nat (length t) + j) by lia. apply IH.
Qed.

Lemma item_wf_ext plains more it : item_wf plains it -> item_wf (plains ++ more) it.
Proof.
  intros [H1 H2]. split; [exact H1|]. intros k Hk. destruct (H2 k Hk) as (p & A & B).
  exists p. split; [apply nthP_app_l; exact A | exact B].
Qed.

Lemma items_wf_ext plains more items : items_wf plains items -> items_wf (plains ++ more) items.
Proof. unfold items_wf. intro H. eapply Forall_impl; [|exact H]. intros it. apply item_wf_ext. Qed.

(* the frames an honest writer adds behind `old` *)
Lemma honest_from_wf mfl old : mfl + TAG <= SNOW_MAX -> forall new k0,
  Forall (fun p => p <= mfl) new ->
  (forall j p, nthP new j = Some p -> nthP old (k0 + j) = Some p) ->
  items_wf old (honest_from k0 new).
Proof.
  intros Hm. induction new as [|x t IH]; intros k0 Hle Hn; cbn [honest_from]; [constructor|].
  inversion Hle as [|? ? Hx Ht]; subst. constructor.
  - split; cbn [i_hdr i_auth i_blen]; [consts; lia|].
    intros k [= <-]. exists x. split; [|reflexivity].
    replace k0 with (k0 + 0) by lia. apply Hn. cbn [nthP]. replace (0 =? 0) with true by lia. reflexivity.
  - apply IH; [exact Ht|]. intros j p Hj. replace (k0 + 1 + j) with (k0 + (j + 1)) by lia.
    apply Hn. rewrite nthP_succ. exact Hj.
Qed.

Lemma map_nth_wf plains (f : item -> list item) :
  (forall it, item_wf plains it -> Forall (item_wf plains) (f it)) ->
  forall i l, items_wf plains l -> items_wf plains (map_nth f i l).
Proof.
  intros Hf. unfold items_wf. induction i as [|i IH]; intros l Hl; destruct l as [|x t]; cbn [map_nth];
    try constructor; inversion Hl; subst.
  - apply Forall_app. split; [apply Hf; assumption | assumption].
  - assumption.
  - apply IH. assumption.
Qed.

Lemma insert_at_wf plains x : item_wf plains x -> forall i l, items_wf plains l ->
  items_wf plains (insert_at i x l).
Proof.
  intros Hx. unfold items_wf. induction i as [|i IH]; intros l Hl; cbn [insert_at].
  - constructor; assumption.
  - destruct l as [|h t]; [constructor; [assumption|constructor]|].
    inversion Hl; subst. constructor; [assumption | apply IH; assumption].
Qed.

Lemma remove_at_wf plains : forall i l, items_wf plains l -> items_wf plains (remove_at i l).
Proof.
  unfold items_wf. induction i as [|i IH]; intros l Hl; destruct l as [|h t]; cbn [remove_at];
    try constructor; inversion Hl; subst; [assumption|assumption|apply IH; assumption].
Qed.

Lemma swap_at_wf plains : forall i l, items_wf plains l -> items_wf plains (swap_at i l).
Proof.
  unfold items_wf. induction i as [|i IH]; intros l Hl; destruct l as [|a t]; cbn [swap_at]; try assumption.
  - destruct t as [|b t']; [assumption|]. inversion Hl as [|? ? Ha Ht]; subst.
    inversion Ht as [|? ? Hb Ht']; subst. constructor; [assumption|]. constructor; assumption.
  - inversion Hl; subst. destruct t; (constructor; [assumption | apply IH; assumption]).
Qed.

Lemma lxor_lt16 a m : a < 65536 -> m < 65536 -> N.lxor a m < 65536.
Proof.
  intros Ha Hm. destruct (N.lxor a m) as [|p] eqn:E; [lia|].
  apply N.log2_lt_pow2 with (b := 16); [lia|].
  rewrite <- E. eapply N.le_lt_trans; [apply N.log2_lxor|].
  apply N.max_lub_lt.
  - destruct a; [cbn; lia|]. apply N.log2_lt_pow2; [lia|exact Ha].
  - destruct m; [cbn; lia|]. apply N.log2_lt_pow2; [lia|exact Hm].
Qed.

Lemma flip_item_wf plains j mask it : item_wf plains it -> item_wf plains (flip_item j mask it).
Proof.
  intros [H1 H2]. unfold flip_item.
  assert (Hm : mask mod 256 < 256) by (apply N.mod_lt; lia).
  destruct (mask mod 256 =? 0); [split; assumption|].
  destruct (j =? 0).
  { split; cbn [i_hdr i_auth i_blen]; [apply lxor_lt16; lia | exact H2]. }
  destruct (j =? 1).
  { split; cbn [i_hdr i_auth i_blen]; [apply lxor_lt16; lia | exact H2]. }
  destruct (j <? item_len it); [|split; assumption].
  split; cbn [i_hdr i_auth i_blen]; [exact H1 | discriminate].
Qed.

Lemma apply_tamper_wf plains t l : items_wf plains l -> items_wf plains (apply_tamper t l).
Proof.
  intro Hl. destruct t as [|i j mask|i|i|i|pos|i j|i j|i h bl|i|i|i]; cbn [apply_tamper]; try exact Hl.
  - apply map_nth_wf; [|exact Hl]. intros it Hit. constructor; [apply flip_item_wf; exact Hit|constructor].
  - apply map_nth_wf; [|exact Hl]. intros it Hit. constructor.
  - apply map_nth_wf; [|exact Hl]. intros it Hit. constructor; [assumption|]. constructor; [assumption|constructor].
  - apply swap_at_wf; exact Hl.
  - destruct (nth_error l (N.to_nat i)) as [it|] eqn:E; [|exact Hl].
    apply insert_at_wf; [|apply remove_at_wf; exact Hl].
    unfold items_wf in Hl. rewrite Forall_forall in Hl. apply Hl. eapply nth_error_In; exact E.
  - destruct (nth_error l (N.to_nat i)) as [it|] eqn:E; [|exact Hl].
    apply insert_at_wf; [|exact Hl].
    unfold items_wf in Hl. rewrite Forall_forall in Hl. apply Hl. eapply nth_error_In; exact E.
  - apply insert_at_wf; [|exact Hl]. split; cbn [i_hdr i_auth]; [apply N.mod_lt; lia | discriminate].
  - apply map_nth_wf; [|exact Hl]. intros it [H1 _]. constructor; [|constructor].
    split; cbn [i_hdr i_auth]; [exact H1 | discriminate].
  - apply map_nth_wf; [|exact Hl]. intros it [H1 H2]. constructor; [|constructor].
    unfold shrink_item. destruct (i_blen it =? 0); [split; assumption|].
    split; cbn [i_hdr i_auth]; [exact H1 | discriminate].
  - apply map_nth_wf; [|exact Hl]. intros it [H1 _]. constructor; [|constructor].
    split; cbn [i_hdr i_auth]; [exact H1 | discriminate].
Qed.

Lemma apply_tampers_wf plains ts : forall l, items_wf plains l -> items_wf plains (apply_tampers ts l).
Proof.
  unfold apply_tampers. induction ts as [|t ts IH]; intros l Hl; cbn [fold_left]; [exact Hl|].
  apply IH. apply apply_tamper_wf. exact Hl.
Qed.

Lemma tampers_avail_le ts l : tampers_avail ts l <= wire_len (apply_tampers ts l).
Proof. unfold tampers_avail. destruct (trunc_of ts); lia. Qed.

Lemma nthP_self : forall l j p, nthP l j = Some p -> nthP l (0 + j) = Some p.
Proof. intros l j p H. replace (0 + j) with j by lia. exact H. Qed.

(* Every list of manipulations of an honest wire gives an environment the reader theorems speak
   about. *)
Theorem tamper_wf c plains ts :
  1 <= c_factor c -> c_mfl c + TAG <= SNOW_MAX -> plains_ok c plains ->
  wf_env (env_of c plains ts).
Proof.
  intros Hf Hm Hp. unfold env_of. apply env_wf; [exact Hf| |apply tampers_avail_le].
  apply apply_tampers_wf. unfold honest.
  apply (honest_from_wf (c_mfl c)); [exact Hm| |intros j p H; apply nthP_self; exact H].
  unfold plains_ok in Hp. eapply Forall_impl; [|exact Hp]. cbn beta. intros a Ha. lia.
Qed.

(* ------------------------------------------------------------------ growing wires *)

(* e' continues e: the same configuration, more items behind the old ones, more genuine frames
   known, the carrier delivers at least as much *)
Record ext (e e' : renv) : Prop := {
  ext_cfg : e_cfg e' = e_cfg e;
  ext_items : exists m, e_items e' = e_items e ++ m;
  ext_plains : exists m, e_plains e' = e_plains e ++ m;
  ext_avail : e_avail e <= e_avail e'
}.

Lemma nthI_app_l l m : forall k it, nthI l k = Some it -> nthI (l ++ m) k = Some it.
Proof.
  induction l as [|x t IH]; cbn [nthI app]; intros k it; [discriminate|].
  destruct (k =? 0); [trivial | apply IH].
Qed.

Lemma nthI_nlen l : nthI l (nlen l) = None.
Proof.
  unfold nlen. induction l as [|x t IH]; cbn [nthI length]; [reflexivity|].
  destruct (N.of_nat (S (length t)) =? 0) eqn:E; [lia|].
  replace (N.of_nat (S (length t)) - 1) with (N.of_nat (length t)) by lia. exact IH.
Qed.

Lemma nthI_beyond l : forall k, nlen l <= k -> nthI l k = None.
Proof.
  unfold nlen. induction l as [|x t IH]; cbn [nthI length]; intros k Hk; [reflexivity|].
  destruct (k =? 0) eqn:E; [lia|]. apply IH. lia.
Qed.

Lemma nthI_some_lt l : forall k it, nthI l k = Some it -> k < nlen l.
Proof.
  intros k it H. destruct (nlen l <=? k) eqn:E; [|lia].
  rewrite (nthI_beyond l k ltac:(lia)) in H. discriminate.
Qed.

Lemma nthP_some_lt l : forall k p, nthP l k = Some p -> k < nlen l.
Proof.
  unfold nlen. induction l as [|x t IH]; cbn [nthP length]; intros k p; [discriminate|].
  destruct (k =? 0) eqn:E; [lia|]. intro H. specialize (IH _ _ H). lia.
Qed.

Lemma istart_app l m : forall k, k <= nlen l -> istart (l ++ m) k = istart l k.
Proof.
  unfold nlen. induction l as [|x t IH]; cbn [istart app length]; intros k Hk.
  - assert (k = 0) by lia. subst k. destruct m; cbn [istart]; [reflexivity|].
    replace (0 =? 0) with true by lia. reflexivity.
  - destruct (k =? 0) eqn:E; [reflexivity|]. f_equal. apply IH. lia.
Qed.

Lemma pstart_app l m : forall k, k <= nlen l -> pstart (l ++ m) k = pstart l k.
Proof.
  unfold nlen. induction l as [|x t IH]; cbn [pstart app length]; intros k Hk.
  - assert (k = 0) by lia. subst k. destruct m; cbn [pstart]; [reflexivity|].
    replace (0 =? 0) with true by lia. reflexivity.
  - destruct (k =? 0) eqn:E; [reflexivity|]. f_equal. apply IH. lia.
Qed.

(* the counter never runs ahead of the items on the wire or of the genuine frames *)
Lemma ctr_le_items e D r : Inv2 e D r -> r_ctr r <= nlen (e_items e).
Proof.
  intros [_ HC]. apply HC. intros it H. rewrite nthI_nlen in H. discriminate.
Qed.

Lemma ctr_le_plains e D r : wf_env e -> Inv2 e D r -> r_ctr r <= nlen (e_plains e).
Proof.
  intros W [_ HC]. apply HC. intros it H.
  destruct ((i_hdr it =? i_blen it) && auth_is it (nlen (e_plains e))) eqn:Eg; [|reflexivity].
  exfalso. apply andb_true_iff in Eg. destruct Eg as [_ E2]. unfold auth_is in E2.
  destruct (i_auth it) as [k|] eqn:Ea; [|discriminate]. assert (k = nlen (e_plains e)) by lia. subst k.
  destruct (wf_auth e W it _ (nthI_in _ _ _ H) Ea) as (p & Hp & _).
  pose proof (nthP_some_lt _ _ _ Hp). lia.
Qed.

(* A valid reader state stays valid when the network appends to the wire. *)
Theorem inv2_ext e e' D r : wf_env e -> ext e e' -> Inv2 e D r -> Inv2 e' D r.
Proof.
  intros W [Hc [mi Hi] [mp Hp] Ha] HI2.
  pose proof (ctr_le_items e D r HI2) as Hci. pose proof (ctr_le_plains e D r W HI2) as Hcp.
  destruct HI2 as [HI HC].
  assert (HS : istart (e_items e') (r_ctr r) = istart (e_items e) (r_ctr r)) by (rewrite Hi; apply istart_app; exact Hci).
  assert (HP : pstart (e_plains e') (r_ctr r) = pstart (e_plains e) (r_ctr r)) by (rewrite Hp; apply pstart_app; exact Hcp).
  assert (Hh : forall fs, hdr_is e (r_ctr r) fs -> hdr_is e' (r_ctr r) fs).
  { intros fs (it & A & B). exists it. split; [rewrite Hi; apply nthI_app_l; exact A | exact B]. }
  assert (Hb : bad_at e (r_ctr r) -> bad_at e' (r_ctr r)).
  { intros (it & A & B). exists it. split; [rewrite Hi; apply nthI_app_l; exact A | rewrite Hc; exact B]. }
  split.
  - destruct r as [st nread offset cfs wbase ctr pbase lp]. unfold Inv in *.
    cbn [r_state r_nread r_offset r_cfs r_wbase r_ctr r_pbase r_lp] in *.
    rewrite HS, HP, Hc. destruct HI as [H0 HI]. split; [lia|].
    destruct st as [mr| | |poff psize pfs|]; destruct cfs as [fs|]; try exact HI.
    + destruct HI as (A & B & C). split; [exact A|]. split; [apply Hh; exact B | exact C].
    + destruct HI as (A & B & C). split; [exact A|]. split; [apply Hh; exact B | exact C].
    + destruct HI as (A & B & C). split; [exact A|]. split; [apply Hh; exact B | exact C].
    + destruct HI as (A & B & C). split; [apply Hb; exact A |]. split; [exact B | lia].
    + destruct HI as (A & B & C). split; [apply Hb; exact A |]. split; [exact B | lia].
  - intros j Hj. destruct (nthI (e_items e) j) as [it|] eqn:Hit.
    + apply HC. intros it' Hit'. rewrite Hit in Hit'. injection Hit' as <-.
      apply Hj. rewrite Hi. apply nthI_app_l. exact Hit.
    + apply HC. intros it' Hit'. congruence.
Qed.
