(* C02 — the error kinds: the table the harness's scripted carrier draws from is the table the
   model passes through (Model.ecode), and the kinds the NoiseSocket produces itself in the source
   (read off src/crypto/noise/mod.rs by tools/gen_c02_kinds.py on every check) are exactly the ones
   the model produces. *)
From Coq Require Import List NArith Bool.
From V.gen Require Import NoiseKinds.
From V.C02 Require Import Model.
Import ListNotations.
Open Scope N_scope.

Definition table_codes : list N :=
  filter (fun k => negb (k =? 4)) (map N.of_nat (seq 1 (N.to_nat NKINDS))).

(* every code of the harness table is passed through unchanged, and the table is complete *)
Lemma kinds_table :
  noise_kind_codes = table_codes /\ forallb (fun k => ecode k =? k) noise_kind_codes = true.
Proof. vm_compute. split; reflexivity. Qed.

(* a code outside the table stands for Other (9) *)
Lemma ecode_other k : (1 <=? k) && (k <=? NKINDS) && negb (k =? 4) = false -> ecode k = 9.
Proof. unfold ecode. intros ->. reflexivity. Qed.

(* poll_read itself: UnexpectedEof (carrier's end of stream), InvalidData (bad frame size, decryption
   failure, failed state), PermissionDenied (internal-state error; unreachable by C02_read_invariant) *)
Lemma own_read_kinds : noise_read_kinds = [E_EOF; E_INVALID; E_PERM].
Proof. reflexivity. Qed.

(* the writer side itself: InvalidData (snow refuses a chunk; unreachable by C02_write_frames),
   WriteZero (the carrier accepted zero bytes) *)
Lemma own_write_kinds : noise_write_kinds = [E_INVALID; E_WRITEZERO].
Proof. reflexivity. Qed.
