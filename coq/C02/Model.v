(* C02 — executable model of litep2p's Noise transport framing
   (src/crypto/noise/mod.rs: NoiseSocket::{poll_read, reset_read_state, poll_write, poll_flush}).
   Definitions only; proofs are in Proofs.v.

   Abstractions (all diffed by the correspondence harness, per poll):
   - Payload bytes are positions: a plaintext byte is its index in the byte stream accepted by the
     writer; a delivered chunk is (length, stream position of its first byte).  The harness fills
     the stream with a position-dependent pattern and reports a wrong position when the content of
     a delivered chunk is not the pattern at the expected place.
   - AEAD (snow ChaChaPoly with the implicit nonce counter) is abstract: the wire is a list of
     items (16-bit header value, number of body bytes, authenticity); `decrypt` of the slice
     [pos, pos+fs) with receive counter k succeeds iff the slice is exactly the body of an item
     whose body is the unmodified k-th ciphertext of the peer.  Its plaintext is then the k-th
     frame of the writer.
   - read_buffer[0 .. nread) is a contiguous window of the wire: its content is represented by the
     wire position of read_buffer[0] (`r_wbase`); reset_read_state's one-byte copy moves the
     window.  (Content equality of what is delivered is checked by the harness on real bytes.)
   - usize arithmetic is unbounded; slice-index panics are explicit (`RPanic`).
   - The carrier is a script, one entry per carrier call: 0 = Pending, 0 < n < SPECIAL = "at most n
     bytes", SPECIAL = the call returns Ok(0), SPECIAL + k = the call returns Err(kind k).  For reads
     the end of the script is EOF (Ok(0) for ever); for writes, flushes and closes it is "accept
     everything / Ready".  After the carrier's write half was closed, its poll_write returns
     BrokenPipe and its poll_flush / poll_close return Ready without consuming the script.
   - `r_lp` / `w_lp` record whether the last carrier call made during the most recent socket poll
     returned Pending (a carrier that returns Pending has registered the waker). *)
From Coq Require Import List NArith Bool.
From V.gen Require Import Consts.
Import ListNotations.
Open Scope N_scope.

Definition MSG : N := MAX_NOISE_MSG_LEN.            (* 65536 *)
Definition TAG : N := NOISE_EXTRA_ENCRYPT_SPACE.    (* 16 *)
(* snow::constants::MAXMSGLEN: TransportState::{write,read}_message refuse longer messages *)
Definition SNOW_MAX : N := 65535.

(* carrier script entries at or above SPECIAL are faults *)
Definition SPECIAL : N := 1099511627776.   (* 2^40 *)
(* io::ErrorKind as reported in traces (the table `KINDS` of harness/src/c02.rs, every stable
   variant of std::io::ErrorKind): 1 UnexpectedEof, 2 InvalidData, 3 PermissionDenied, 4 is not a
   kind (reserved: E_MODEL), 5 WriteZero, 6 ConnectionReset, 7 BrokenPipe, 8 TimedOut, 9 Other,
   10 NotFound, ... NKINDS OutOfMemory.  A carrier error passes through the socket unchanged:
   script entry SPECIAL + k makes the carrier call return Err(kind k) and the socket reports
   kind k — including the kinds the socket produces itself (a TLS carrier does return
   InvalidData).  Entries outside the table stand for Other. *)
Definition NKINDS : N := 40.
Definition ecode (k : N) : N :=
  if (1 <=? k) && (k <=? NKINDS) && negb (k =? 4) then k else 9.
Definition E_WRITEZERO : N := 5.
Definition E_BROKENPIPE : N := 7.

(* configuration: read-ahead factor, write-buffer size, maximum plaintext per frame *)
Record cfg := mkCfg { c_factor : N; c_wbuf : N; c_mfl : N }.

Definition cmax (c : cfg) : N := c_factor c * MSG.                 (* canonical_max_read *)
Definition rbuf_len (c : cfg) : N := c_factor c * MSG + (2 + MSG). (* read_buffer.len() *)
Definition ebuf_len (c : cfg) : N := c_wbuf c * (MSG + 2).         (* encrypt_buffer.len() *)

(* ------------------------------------------------------------------ the wire *)

(* one length-prefixed frame as it travels: header value, body bytes, and whether the body is
   the unmodified k-th ciphertext produced by the peer *)
Record item := mkItem { i_hdr : N; i_blen : N; i_auth : option N }.

Definition item_len (it : item) : N := 2 + i_blen it.

Fixpoint wire_len (l : list item) : N :=
  match l with [] => 0 | it :: t => item_len it + wire_len t end.

(* header value found at wire position pos (None: pos is not the start of an item) *)
Fixpoint hdr_at (l : list item) (pos : N) : option N :=
  match l with
  | [] => None
  | it :: t =>
      if pos =? 0 then Some (i_hdr it)
      else if pos <? item_len it then None
      else hdr_at t (pos - item_len it)
  end.

(* AEAD oracle: the fs bytes at wire position pos are exactly the body of an item holding the
   genuine ciphertext number ctr *)
Fixpoint body_ok (l : list item) (ctr pos fs : N) : bool :=
  match l with
  | [] => false
  | it :: t =>
      if pos =? 2 then
        (i_blen it =? fs) && match i_auth it with Some k => k =? ctr | None => false end
      else if pos <? item_len it then false
      else body_ok t ctr (pos - item_len it) fs
  end.

(* stream position of the first plaintext byte of frame k *)
Fixpoint pstart (plains : list N) (k : N) : N :=
  match plains with
  | [] => 0
  | x :: t => if k =? 0 then 0 else x + pstart t (k - 1)
  end.

(* the wire an honest writer produces for frames of the given plaintext lengths *)
Fixpoint honest_from (k : N) (plains : list N) : list item :=
  match plains with
  | [] => []
  | x :: t => mkItem (x + TAG) (x + TAG) (Some k) :: honest_from (k + 1) t
  end.
Definition honest (plains : list N) : list item := honest_from 0 plains.

(* ------------------------------------------------------------------ reader *)

Inductive rstate :=
| ReadData (max_read : N)
| ReadFrameLen
| ProcNone                          (* ProcessNextFrame { pending: None, .. } *)
| ProcPend (poff psize pfs : N)     (* ProcessNextFrame { pending: Some(_), offset, size, frame_size } *)
| Failed.                           (* a protocol error was reported; sticky *)

Record reader := mkR {
  r_state : rstate;
  r_nread : N;
  r_offset : N;
  r_cfs : option N;       (* current_frame_size *)
  r_wbase : N;            (* wire position of read_buffer[0] *)
  r_ctr : N;              (* receive nonce = number of frames decrypted so far *)
  r_pbase : N;            (* stream position of pending[0] *)
  r_lp : bool             (* the last carrier call of the current poll returned Pending *)
}.

Definition reader_init (c : cfg) : reader := mkR (ReadData (cmax c)) 0 0 None 0 0 0 false.

Inductive rres := RReady (n pos : N) | RPending | RErr (e : N) | RPanic.
Definition E_EOF : N := 1.       (* io::ErrorKind::UnexpectedEof *)
Definition E_INVALID : N := 2.   (* InvalidData *)
Definition E_PERM : N := 3.      (* PermissionDenied *)
Definition E_MODEL : N := 4.     (* the model cannot predict (misaligned read); proved unreachable *)

Record renv := mkEnv {
  e_cfg : cfg;
  e_items : list item;
  e_plains : list N;
  e_avail : N            (* bytes the carrier will ever deliver: min (wire length, truncation) *)
}.

Definition set_state (r : reader) (s : rstate) : reader :=
  mkR s (r_nread r) (r_offset r) (r_cfs r) (r_wbase r) (r_ctr r) (r_pbase r) (r_lp r).
Definition set_lp (r : reader) (b : bool) : reader :=
  mkR (r_state r) (r_nread r) (r_offset r) (r_cfs r) (r_wbase r) (r_ctr r) (r_pbase r) b.

(* reset_read_state(remaining), remaining < 2 *)
Definition reset_read (c : cfg) (r : reader) (remaining : N) : reader :=
  mkR (ReadData (cmax c)) remaining 0 (r_cfs r)
      (r_wbase r + r_nread r - remaining) (r_ctr r) (r_pbase r) (r_lp r).

(* one pass through the ReadFrameLen arm; Some res = poll_read returns *)
Definition step_len (e : renv) (r : reader) : reader * option rres :=
  let c := e_cfg e in
  if r_nread r <? r_offset r then (r, Some (RErr E_PERM))
  else
    let remaining := r_nread r - r_offset r in
    if remaining <? 2 then (reset_read c r remaining, None)
    else
      let '(ofs, off', rem') :=
        match r_cfs r with
        | Some fs => (Some fs, r_offset r, remaining)
        | None => (hdr_at (e_items e) (r_wbase r + r_offset r), r_offset r + 2, remaining - 2)
        end in
      match ofs with
      | None => (r, Some (RErr E_MODEL))
      | Some fs =>
          if rem' <? fs then
            if r_nread r + fs <? cmax c then
              (mkR (ReadData (cmax c)) (r_nread r) off' (Some fs) (r_wbase r) (r_ctr r) (r_pbase r) (r_lp r), None)
            else
              (mkR (ReadData (r_nread r + fs - rem')) (r_nread r) off' (Some fs)
                   (r_wbase r) (r_ctr r) (r_pbase r) (r_lp r), None)
          else if fs <=? TAG then
            (mkR Failed (r_nread r) off' None (r_wbase r) (r_ctr r) (r_pbase r) (r_lp r),
             Some (RErr E_INVALID))
          else
            (mkR ProcNone (r_nread r) off' (Some fs) (r_wbase r) (r_ctr r) (r_pbase r) (r_lp r), None)
      end.

(* the ProcessNextFrame arm: always returns *)
Definition proc (e : renv) (buflen : N) (r : reader) : reader * rres :=
  let c := e_cfg e in
  match r_state r with
  | ProcPend poff psize pfs =>
      if psize <? poff then (r, RPanic)                      (* pending[offset..size] *)
      else if psize - poff <=? buflen then
        (mkR ReadFrameLen (r_nread r) (r_offset r + pfs) (r_cfs r) (r_wbase r) (r_ctr r) (r_pbase r) (r_lp r),
         RReady (psize - poff) (r_pbase r + poff))
      else
        (mkR (ProcPend (poff + buflen) psize pfs) (r_nread r) (r_offset r) (r_cfs r)
             (r_wbase r) (r_ctr r) (r_pbase r) (r_lp r),
         RReady buflen (r_pbase r + poff))
  | ProcNone =>
      match r_cfs r with
      | None => (r, RPanic)                                   (* expect("`frame_size` to exist") *)
      | Some fs =>
          let r0 := mkR ProcNone (r_nread r) (r_offset r) None (r_wbase r) (r_ctr r) (r_pbase r) (r_lp r) in
          (* after a reported protocol error the socket stays failed *)
          let rf := mkR Failed (r_nread r) (r_offset r) None (r_wbase r) (r_ctr r) (r_pbase r) (r_lp r) in
          if fs <? TAG then (r0, RPanic)                      (* frame_size - 16 underflows *)
          else if rbuf_len c <? r_offset r + fs then (r0, RPanic)   (* read_buffer[offset..offset+fs] *)
          else if r_nread r <? r_offset r + fs then (r0, RErr E_MODEL) (* stale bytes: unpredictable *)
          else if SNOW_MAX <? fs then (rf, RErr E_INVALID)    (* snow: message too long *)
          else
            let ok := body_ok (e_items e) (r_ctr r) (r_wbase r + r_offset r) fs in
            let ps := pstart (e_plains e) (r_ctr r) in
            if fs - TAG <=? buflen then
              if ok then
                (mkR ReadFrameLen (r_nread r) (r_offset r + fs) None (r_wbase r) (r_ctr r + 1) (r_pbase r) (r_lp r),
                 RReady (fs - TAG) ps)
              else (rf, RErr E_INVALID)
            else if c_mfl c <? fs - TAG then (rf, RErr E_INVALID)  (* decrypt_buffer (MAX_FRAME_LEN) too small: snow refuses *)
            else
              if ok then
                (mkR (ProcPend buflen (fs - TAG) fs) (r_nread r) (r_offset r) None
                     (r_wbase r) (r_ctr r + 1) ps (r_lp r),
                 RReady buflen ps)
              else (rf, RErr E_INVALID)
      end
  | _ => (r, RErr E_MODEL)
  end.

(* poll_read(buf) with buf.len() = buflen against the carrier script sc.
   Structural on the script: every pass through the ReadData arm consumes one script entry. *)
Fixpoint poll_go (e : renv) (buflen : N) (sc : list N) (r : reader) : rres * reader * list N :=
  let '(r1, res) := match r_state r with
                    | ReadFrameLen => step_len e r
                    | _ => (r, None)
                    end in
  match res with
  | Some x => (x, r1, sc)
  | None =>
      match r_state r1 with
      | Failed => (RErr E_INVALID, r1, sc)
      | ReadData mr =>
          if (mr <? r_nread r1) || (rbuf_len (e_cfg e) <? mr) then (RPanic, r1, sc)
          else
            match sc with
            | [] => (RErr E_EOF, set_lp r1 false, [])
            | x :: t =>
                if x =? 0 then (RPending, set_lp r1 true, t)
                else if x =? SPECIAL then (RErr E_EOF, set_lp r1 false, t)
                else if SPECIAL <? x then (RErr (ecode (x - SPECIAL)), set_lp r1 false, t)
                else
                  let pulled := r_wbase r1 + r_nread r1 in
                  let k := N.min x (N.min (mr - r_nread r1) (e_avail e - pulled)) in
                  if k =? 0 then (RErr E_EOF, set_lp r1 false, t)
                  else poll_go e buflen t
                         (mkR ReadFrameLen (r_nread r1 + k) (r_offset r1) (r_cfs r1)
                              (r_wbase r1) (r_ctr r1) (r_pbase r1) false)
            end
      | ReadFrameLen => (RErr E_MODEL, r1, sc)
      | _ => let '(r2, x) := proc e buflen r1 in (x, r2, sc)
      end
  end.

Definition poll_read (e : renv) (buflen : N) (sc : list N) (r : reader) : rres * reader * list N :=
  poll_go e buflen sc (set_lp r false).

Definition is_final (x : rres) : bool :=
  match x with RPanic => true | _ => false end.

(* a sequence of poll_read calls with the given buffer sizes.  The socket is polled on after
   errors and EOF (callers do that); only a panic ends the run. *)
Fixpoint run_reader (e : renv) (bufs : list N) (sc : list N) (r : reader)
  : list (rres * reader) :=
  match bufs with
  | [] => []
  | b :: bt =>
      let '(x, r', sc') := poll_read e b sc r in
      (x, r') :: (if is_final x then [] else run_reader e bt sc' r')
  end.

(* ------------------------------------------------------------------ writer *)

Inductive wstate := WIdle | Writing (off elen : N).

Record writer := mkW {
  w_state : wstate;
  w_frames : list N;     (* plaintext lengths of all frames encrypted so far, oldest first *)
  w_sent : N;            (* bytes handed to the carrier so far *)
  w_cclosed : bool;      (* the carrier's poll_close has returned Ready(Ok) *)
  w_lp : bool            (* the last carrier call of the most recent poll returned Pending *)
}.
Definition writer_init : writer := mkW WIdle [] 0 false false.

Inductive wres := WReady (n : N) | WPending | WErr (e : N) | WPanic.

Inductive drain_res := DDone | DPend | DErr (e : N) | DPanic.

(* the loop `io.poll_write(&encrypt_buffer[offset..encrypted_len])` *)
Fixpoint drain (eb : N) (closed : bool) (sc : list N) (off elen sent : N)
  : drain_res * N * N * list N :=
  if (elen <? off) || (eb <? elen) then (DPanic, off, sent, sc)
  else if closed then (DErr E_BROKENPIPE, off, sent, sc)
  else
    match sc with
    | [] => (DDone, elen, sent + (elen - off), [])
    | x :: t =>
        if x =? 0 then (DPend, off, sent, t)
        else if x =? SPECIAL then (DErr E_WRITEZERO, off, sent, t)
        else if SPECIAL <? x then (DErr (ecode (x - SPECIAL)), off, sent, t)
        else
          let k := N.min x (elen - off) in
          if off + k =? elen then (DDone, elen, sent + k, t)
          else drain eb closed t (off + k) elen (sent + k)
    end.

(* the carrier's poll_flush / poll_close *)
Inductive cres := CReady | CPend | CErr (e : N).
Definition carrier_ctl (closed : bool) (sc : list N) : cres * list N :=
  if closed then (CReady, sc)
  else
    match sc with
    | [] => (CReady, [])
    | x :: t =>
        if x =? 0 then (CPend, t)
        else if SPECIAL <? x then (CErr (ecode (x - SPECIAL)), t)
        else (CReady, t)
    end.

(* `for chunk in buf.chunks(MAX_FRAME_LEN)`: Some (buffer_offset', total_plaintext, frames) or
   None when snow refuses the chunk (Err(InvalidData)) *)
Fixpoint pack (c : cfg) (fuel : nat) (rest bo : N) : option (N * N * list N) :=
  match fuel with
  | O => Some (bo, 0, [])
  | S f =>
      if rest =? 0 then Some (bo, 0, [])
      else
        let ch := N.min rest (c_mfl c) in
        if ebuf_len c <? bo + ch + (2 + TAG) then Some (bo, 0, [])
        else if SNOW_MAX <? ch + TAG then None
        else
          match pack c f (rest - ch) (bo + (ch + TAG) + 2) with
          | None => None
          | Some (bo', tot, fr) => Some (bo', ch + tot, ch :: fr)
          end
  end.

Definition chunk_count (c : cfg) (len : N) : nat := S (N.to_nat (len / N.max 1 (c_mfl c))).

(* "attempt to drain any pending data": the first step of poll_write and of poll_flush *)
Definition wpre (c : cfg) (sc : list N) (w : writer) : drain_res * wstate * N * list N :=
  match w_state w with
  | WIdle => (DDone, WIdle, w_sent w, sc)
  | Writing off elen =>
      match drain (ebuf_len c) (w_cclosed w) sc off elen (w_sent w) with
      | (DDone, _, s, sc') => (DDone, WIdle, s, sc')
      | (d, off', s, sc') => (d, Writing off' elen, s, sc')
      end
  end.

Definition poll_write (c : cfg) (len : N) (sc : list N) (w : writer) : wres * writer * list N :=
  let '(dres, st1, sent1, sc1) := wpre c sc w in
  let lp1 := match dres with DPend => true | _ => false end in
  let w1 := mkW st1 (w_frames w) sent1 (w_cclosed w) lp1 in
  match dres with
  | DPanic => (WPanic, w1, sc1)
  | DErr e => (WErr e, w1, sc1)
  | _ =>
      let bo := match st1 with WIdle => 0 | Writing _ elen => elen end in
      if len =? 0 then (WReady 0, w1, sc1)
      else if c_mfl c =? 0 then (WPanic, w1, sc1)             (* chunks(0) panics *)
      else
        match pack c (chunk_count c len) len bo with
        | None => (WErr E_INVALID, w1, sc1)
        | Some (bo', total, fr) =>
            if total =? 0 then (WPending, w1, sc1)
            else
              let off := match st1 with WIdle => 0 | Writing off _ => off end in
              (WReady total, mkW (Writing off bo') (w_frames w ++ fr) sent1 (w_cclosed w) lp1, sc1)
        end
  end.

(* the default AsyncWrite::poll_write_vectored: the first non-empty buffer, or an empty write *)
Fixpoint first_nonempty (lens : list N) : N :=
  match lens with [] => 0 | x :: t => if x =? 0 then first_nonempty t else x end.

Definition poll_flush (c : cfg) (sc : list N) (w : writer) : wres * writer * list N :=
  let '(dres, st1, sent1, sc1) := wpre c sc w in
  let mk := mkW st1 (w_frames w) sent1 (w_cclosed w) in
  match dres with
  | DPanic => (WPanic, mk false, sc1)
  | DErr e => (WErr e, mk false, sc1)
  | DPend => (WPending, mk true, sc1)
  | DDone =>
      (* Flush underlying socket *)
      match carrier_ctl (w_cclosed w) sc1 with
      | (CReady, sc2) => (WReady 0, mk false, sc2)
      | (CPend, sc2) => (WPending, mk true, sc2)
      | (CErr e, sc2) => (WErr e, mk false, sc2)
      end
  end.

(* poll_close: `ready!(poll_flush)?` then the carrier's poll_close *)
Definition poll_close (c : cfg) (sc : list N) (w : writer) : wres * writer * list N :=
  let '(x, w1, sc1) := poll_flush c sc w in
  match x with
  | WReady _ =>
      let mk := mkW (w_state w1) (w_frames w1) (w_sent w1) in
      match carrier_ctl (w_cclosed w1) sc1 with
      | (CReady, sc2) => (WReady 0, mk true false, sc2)
      | (CPend, sc2) => (WPending, mk (w_cclosed w1) true, sc2)
      | (CErr e, sc2) => (WErr e, mk (w_cclosed w1) false, sc2)
      end
  | _ => (x, w1, sc1)
  end.

Inductive wop := OWrite (len : N) | OFlush | OClose | OWriteV (lens : list N).

Definition wstep (c : cfg) (o : wop) (sc : list N) (w : writer) : wres * writer * list N :=
  match o with
  | OWrite len => poll_write c len sc w
  | OFlush => poll_flush c sc w
  | OClose => poll_close c sc w
  | OWriteV lens => poll_write c (first_nonempty lens) sc w
  end.

Definition w_is_final (x : wres) : bool :=
  match x with WPanic => true | _ => false end.

(* a sequence of writer calls; the socket is used on after errors, only a panic ends the run *)
Fixpoint run_writer (c : cfg) (ops : list wop) (sc : list N) (w : writer)
  : list (wres * writer) * writer * bool :=
  match ops with
  | [] => ([], w, true)
  | o :: t =>
      let '(x, w', sc') := wstep c o sc w in
      if w_is_final x then ([(x, w')], w', false)
      else let '(l, wf, ok) := run_writer c t sc' w' in ((x, w') :: l, wf, ok)
  end.

Definition is_write (o : wop) : bool :=
  match o with OWrite _ | OWriteV _ => true | _ => false end.

(* plaintext bytes accepted by a run = sum of the Ready counts of the write calls *)
Fixpoint accepted (ops : list wop) (tr : list (wres * writer)) : N :=
  match ops, tr with
  | o :: ot, (WReady n, _) :: tl => (if is_write o then n else 0) + accepted ot tl
  | _ :: ot, _ :: tl => accepted ot tl
  | _, _ => 0
  end.

Fixpoint sum (l : list N) : N := match l with [] => 0 | x :: t => x + sum t end.

(* wire bytes of a list of frames: 2-byte header + ciphertext (plaintext + tag) each *)
Fixpoint frames_wire (l : list N) : N :=
  match l with [] => 0 | x :: t => (2 + (x + TAG)) + frames_wire t end.

(* the frames that are completely with the carrier when `sent` bytes were handed over *)
Fixpoint sent_frames (l : list N) (sent : N) : list N :=
  match l with
  | [] => []
  | x :: t =>
      let wl := 2 + (x + TAG) in
      if wl <=? sent then x :: sent_frames t (sent - wl) else []
  end.

(* ------------------------------------------------------------------ tampering in transit *)

Inductive tamper :=
| TNone
| TFlip (i j mask : N)     (* xor byte j (0,1 = header; >= 2 = body) of item i with mask *)
| TDrop (i : N)
| TDup (i : N)             (* item i is delivered twice in a row (replay) *)
| TSwap (i : N)            (* items i and i+1 exchanged *)
| TTrunc (pos : N)         (* the carrier ends after pos bytes *)
| TMove (i j : N)          (* item i taken out and re-inserted before position j of the rest (reorder) *)
| TCopy (i j : N)          (* a copy of item i inserted before position j (replay at a distance) *)
| TForge (i h bl : N)      (* a forged item (header h mod 2^16, bl body bytes) inserted before position i *)
| TGrow (i : N)            (* one byte inserted into the body of item i (the header is left alone) *)
| TShrink (i : N)          (* one byte removed from the body of item i *)
| TForeign (i : N).        (* the body of item i replaced by a same-length ciphertext of another
                              session made with the same nonce *)

Fixpoint map_nth {A} (f : A -> list A) (i : nat) (l : list A) : list A :=
  match l, i with
  | [], _ => []
  | x :: t, O => f x ++ t
  | x :: t, S j => x :: map_nth f j t
  end.

Definition flip_item (j mask : N) (it : item) : item :=
  let m := mask mod 256 in
  if m =? 0 then it
  else if j =? 0 then mkItem (N.lxor (i_hdr it) (m * 256)) (i_blen it) (i_auth it)
  else if j =? 1 then mkItem (N.lxor (i_hdr it) m) (i_blen it) (i_auth it)
  else if j <? item_len it then mkItem (i_hdr it) (i_blen it) None
  else it.

Fixpoint swap_at (i : nat) (l : list item) : list item :=
  match l, i with
  | a :: b :: t, O => b :: a :: t
  | x :: t, S j => x :: swap_at j t
  | _, _ => l
  end.

Fixpoint insert_at {A} (i : nat) (x : A) (l : list A) : list A :=
  match i, l with
  | O, _ => x :: l
  | S j, [] => [x]
  | S j, h :: t => h :: insert_at j x t
  end.

Fixpoint remove_at {A} (i : nat) (l : list A) : list A :=
  match l, i with
  | [], _ => []
  | _ :: t, O => t
  | h :: t, S j => h :: remove_at j t
  end.

Definition shrink_item (it : item) : item :=
  if i_blen it =? 0 then it else mkItem (i_hdr it) (i_blen it - 1) None.

Definition apply_tamper (t : tamper) (l : list item) : list item :=
  match t with
  | TNone | TTrunc _ => l
  | TFlip i j mask => map_nth (fun it => [flip_item j mask it]) (N.to_nat i) l
  | TDrop i => map_nth (fun _ => []) (N.to_nat i) l
  | TDup i => map_nth (fun it => [it; it]) (N.to_nat i) l
  | TSwap i => swap_at (N.to_nat i) l
  | TMove i j =>
      match nth_error l (N.to_nat i) with
      | Some it => insert_at (N.to_nat j) it (remove_at (N.to_nat i) l)
      | None => l
      end
  | TCopy i j =>
      match nth_error l (N.to_nat i) with
      | Some it => insert_at (N.to_nat j) it l
      | None => l
      end
  | TForge i h bl => insert_at (N.to_nat i) (mkItem (h mod 65536) bl None) l
  | TGrow i => map_nth (fun it => [mkItem (i_hdr it) (i_blen it + 1) None]) (N.to_nat i) l
  | TShrink i => map_nth (fun it => [shrink_item it]) (N.to_nat i) l
  | TForeign i => map_nth (fun it => [mkItem (i_hdr it) (i_blen it) None]) (N.to_nat i) l
  end.

(* several manipulations, one after the other *)
Definition apply_tampers (ts : list tamper) (l : list item) : list item :=
  fold_left (fun acc t => apply_tamper t acc) ts l.

(* the earliest cut of the carrier among the manipulations *)
Fixpoint trunc_of (ts : list tamper) : option N :=
  match ts with
  | [] => None
  | TTrunc pos :: t => Some (match trunc_of t with Some q => N.min pos q | None => pos end)
  | _ :: t => trunc_of t
  end.

Definition tampers_avail (ts : list tamper) (l : list item) : N :=
  let l' := apply_tampers ts l in
  match trunc_of ts with Some pos => N.min pos (wire_len l') | None => wire_len l' end.

(* reader environment of an end-to-end run: the writer's frames, tampered in transit *)
Definition env_of (c : cfg) (plains : list N) (ts : list tamper) : renv :=
  mkEnv c (apply_tampers ts (honest plains)) plains (tampers_avail ts (honest plains)).

(* plaintext an honest reader may deliver from a wire: the frames of the longest prefix of items
   that are, in order, the unmodified ciphertexts k, k+1, .. with a truthful header, and that the
   carrier delivers completely *)
Fixpoint clean_prefix (items : list item) (plains : list N) (k avail : N) : N :=
  match items, plains with
  | it :: t, p :: pt =>
      if (i_hdr it =? i_blen it) && (i_blen it =? p + TAG)
         && match i_auth it with Some j => j =? k | None => false end
         && (item_len it <=? avail)
      then p + clean_prefix t pt (k + 1) (avail - item_len it)
      else 0
  | _, _ => 0
  end.

(* ------------------------------------------------------------------ one socket, both halves *)

(* A NoiseSocket is a reader and a writer that share the carrier and the Noise context (two
   independent cipher states).  Calls on the two halves may alternate in any order. *)
Inductive sop := SR (b : N) | SW (o : wop).
Inductive srec := QR (x : rres) (r : reader) | QW (x : wres) (w : writer).

Fixpoint run_mixed (c : cfg) (e : renv) (ops : list sop) (rsc wsc : list N) (r : reader) (w : writer)
  : list srec * reader * writer * bool :=
  match ops with
  | [] => ([], r, w, true)
  | SR b :: t =>
      let '(x, r', rsc') := poll_read e b rsc r in
      if is_final x then ([QR x r'], r', w, false)
      else let '(l, rf, wf, ok) := run_mixed c e t rsc' wsc r' w in (QR x r' :: l, rf, wf, ok)
  | SW o :: t =>
      let '(x, w', wsc') := wstep c o wsc w in
      if w_is_final x then ([QW x w'], r, w', false)
      else let '(l, rf, wf, ok) := run_mixed c e t rsc wsc' r w' in (QW x w' :: l, rf, wf, ok)
  end.

Definition reads_of (ops : list sop) : list N :=
  flat_map (fun o => match o with SR b => [b] | SW _ => [] end) ops.
Definition wops_of (ops : list sop) : list wop :=
  flat_map (fun o => match o with SW o => [o] | SR _ => [] end) ops.
Definition rrecs_of (l : list srec) : list (rres * reader) :=
  flat_map (fun q => match q with QR x r => [(x, r)] | QW _ _ => [] end) l.
Definition wrecs_of (l : list srec) : list (wres * writer) :=
  flat_map (fun q => match q with QW x w => [(x, w)] | QR _ _ => [] end) l.

(* ------------------------------------------------------------------ a connection: two directions, rounds *)

(* one direction of a connection: the writer half of one socket, the reader half of the other,
   and what the network has delivered so far *)
Record flow := mkFlow {
  f_w : writer;
  f_r : reader;
  f_items : list item;    (* the wire delivered to the reader's carrier so far (as tampered) *)
  f_plains : list N;      (* the writer's frames that reached the carrier completely *)
  f_avail : N;
  f_cut : bool;           (* the carrier was cut: it never delivers more *)
  f_D : N                 (* plaintext bytes delivered so far (ghost) *)
}.

Definition flow_init (c : cfg) : flow := mkFlow writer_init (reader_init c) [] [] 0 false 0.
Definition flow_env (c : cfg) (f : flow) : renv := mkEnv c (f_items f) (f_plains f) (f_avail f).

Definition nlen {A} (l : list A) : N := N.of_nat (length l).

(* the network takes the frames that have reached the carrier completely since the last
   delivery, manipulates them, and puts them behind what the reader's carrier already holds *)
Definition deliver (ts : list tamper) (f : flow) : flow * list N :=
  let all := sent_frames (w_frames (f_w f)) (w_sent (f_w f)) in
  let new := skipn (length (f_plains f)) all in
  let plains' := f_plains f ++ new in
  if f_cut f then (mkFlow (f_w f) (f_r f) (f_items f) plains' (f_avail f) true (f_D f), new)
  else
    let ti := apply_tampers ts (honest_from (nlen (f_plains f)) new) in
    let base := wire_len (f_items f) in
    match trunc_of ts with
    | Some pos =>
        (mkFlow (f_w f) (f_r f) (f_items f ++ ti) plains' (base + N.min pos (wire_len ti)) true (f_D f), new)
    | None =>
        (mkFlow (f_w f) (f_r f) (f_items f ++ ti) plains' (base + wire_len ti) false (f_D f), new)
    end.

Fixpoint mdelivered (l : list srec) : N :=
  match l with
  | [] => 0
  | QR (RReady n _) _ :: t => n + mdelivered t
  | _ :: t => mdelivered t
  end.

(* a round: side d writes (d = false: the dialer); the network delivers; the other side reads,
   and may use its own writer half in between (those frames travel in a later round) *)
Record round := mkRound {
  rd_dir : bool;
  rd_wops : list wop; rd_wsc : list N;
  rd_tampers : list tamper;
  rd_sched : list sop; rd_rsc : list N; rd_xsc : list N
}.

Record rtrace := mkRT {
  rt_wrecs : list (wres * writer);
  rt_ok : bool;                          (* no writer call panicked *)
  rt_flush : wres * writer;              (* the final flush against an all-accepting carrier *)
  rt_new : list N;                       (* plaintext lengths of the frames delivered in this round *)
  rt_avail : N;
  rt_mixed : list srec;
  rt_ok2 : bool
}.

Definition set_w (f : flow) (w : writer) : flow :=
  mkFlow w (f_r f) (f_items f) (f_plains f) (f_avail f) (f_cut f) (f_D f).
Definition set_r (f : flow) (r : reader) (D : N) : flow :=
  mkFlow (f_w f) r (f_items f) (f_plains f) (f_avail f) (f_cut f) D.

(* F: the flow of the round's direction, G: the opposite flow (only its writer is used) *)
Definition run_round (c : cfg) (rd : round) (F G : flow) : rtrace * flow * flow * bool :=
  let '(wtr, w1, ok) := run_writer c (rd_wops rd) (rd_wsc rd) (f_w F) in
  if negb ok then (mkRT wtr false (WPanic, w1) [] 0 [] false, set_w F w1, G, false)
  else
    let '(fx, fw, _) := poll_flush c [] w1 in
    if w_is_final fx then (mkRT wtr true (fx, fw) [] 0 [] false, set_w F fw, G, false)
    else
      let '(F2, new) := deliver (rd_tampers rd) (set_w F fw) in
      let '(recs, r', wg, ok2) :=
        run_mixed c (flow_env c F2) (rd_sched rd) (rd_rsc rd) (rd_xsc rd) (f_r F2) (f_w G) in
      (mkRT wtr true (fx, fw) new (f_avail F2) recs ok2,
       set_r F2 r' (f_D F2 + mdelivered recs), set_w G wg, ok2).

(* state: (flow 0 = dialer writes, flow 1 = listener writes) *)
Fixpoint run_rounds (c : cfg) (rds : list round) (F0 F1 : flow) : list rtrace * flow * flow * bool :=
  match rds with
  | [] => ([], F0, F1, true)
  | rd :: t =>
      if rd_dir rd then
        let '(tr, F1', F0', ok) := run_round c rd F1 F0 in
        if ok then let '(l, A, B, ok') := run_rounds c t F0' F1' in (tr :: l, A, B, ok')
        else ([tr], F0', F1', false)
      else
        let '(tr, F0', F1', ok) := run_round c rd F0 F1 in
        if ok then let '(l, A, B, ok') := run_rounds c t F0' F1' in (tr :: l, A, B, ok')
        else ([tr], F0', F1', false)
  end.
