From Coq Require Import ExtrOcamlBasic.
From V.C01 Require Import Glue.
Extraction "c01_model.ml" run_case prop_ok known_class.
