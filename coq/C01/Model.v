(* C01 — executable model of the identity check of litep2p's Noise handshake.  Definitions only.

   Two layers.

   (a) DECISION LAYER (faithful, byte level).  What `crypto::noise::handshake` does with the
   decrypted identity payload and the remote static Diffie-Hellman key, and what
   `TcpConnection::negotiate_connection` (and its WebSocket twin, which is the same three lines)
   does with the result:

     handshake_schema::NoiseHandshakePayload::decode(bytes)            decode_payload
     parse_and_verify_peer_id(payload, remote_static)                  verify_identity
        payload.identity_key            -> PeerIdMissing
        RemotePublicKey::from_protobuf_encoding(key)                   decode_pubkey
             keys_proto::PublicKey::decode   (ProstDecodeError)        decode_keymsg
             KeyType::try_from(type) / match (UnknownKeyType)
             ed25519::PublicKey::try_from_bytes (InvalidPublicKey)     32 bytes + on_curve
        payload.identity_sig            -> BadSignature
        remote_public_key.to_peer_id()                                 peer_id_of_key (C18 model)
        verify(STATIC_KEY_DOMAIN ++ remote_static, sig) -> BadSignature
     if let Some(dialed) = dialed_peer { dialed != peer -> PeerIdMismatch }   check_dialed

   The protobuf wire decoder is prost 0.13.5 as read from its source (encoding.rs, varint.rs) for
   exactly the two schemas noise.proto/NoiseHandshakePayload and keys.proto/PublicKey: LEB128
   varints of at most 10 bytes whose 10th byte is < 2 (non-minimal encodings accepted), keys
   <= u32::MAX with wire types 0-5 and tag >= 1, last-one-wins optional fields, unknown fields of
   every wire type skipped (groups recursively, recursion limit 100), the nested NoiseExtensions
   message validated (repeated bytes, repeated string with UTF-8 check).  All decoder errors are
   one class (ProstDecodeError), hence `option`.

   Signature verification and the curve-point check are Section variables (`verify`, `on_curve`);
   in runs the harness supplies real ed25519 results as oracle tables inside the case.

   (b) TRANSCRIPT LAYER (idealised, symbolic).  The three messages of Noise XX
        -> e            <- e, ee, s, es           -> s, se
   between a dialer and a listener with an active attacker choosing what is delivered.
   Ciphertexts are terms `Ct key hash plaintext`; decryption succeeds iff key and handshake hash
   agree (AEAD with the hash as associated data); the handshake hash is an abstract function `H`
   of everything mixed so far.  This layer states the assumption made on the `snow` crate; its
   faithfulness is only tested.

   Bytes are N below 256, byte strings are `list N`. *)
From Coq Require Import List NArith Bool Arith.
From V.gen Require Consts.
From V.common Require Import Varint.
Require V.C18.Model.

Import ListNotations.
Open Scope N_scope.

Definition bytes := list N.
Definition len (l : bytes) : N := N.of_nat (length l).

Fixpoint beq (a b : bytes) : bool :=
  match a, b with
  | [], [] => true
  | x :: a', y :: b' => (x =? y) && beq a' b'
  | _, _ => false
  end.

(* big-endian bytes of a number (how gen_consts.py transports a string constant) *)
Fixpoint be_bytes (n : nat) (v : N) (acc : bytes) : bytes :=
  match n with O => acc | S m => be_bytes m (v / 256) (v mod 256 :: acc) end.

(* STATIC_KEY_DOMAIN = "noise-libp2p-static-key:" *)
Definition DOMAIN : bytes :=
  be_bytes (N.to_nat Consts.C01_STATIC_KEY_DOMAIN_LEN) Consts.C01_STATIC_KEY_DOMAIN_BE [].

(* P2P_SIGNING_PREFIX = "libp2p-tls-handshake:" (crypto/tls/certificate.rs) and the prefix of the
   WebRTC Noise prologue "libp2p-webrtc-noise:" (transport/webrtc/opening.rs) *)
Definition TLS_PREFIX : bytes :=
  be_bytes (N.to_nat Consts.C01_TLS_SIGNING_PREFIX_LEN) Consts.C01_TLS_SIGNING_PREFIX_BE [].
Definition WEBRTC_PREFIX : bytes :=
  be_bytes (N.to_nat Consts.C01_WEBRTC_PROLOGUE_PREFIX_LEN) Consts.C01_WEBRTC_PROLOGUE_PREFIX_BE [].
(* noise_prologue(local, remote) = PREFIX ++ remote ++ local *)
Definition webrtc_prologue (local remote : bytes) : bytes := WEBRTC_PREFIX ++ remote ++ local.

(* ------------------------------------------------------------------ prost 0.13.5 *)

(* prost::RECURSION_LIMIT (lib.rs); a dependency's constant, written here *)
Definition RECURSION_LIMIT : nat := 100.

(* encoding::varint::decode_varint (decode_varint_slice and decode_varint_slow agree): the bytes
   up to the first one below 0x80, at most 10; a 10th byte >= 2 is "invalid varint" *)
Definition pvarint (l : bytes) : option (N * bytes) :=
  match take_varint 10 l with
  | Some (pre, rest) =>
      if Nat.eqb (length pre) 10 && (2 <=? last pre 0) then None else Some (value pre, rest)
  | None => None
  end.

(* encoding::decode_key: (tag, wire type) *)
Definition pkey (l : bytes) : option (N * N * bytes) :=
  match pvarint l with
  | Some (k, r) =>
      if 4294967295 <? k then None
      else if 5 <? k mod 8 then None
      else if k / 8 =? 0 then None
      else Some (k / 8, k mod 8, r)
  | None => None
  end.

(* a length-delimited value: varint n, then n bytes ("buffer underflow" otherwise) *)
Definition pchunk (l : bytes) : option (bytes * bytes) :=
  match pvarint l with
  | Some (n, r) =>
      if len r <? n then None else Some (firstn (N.to_nat n) r, skipn (N.to_nat n) r)
  | None => None
  end.

Definition padvance (n : nat) (l : bytes) : option bytes :=
  if (length l <? n)%nat then None else Some (skipn n l).

(* encoding::skip_field.  `depth` is DecodeContext.recurse_count; `fuel` only makes the
   recursion structural (every call is preceded by a key of at least one byte). *)
Fixpoint skip (fuel depth : nat) (wt tag : N) (l : bytes) : option bytes :=
  match fuel with
  | O => None
  | S f =>
      match depth with
      | O => None                                   (* ctx.limit_reached() *)
      | S d =>
          match wt with
          | 0 => match pvarint l with Some (_, r) => Some r | None => None end
          | 1 => padvance 8 l
          | 2 => match pchunk l with Some (_, r) => Some r | None => None end
          | 3 => skip_group f d tag l
          | 5 => padvance 4 l
          | _ => None                               (* EndGroup: "unexpected end group tag" *)
          end
      end
  end
with skip_group (fuel d : nat) (tag : N) (l : bytes) : option bytes :=
  match fuel with
  | O => None
  | S f =>
      match pkey l with
      | None => None
      | Some (itag, iwt, r) =>
          if iwt =? 4 then (if itag =? tag then Some r else None)
          else match skip f d iwt itag r with
               | Some r' => skip_group f d tag r'
               | None => None
               end
      end
  end.

(* core::str::from_utf8 *)
Definition cont (b : N) : bool := (128 <=? b) && (b <=? 191).
Fixpoint utf8_valid (l : bytes) : bool :=
  match l with
  | [] => true
  | b :: t =>
      if b <? 128 then utf8_valid t
      else if (194 <=? b) && (b <=? 223) then
        match t with c1 :: t1 => cont c1 && utf8_valid t1 | _ => false end
      else if (224 <=? b) && (b <=? 239) then
        match t with
        | c1 :: c2 :: t2 =>
            (if b =? 224 then (160 <=? c1) && (c1 <=? 191)
             else if b =? 237 then (128 <=? c1) && (c1 <=? 159)
             else cont c1) && cont c2 && utf8_valid t2
        | _ => false
        end
      else if (240 <=? b) && (b <=? 244) then
        match t with
        | c1 :: c2 :: c3 :: t3 =>
            (if b =? 240 then (144 <=? c1) && (c1 <=? 191)
             else if b =? 244 then (128 <=? c1) && (c1 <=? 143)
             else cont c1) && cont c2 && cont c3 && utf8_valid t3
        | _ => false
        end
      else false
  end.

(* the body of a NoiseExtensions message (field 4 of the payload; its content is not used by
   litep2p, but an invalid one fails the whole decode): 1 = repeated bytes, 2 = repeated string.
   prost parses it in place with a limit and reports "delimited length exceeded" when a field
   runs over the limit; parsing the delimited slice on its own, as here, fails in exactly the
   same cases (a field that would run over hits the end of the slice instead). The recursion
   context of the nested message is one below the caller's. *)
Fixpoint ext_ok (fuel sfuel : nat) (l : bytes) : bool :=
  match l with
  | [] => true
  | _ =>
      match fuel with
      | O => false
      | S f =>
          match pkey l with
          | None => false
          | Some (tag, wt, r) =>
              if tag =? 1 then
                if wt =? 2 then
                  match pchunk r with Some (_, r') => ext_ok f sfuel r' | None => false end
                else false
              else if tag =? 2 then
                if wt =? 2 then
                  match pchunk r with
                  | Some (s, r') => utf8_valid s && ext_ok f sfuel r'
                  | None => false
                  end
                else false
              else
                match skip sfuel (RECURSION_LIMIT - 1) wt tag r with
                | Some r' => ext_ok f sfuel r'
                | None => false
                end
          end
      end
  end.

(* NoiseHandshakePayload *)
Record payload := mkPayload { p_key : option bytes; p_sig : option bytes }.

Fixpoint dec_payload (fuel sfuel : nat) (acc : payload) (l : bytes) : option payload :=
  match l with
  | [] => Some acc
  | _ =>
      match fuel with
      | O => None
      | S f =>
          match pkey l with
          | None => None
          | Some (tag, wt, r) =>
              if tag =? 1 then
                if wt =? 2 then
                  match pchunk r with
                  | Some (b, r') => dec_payload f sfuel (mkPayload (Some b) (p_sig acc)) r'
                  | None => None
                  end
                else None
              else if tag =? 2 then
                if wt =? 2 then
                  match pchunk r with
                  | Some (b, r') => dec_payload f sfuel (mkPayload (p_key acc) (Some b)) r'
                  | None => None
                  end
                else None
              else if tag =? 4 then
                if wt =? 2 then
                  match pchunk r with
                  | Some (b, r') => if ext_ok sfuel sfuel b then dec_payload f sfuel acc r' else None
                  | None => None
                  end
                else None
              else
                match skip sfuel RECURSION_LIMIT wt tag r with
                | Some r' => dec_payload f sfuel acc r'
                | None => None
                end
          end
      end
  end.

Definition fuel_for (l : bytes) : nat := 2 * length l + 2.

Definition decode_payload (l : bytes) : option payload :=
  dec_payload (fuel_for l) (fuel_for l) (mkPayload None None) l.

(* keys_proto::PublicKey: `required KeyType Type = 1; required bytes Data = 2;` — prost keeps
   plain fields with defaults 0 / empty and does not enforce `required`; the enum is an int32:
   `decode_varint(buf)? as i32`, i.e. the low 32 bits *)
Record keymsg := mkKeyMsg { k_type : N; k_data : bytes }.

Fixpoint dec_keymsg (fuel sfuel : nat) (acc : keymsg) (l : bytes) : option keymsg :=
  match l with
  | [] => Some acc
  | _ =>
      match fuel with
      | O => None
      | S f =>
          match pkey l with
          | None => None
          | Some (tag, wt, r) =>
              if tag =? 1 then
                if wt =? 0 then
                  match pvarint r with
                  | Some (v, r') => dec_keymsg f sfuel (mkKeyMsg (v mod 4294967296) (k_data acc)) r'
                  | None => None
                  end
                else None
              else if tag =? 2 then
                if wt =? 2 then
                  match pchunk r with
                  | Some (b, r') => dec_keymsg f sfuel (mkKeyMsg (k_type acc) b) r'
                  | None => None
                  end
                else None
              else
                match skip sfuel RECURSION_LIMIT wt tag r with
                | Some r' => dec_keymsg f sfuel acc r'
                | None => None
                end
          end
      end
  end.

Definition decode_keymsg (l : bytes) : option keymsg :=
  dec_keymsg (fuel_for l) (fuel_for l) (mkKeyMsg 0 []) l.

(* the canonical encodings produced by litep2p itself (NoiseContext::assemble,
   PublicKey::to_protobuf_encoding); lengths below 128 *)
Definition encode_payload (key sig : bytes) : bytes :=
  [10; len key] ++ key ++ [18; len sig] ++ sig.

(* ------------------------------------------------------------------ decision layer *)

Notation pid := V.C18.Model.pid.

Definition pid_eqb (a b : pid) : bool :=
  (V.C18.Model.code a =? V.C18.Model.code b) && beq (V.C18.Model.digest a) (V.C18.Model.digest b).

(* RemotePublicKey::to_peer_id for an Ed25519 key: PeerId::from_public_key of the re-encoded
   key, an identity multihash because the encoding has 36 <= 42 bytes (the SHA-256 argument of
   the C18 model is therefore irrelevant) *)
Definition peer_id_of_key (k : bytes) : pid := V.C18.Model.of_ed25519 [] k.

Inductive err :=
| EPayload        (* ParseError(ProstDecodeError) from the payload *)
| EKeyMissing     (* PeerIdMissing *)
| EKeyProto       (* ParseError(ProstDecodeError) from the key blob *)
| EKeyType        (* ParseError(UnknownKeyType) *)
| EKeyInvalid     (* ParseError(InvalidPublicKey) *)
| ESigMissing     (* BadSignature *)
| ESigBad         (* BadSignature *)
| EMismatch       (* PeerIdMismatch; TLS: "Wrong peer ID in p2p extension" *)
| ETlsNoExt       (* TLS: webpki BadDer (no libp2p extension, or more than one) *)
| ETlsExtValue    (* TLS: webpki ExtensionValueInvalid (SignedKey does not decode) *)
| ETlsIssuer      (* TLS: webpki UnknownIssuer (key blob refused, or signature does not verify) *)
| ETlsCritical.   (* TLS: webpki UnsupportedCriticalExtension (a critical extension other than libp2p's) *)

Inductive result := Accept (p : pid) | Reject (e : err).
Inductive keyres := KeyOk (k : bytes) | KeyErr (e : err).

Section Decision.
  Variable on_curve : bytes -> bool.              (* VerifyingKey::from_bytes succeeds *)
  Variable verify : bytes -> bytes -> bytes -> bool.   (* ed25519: verify pk msg sig *)

  (* RemotePublicKey::from_protobuf_encoding (cargo feature `rsa` off) *)
  Definition decode_pubkey (kb : bytes) : keyres :=
    match decode_keymsg kb with
    | None => KeyErr EKeyProto
    | Some m =>
        if k_type m =? 1 then
          if (len (k_data m) =? 32) && on_curve (k_data m) then KeyOk (k_data m)
          else KeyErr EKeyInvalid
        else KeyErr EKeyType
    end.

  (* parse_and_verify_peer_id on an already decoded payload *)
  Definition verify_payload (p : payload) (rs : bytes) : result :=
    match p_key p with
    | None => Reject EKeyMissing
    | Some kb =>
        match decode_pubkey kb with
        | KeyErr e => Reject e
        | KeyOk k =>
            match p_sig p with
            | None => Reject ESigMissing
            | Some sg =>
                if verify k (DOMAIN ++ rs) sg then Accept (peer_id_of_key k) else Reject ESigBad
            end
        end
    end.

  (* what handshake() returns for the decrypted payload bytes and the remote static key *)
  Definition verify_identity (pb rs : bytes) : result :=
    match decode_payload pb with
    | None => Reject EPayload
    | Some p => verify_payload p rs
    end.

  (* negotiate_connection's comparison with the dialed peer *)
  Definition check_dialed (dialed : option pid) (r : result) : result :=
    match r, dialed with
    | Accept p, Some q => if pid_eqb q p then Accept p else Reject EMismatch
    | _, _ => r
    end.

  Definition accept (pb rs : bytes) (dialed : option pid) : result :=
    check_dialed dialed (verify_identity pb rs).

  (* -------------------------------------------------------------- the TLS caller (QUIC) *)
  (* crypto/tls/certificate.rs::parse after the X.509 layer (x509-parser, validity period,
     self-signature by ring — all trusted).  `parse_unverified` walks the certificate's extensions
     in order:
        the libp2p OID seen a second time                 -> BadDer, at once
        the libp2p OID: SignedKey ::= SEQUENCE { OCTET STRING, OCTET STRING } (yasna) does not
                        decode                            -> ExtensionValueInvalid
                        RemotePublicKey::from_protobuf_encoding refuses the key -> UnknownIssuer
        any other OID marked critical                     -> UnsupportedCriticalExtension
        any other OID, not critical                       -> ignored
     and at the end no libp2p extension -> BadDer.  `verify` then checks the signature of the
     admitted key over P2P_SIGNING_PREFIX ++ the certificate's SubjectPublicKeyInfo (UnknownIssuer
     otherwise); crypto/tls/verifier.rs compares the id with the dialed peer (verify_server_cert;
     verify_client_cert has no expectation).  The same key admission and id derivation as Noise. *)
  Inductive xext :=
  | XP2p (content : option (bytes * bytes))   (* the libp2p OID; None: the content is not a SignedKey *)
  | XOther (critical : bool).                  (* any other OID *)

  Inductive scan := ScanErr (e : err) | ScanOk (found : option (bytes * bytes)).

  (* an extension the verifier skips: another OID, not marked critical *)
  Definition ignorable (x : xext) : Prop := x = XOther false.

  (* the loop of parse_unverified; `found` = (admitted key, signature) of the extension seen so far *)
  Fixpoint tls_scan (found : option (bytes * bytes)) (l : list xext) : scan :=
    match l with
    | [] => ScanOk found
    | XP2p c :: r =>
        match found with
        | Some _ => ScanErr ETlsNoExt
        | None =>
            match c with
            | None => ScanErr ETlsExtValue
            | Some (kb, sg) =>
                match decode_pubkey kb with
                | KeyErr _ => ScanErr ETlsIssuer
                | KeyOk k => tls_scan (Some (k, sg)) r
                end
            end
        end
    | XOther true :: _ => ScanErr ETlsCritical
    | XOther false :: r => tls_scan found r
    end.

  Definition tls_verify (l : list xext) (spki : bytes) : result :=
    match tls_scan None l with
    | ScanErr e => Reject e
    | ScanOk None => Reject ETlsNoExt
    | ScanOk (Some (k, sg)) =>
        if verify k (TLS_PREFIX ++ spki) sg then Accept (peer_id_of_key k) else Reject ETlsIssuer
    end.

  Definition tls_accept (l : list xext) (spki : bytes) (expected : option pid) : result :=
    check_dialed expected (tls_verify l spki).

  (* -------------------------------------------------------------- every caller, and the manager *)
  (* Who compares the authenticated id with the peer that was dialed?
       TCP        TcpTransport::dial/open take the expectation from the /p2p part of the address
                  (Option: TcpAddress::multiaddr_to_socket_address), negotiate_connection compares;
       WebSocket  dial/open refuse an address without /p2p (multiaddr_into_url: PeerIdMissing),
                  negotiate_connection always gets Some(dialed_peer) and compares;
       QUIC       dial/open refuse an address without /p2p (AddressError::PeerIdMissing),
                  make_client_config(keypair, Some(peer)) -> verify_server_cert compares;
       WebRTC     no dial path at all (litep2p only accepts; it is the Noise initiator there).
     Listeners of all four have no expectation.  Behind every transport,
     TransportManager::on_connection_established compares the reported peer with the entry that
     dial()/dial_address() left in pending_connections for that connection id and refuses the
     connection on a mismatch (transport.reject; a debug build stops at debug_assert!(false)). *)
  Inductive transport := TTcp | TWebSocket | TQuic | TWebRtc.

  (* what the remote presented: the decrypted Noise identity payload with the session's remote
     static key, or the certificate's extensions with its SubjectPublicKeyInfo *)
  Inductive evidence := EvNoise (pb rs : bytes) | EvTls (l : list xext) (spki : bytes).

  Inductive setup := NoDial | DialWith (expected : option pid).

  Definition dial_setup (t : transport) (addr_peer : option pid) : setup :=
    match t with
    | TTcp => DialWith addr_peer
    | TWebSocket | TQuic =>
        match addr_peer with Some p => DialWith (Some p) | None => NoDial end
    | TWebRtc => NoDial
    end.

  (* None: that kind of evidence does not exist on that transport *)
  Definition transport_verdict (t : transport) (expected : option pid) (ev : evidence) : option result :=
    match t, ev with
    | TTcp, EvNoise pb rs | TWebSocket, EvNoise pb rs => Some (accept pb rs expected)
    | TQuic, EvTls l spki => Some (tls_accept l spki expected)
    | TWebRtc, EvNoise pb rs => Some (accept pb rs None)
    | _, _ => None
    end.

  (* what an accepted identity rests on, per kind of evidence *)
  Definition authentic (ev : evidence) (p : pid) : Prop :=
    match ev with
    | EvNoise pb rs =>
        exists pl kb sg k,
          decode_payload pb = Some pl /\ p_key pl = Some kb /\ p_sig pl = Some sg /\
          decode_pubkey kb = KeyOk k /\ verify k (DOMAIN ++ rs) sg = true /\ p = peer_id_of_key k
    | EvTls l spki =>
        exists l1 kb sg l2 k,
          l = l1 ++ XP2p (Some (kb, sg)) :: l2 /\ Forall ignorable l1 /\ Forall ignorable l2 /\
          decode_pubkey kb = KeyOk k /\ verify k (TLS_PREFIX ++ spki) sg = true /\ p = peer_id_of_key k
    end.

  (* TransportManager::on_connection_established: pending_connections.remove(connection id) *)
  Definition manager_check (pending : option pid) (r : result) : result := check_dialed pending r.

  Definition omap {A B} (f : A -> B) (o : option A) : option B :=
    match o with Some a => Some (f a) | None => None end.

  (* a connection dialed through the manager: `addr_peer` is the /p2p part of the address handed
     to the transport, `dialed` the peer recorded in pending_connections *)
  Definition dial_outcome (t : transport) (addr_peer : option pid) (dialed : pid) (ev : evidence)
    : option result :=
    match dial_setup t addr_peer with
    | NoDial => None
    | DialWith e => omap (manager_check (Some dialed)) (transport_verdict t e ev)
    end.

  (* an inbound connection: no expectation anywhere *)
  Definition inbound_outcome (t : transport) (ev : evidence) : option result :=
    omap (manager_check None) (transport_verdict t None ev).

  (* -------------------------------------------------------------- transcript layer *)

  Inductive ct := Ct (k h pt : bytes) | Junk (b : bytes).
  Inductive item := IB (b : bytes) | IC (c : ct).

  Variable H : list item -> bytes.       (* handshake hash after mixing these items *)
  Variable KDF : list bytes -> bytes.    (* cipher key after mixing these DH outputs *)
  Variable pubk : N -> bytes.            (* public key of a secret (secrets are names) *)
  Variable dh : N -> bytes -> bytes.     (* DH of an own secret with a received public key *)

  Definition dec (k h : bytes) (c : ct) : option bytes :=
    match c with
    | Ct k' h' pt => if beq k k' && beq h h' then Some pt else None
    | Junk _ => None
    end.

  (* `pro` is the Noise prologue: empty for TCP and WebSocket, "libp2p-webrtc-noise:" followed by
     the two DTLS fingerprints for WebRTC (NoiseContext::with_prologue) *)
  Record party := mkParty { eph : N; sta : N; pay : bytes; dialed_of : option pid; pro : bytes }.

  Record msg1 := mkM1 { m1_e : bytes; m1_pl : bytes }.
  Record msg2 := mkM2 { m2_e : bytes; m2_s : ct; m2_p : ct }.
  Record msg3 := mkM3 { m3_s : ct; m3_p : ct }.

  (* what the reader of a message gets from the byte stream *)
  Inductive delivery (A : Type) :=
  | DMsg (m : A)        (* a complete frame that parses into the components of the pattern *)
  | DShort              (* the stream ends before the frame is complete: I/O error *)
  | DBad.               (* a complete frame that is too short for the pattern: snow error *)
  Arguments DMsg {A} m.
  Arguments DShort {A}.
  Arguments DBad {A}.

  Inductive outcome :=
  | OAccept (p : pid)
  | OIo                  (* NegotiationError::IoError *)
  | OSnow                (* NegotiationError::SnowError *)
  | OReject (e : err).

  Definition outcome_of (r : result) : outcome :=
    match r with Accept p => OAccept p | Reject e => OReject e end.

  (* dialer: -> e *)
  Definition d_msg1 (D : party) : msg1 := mkM1 (pubk (eph D)) [].

  (* listener after reading message 1: transcript, DH outputs, and its message 2 *)
  Definition l_tr1 (L : party) (d1 : msg1) : list item :=
    [IB (pro L); IB (m1_e d1); IB (m1_pl d1); IB (pubk (eph L))].
  Definition l_ks1 (L : party) (d1 : msg1) : list bytes := [dh (eph L) (m1_e d1)].
  Definition l_cs2 (L : party) (d1 : msg1) : ct :=
    Ct (KDF (l_ks1 L d1)) (H (l_tr1 L d1)) (pubk (sta L)).
  Definition l_tr2 (L : party) (d1 : msg1) : list item := l_tr1 L d1 ++ [IC (l_cs2 L d1)].
  Definition l_ks2 (L : party) (d1 : msg1) : list bytes :=
    l_ks1 L d1 ++ [dh (sta L) (m1_e d1)].
  Definition l_cp2 (L : party) (d1 : msg1) : ct :=
    Ct (KDF (l_ks2 L d1)) (H (l_tr2 L d1)) (pay L).
  Definition l_tr3 (L : party) (d1 : msg1) : list item := l_tr2 L d1 ++ [IC (l_cp2 L d1)].
  Definition l_msg2 (L : party) (d1 : msg1) : msg2 :=
    mkM2 (pubk (eph L)) (l_cs2 L d1) (l_cp2 L d1).

  (* dialer reading message 2 *)
  Definition d_tr1 (D : party) (d2 : msg2) : list item :=
    [IB (pro D); IB (pubk (eph D)); IB []; IB (m2_e d2)].
  Definition d_ks1 (D : party) (d2 : msg2) : list bytes := [dh (eph D) (m2_e d2)].
  Definition d_tr2 (D : party) (d2 : msg2) : list item := d_tr1 D d2 ++ [IC (m2_s d2)].
  Definition d_ks2 (D : party) (d2 : msg2) (s : bytes) : list bytes :=
    d_ks1 D d2 ++ [dh (eph D) s].
  Definition d_tr3 (D : party) (d2 : msg2) : list item := d_tr2 D d2 ++ [IC (m2_p d2)].
  Definition d_cs3 (D : party) (d2 : msg2) (s : bytes) : ct :=
    Ct (KDF (d_ks2 D d2 s)) (H (d_tr3 D d2)) (pubk (sta D)).
  Definition d_tr4 (D : party) (d2 : msg2) (s : bytes) : list item :=
    d_tr3 D d2 ++ [IC (d_cs3 D d2 s)].
  Definition d_ks3 (D : party) (d2 : msg2) (s : bytes) : list bytes :=
    d_ks2 D d2 s ++ [dh (sta D) (m2_e d2)].
  Definition d_cp3 (D : party) (d2 : msg2) (s : bytes) : ct :=
    Ct (KDF (d_ks3 D d2 s)) (H (d_tr4 D d2 s)) (pay D).

  (* the dialer's part of handshake(): message 3 if it gets that far, and its verdict *)
  Definition d_run (D : party) (d2 : delivery msg2) : option msg3 * outcome :=
    match d2 with
    | DShort => (None, OIo)
    | DBad => (None, OSnow)
    | DMsg m =>
        match dec (KDF (d_ks1 D m)) (H (d_tr1 D m)) (m2_s m) with
        | None => (None, OSnow)
        | Some s =>
            match dec (KDF (d_ks2 D m s)) (H (d_tr2 D m)) (m2_p m) with
            | None => (None, OSnow)
            | Some pl =>
                match decode_payload pl with
                | None => (None, OReject EPayload)     (* returns before message 3 is written *)
                | Some p =>
                    (Some (mkM3 (d_cs3 D m s) (d_cp3 D m s)),
                     outcome_of (check_dialed (dialed_of D) (verify_payload p s)))
                end
            end
        end
    end.

  (* listener reading message 3 *)
  Definition l_ks3 (L : party) (d1 : msg1) (s : bytes) : list bytes :=
    l_ks2 L d1 ++ [dh (eph L) s].
  Definition l_tr4 (L : party) (d1 : msg1) (d3 : msg3) : list item :=
    l_tr3 L d1 ++ [IC (m3_s d3)].

  Definition l_run2 (L : party) (d1 : msg1) (d3 : delivery msg3) : outcome :=
    match d3 with
    | DShort => OIo
    | DBad => OSnow
    | DMsg m =>
        match dec (KDF (l_ks2 L d1)) (H (l_tr3 L d1)) (m3_s m) with
        | None => OSnow
        | Some s =>
            match dec (KDF (l_ks3 L d1 s)) (H (l_tr4 L d1 m)) (m3_p m) with
            | None => OSnow
            | Some pl => outcome_of (check_dialed (dialed_of L) (verify_identity pl s))
            end
        end
    end.

  (* one session under an active attacker: what is delivered in place of each message *)
  Record attack := mkAttack { a1 : delivery msg1; a2 : delivery msg2; a3 : delivery msg3 }.

  Definition l_sent2 (L : party) (a : attack) : option msg2 :=
    match a1 a with DMsg d1 => Some (l_msg2 L d1) | _ => None end.

  Definition run_d (D : party) (a : attack) : option msg3 * outcome := d_run D (a2 a).

  Definition run_l (L : party) (a : attack) : outcome :=
    match a1 a with
    | DShort => OIo
    | DBad => OSnow
    | DMsg d1 => l_run2 L d1 (a3 a)
    end.

End Decision.

Arguments DMsg {A} m.
Arguments DShort {A}.
Arguments DBad {A}.

(* ------------------------------------------------------------------ framing of handshake messages *)
(* NoiseContext::first_message / second_message: `(nwritten as u16).to_be_bytes()` followed by the
   message; nwritten is at most the size of the write buffer (256 / 2048), far below 2^16 *)
Definition frame (b : bytes) : bytes := (len b / 256) :: (len b mod 256) :: b.

(* NoiseContext::read_handshake_message: read_exact of two bytes, then read_exact of exactly that
   many bytes; nothing else is taken from the stream (no read-ahead).  None = the stream ends
   before the frame is complete (UnexpectedEof).  Every u16 length is admitted: snow's limit on a
   handshake message is 65535 bytes. *)
Definition read_frame (s : bytes) : option (bytes * bytes) :=
  match s with
  | hi :: lo :: r =>
      let n := N.to_nat (hi * 256 + lo) in
      if (length r <? n)%nat then None else Some (firstn n r, skipn n r)
  | _ => None
  end.

(* the listener's two reads, the dialer's one: what each hands to snow and what is left on the
   stream for the NoiseSocket built afterwards *)
Definition listener_reads (s : bytes) : option (bytes * bytes * bytes) :=
  match read_frame s with
  | Some (m1, r1) =>
      match read_frame r1 with Some (m3, r3) => Some (m1, m3, r3) | None => None end
  | None => None
  end.

(* sizes of the three messages of an honest litep2p node: e (32) | e (32), encrypted s (32 + 16),
   encrypted payload (+ 16) | encrypted s (48), encrypted payload (+ 16) *)
Definition msg1_len : N := 32.
Definition msg2_len (payload_len : N) : N := 32 + 48 + payload_len + 16.
Definition msg3_len (payload_len : N) : N := 48 + payload_len + 16.

(* ------------------------------------------------------------------ instances used in runs *)

(* an injective handshake hash: the serialisation of the items (length-prefixed, tagged) *)
Definition ser_bytes (b : bytes) : bytes := len b :: b.
Definition ser_ct (c : ct) : bytes :=
  match c with
  | Ct k h pt => 1 :: ser_bytes k ++ ser_bytes h ++ ser_bytes pt
  | Junk b => 2 :: ser_bytes b
  end.
Definition ser_item (i : item) : bytes :=
  match i with IB b => 0 :: ser_bytes b | IC c => ser_ct c end.
Definition H_inst (l : list item) : bytes := flat_map ser_item l.
Definition KDF_inst (l : list bytes) : bytes := flat_map ser_bytes l.

(* ideal signatures: the signature of `msg` under `pk` is the pair itself *)
Definition sign_ideal (pk msg : bytes) : bytes := pk ++ msg.
Definition verify_ideal (pk msg sg : bytes) : bool := beq sg (pk ++ msg).

(* the payload an honest litep2p node presents (NoiseContext::assemble) *)
Definition honest_payload (sign : bytes -> bytes -> bytes) (idk static : bytes) : bytes :=
  encode_payload (V.C18.Model.encode_ed25519 idk) (sign idk (DOMAIN ++ static)).
