(* C01 — wire format, model runner and the trace oracle prop_ok.  Definitions only.

   `L x` = count-prefixed list, `opt x` = 0 | 1 L x.  A case is `kind nparams params.. observed..`;
   the parameters drive the harness (and are all that is read back on replay), the observed
   part is what the run produced and is the model's input.

   kind 1 (decision; a rogue peer with a valid Noise session, or fkind 0 = an honest session):
     case   1 4 seed role fkind variant | L payload | L remote_static
            | n x (L key32, on_curve)                      real curve25519 decompression verdicts
            | n x (L pk, L msg, L sig, ok)                 real ed25519 verdicts
     trace  1 | L domain
            | 0  /  1 opt(key) opt(sig)                    prost: NoiseHandshakePayload::decode
            | 0 (n/a)  /  1 (refused)  /  2 type L data    prost: keys_proto::PublicKey::decode
            | 0 (n/a)  /  1 class [L key]                  RemotePublicKey::from_protobuf_encoding
            | 0 (n/a)  /  1 1 (refused) / 1 0 L key L id   the reference: libp2p-identity 0.2.14
                                                           PublicKey::try_decode_protobuf + to_peer_id
            | 99 (n/a) /  class [L id]                     parse_and_verify_peer_id (hook)
            | class [L id]                                 handshake() on the victim's side
            | miss                                         1 = an oracle table lacks a needed entry
   kind 2 (transcript; two real handshake() futures and a man in the middle):
     case   2 6 seed tkind midx pos mask frag | L idD | L idL
            | L sent1 | L sent2 | L sent3                  frames as written by the honest sides
            | L deliveredDL | L deliveredLD                byte streams handed to the readers
            | L early_written                              what the dialer's application wrote right
                                                           after its handshake returned (7th parameter)
     trace  2 | sent2? sent3? | class [L id] (dialer) | class [L id] (listener)
            | L early_delivered                            what the listener's application could read
   kind 6 (two complete Litep2p nodes, public API, TCP or WebSocket, right / wrong peer id dialed):
     case   6 3 seed transport mode | L idD | L idL | opt(dialed by D)
     trace  6 | class [L id] (dialer's event) | class [L id] (listener; 12 = no connection reported)
   kind 5 (the rogue peer of kind 1 against negotiate_connection over loopback TCP, with a
   dialed-peer expectation; the rogue also completes the yamux negotiation):
     case   5 5 seed role fkind variant dmode | L payload | L remote_static | opt(dialed)
            | curve table | ed25519 table                  as in kind 1
     trace  5 | class [L id] | miss
   kind 7 (extra stream, harness_c01x: the TLS certificate checks of the QUIC transport on crafted
   certificates; class 13 = BadDer, 14 = ExtensionValueInvalid, 5 = UnknownIssuer, 8 = wrong peer,
   15 = UnsupportedCriticalExtension); the certificate's extensions in order:
     case   7 n params.. | n x (0 other OID, not critical / 1 other OID, critical /
                                2 libp2p OID, not a SignedKey / 3 L key L sig libp2p OID)
            | L spki | intermediates | opt(expected) | curve table | ed25519 table
     trace  7 | class [L id] (verify_server_cert) | class [L id] (verify_client_cert) | miss
   kind 9 (the real TransportManager over a scripted transport: dial_address to `dialed`, then the
   transport reports ConnectionEstablished for `reported`; mode 2: an inbound connection):
     case   9 3 seed transport mode | opt(dialed) | L reported
     trace  9 | 0 L id (next() yields ConnectionEstablished, transport.accept called) / 8 (refused:
                transport.reject, or the debug assertion of a debug build)
   kind 8 (extra stream: NoiseContext::with_prologue + get_remote_peer_id, the WebRTC caller,
   against a snow responder; the two prologues are computed from fingerprints by each side):
     case   8 n params.. | L payload | L remote_static | L prologue_litep2p | L prologue_remote
            | short prefix extra                           the reply handed to get_remote_peer_id: cut to one
                                                           byte? / the two-byte prefix / bytes appended
            | curve table | ed25519 table
     trace  8 | class [L id] | miss
   kind 4 (negotiate_connection over loopback TCP, honest peers):
     case   4 3 seed modeD modeL | L idD | L idL | opt(dialed by D) | opt(dialed by L)
     trace  4 | class [L id] (dialer) | class [L id] (listener)

   class: 0 connected (followed by the peer id bytes), 1 IoError, 2 SnowError,
   3 ParseError(ProstDecodeError), 4 PeerIdMissing, 5 BadSignature, 6 ParseError(UnknownKeyType),
   7 ParseError(InvalidPublicKey), 8 PeerIdMismatch, 9 Timeout/stuck, 10 other, 11 the identity
   checks passed but the later yamux negotiation failed (MultistreamSelectError). *)
From Coq Require Import List NArith Bool Arith.
From V.common Require Import Wire Varint.
From V.C01 Require Import Model.
Import ListNotations.
Open Scope N_scope.

Definition pL : parser (list N) := plist pN.
Definition eL (l : list N) : list N := enc_list (fun x => [x]) l.
Definition pOpt : parser (option (list N)) :=
  let* t := pN in
  match t with
  | 0 => pret None
  | 1 => let* b := pL in pret (Some b)
  | _ => pfail
  end.
Definition eOpt (o : option bytes) : list N :=
  match o with None => [0] | Some b => 1 :: eL b end.

(* class [L id], returned as the numbers themselves *)
Definition p_res_raw : parser (list N) :=
  let* c := pN in
  match c with
  | 0 => let* b := pL in pret (0 :: eL b)
  | _ => pret [c]
  end.

Definition id_bytes (k : bytes) : bytes := V.C18.Model.to_bytes (peer_id_of_key k).

(* ---------------------------------------------------------------- observable classes *)
Definition err_class (e : err) : N :=
  match e with
  | EPayload => 3 | EKeyMissing => 4 | EKeyProto => 3 | EKeyType => 6 | EKeyInvalid => 7
  | ESigMissing => 5 | ESigBad => 5 | EMismatch => 8
  | ETlsNoExt => 13 | ETlsExtValue => 14 | ETlsIssuer => 5 | ETlsCritical => 15
  end.

Definition enc_result (r : result) : list N :=
  match r with
  | Accept p => 0 :: eL (V.C18.Model.to_bytes p)
  | Reject e => [err_class e]
  end.

Definition enc_outcome (o : outcome) : list N :=
  match o with
  | OAccept p => 0 :: eL (V.C18.Model.to_bytes p)
  | OIo => [1]
  | OSnow => [2]
  | OReject e => [err_class e]
  end.

(* ---------------------------------------------------------------- cases *)
Record k1 := mkK1 {
  k1_pb : bytes; k1_rs : bytes; k1_dialed : option bytes;
  k1_curve : list (bytes * bool);
  k1_ver : list (bytes * bytes * bytes * bool)
}.
Record k2 := mkK2 {
  k2_idD : bytes; k2_idL : bytes; k2_s1 : bytes; k2_s2 : bytes; k2_s3 : bytes;
  k2_dDL : bytes; k2_dLD : bytes; k2_early : bytes
}.
Record k4 := mkK4 { k4_idD : bytes; k4_idL : bytes; k4_dD : option bytes; k4_dL : option bytes }.

Record k7 := mkK7 {
  k7_ext : list xext; k7_spki : bytes; k7_inter : N; k7_exp : option bytes;
  k7_curve : list (bytes * bool); k7_ver : list (bytes * bytes * bytes * bool)
}.
Record k8 := mkK8 { k8_c : k1; k8_proI : bytes; k8_proR : bytes; k8_short : bool; k8_prefix : N; k8_extra : N }.
Record k9 := mkK9 { k9_dialed : option bytes; k9_reported : bytes }.

Inductive case :=
| C1 (c : k1) | C2 (c : k2) | C4 (c : k4) | C5 (c : k1) | C6 (c : k4) | C7 (c : k7) | C8 (c : k8)
| C9 (c : k9).

Definition p_params : parser unit :=
  let* n := pN in let* _ := prep (N.to_nat (N.min n 16)) pN in pret tt.

Definition p_curve : parser (bytes * bool) := let* k := pL in let* b := pBool in pret (k, b).
Definition p_ver : parser (bytes * bytes * bytes * bool) :=
  let* k := pL in let* m := pL in let* s := pL in let* b := pBool in pret (k, m, s, b).

Definition p_xext : parser xext :=
  let* t := pN in
  match t with
  | 0 => pret (XOther false)
  | 1 => pret (XOther true)
  | 2 => pret (XP2p None)
  | 3 => let* k := pL in let* sg := pL in pret (XP2p (Some (k, sg)))
  | _ => pfail
  end.

Definition p_case : parser case :=
  let* kind := pN in
  let* _ := p_params in
  match kind with
  | 1 => let* pb := pL in let* rs := pL in let* cv := plist p_curve in let* vt := plist p_ver in
         pret (C1 (mkK1 pb rs None cv vt))
  | 5 => let* pb := pL in let* rs := pL in let* d := pOpt in
         let* cv := plist p_curve in let* vt := plist p_ver in
         pret (C5 (mkK1 pb rs d cv vt))
  | 2 => let* a := pL in let* b := pL in let* s1 := pL in let* s2 := pL in let* s3 := pL in
         let* d1 := pL in let* d2 := pL in let* ew := pL in pret (C2 (mkK2 a b s1 s2 s3 d1 d2 ew))
  | 6 => let* a := pL in let* b := pL in let* x := pOpt in pret (C6 (mkK4 a b x None))
  | 7 => let* x := plist p_xext in
         let* spki := pL in let* n := pN in let* e := pOpt in
         let* cv := plist p_curve in let* vt := plist p_ver in
         pret (C7 (mkK7 x spki n e cv vt))
  | 9 => let* d := pOpt in let* r := pL in pret (C9 (mkK9 d r))
  | 8 => let* pb := pL in let* rs := pL in let* pi := pL in let* pr := pL in
         let* sh := pBool in let* px := pN in let* ex := pN in
         let* cv := plist p_curve in let* vt := plist p_ver in
         pret (C8 (mkK8 (mkK1 pb rs None cv vt) pi pr sh px ex))
  | 4 => let* a := pL in let* b := pL in let* x := pOpt in let* y := pOpt in
         pret (C4 (mkK4 a b x y))
  | _ => pfail
  end.

Definition obytes_ok (o : option bytes) : bool :=
  match o with None => true | Some b => bytes_ok b end.

Definition well_formed (c : case) : bool :=
  match c with
  | C1 c | C5 c =>
      bytes_ok (k1_pb c) && bytes_ok (k1_rs c) && obytes_ok (k1_dialed c) &&
      forallb (fun e => bytes_ok (fst e)) (k1_curve c) &&
      forallb (fun e => match e with (k, m, s, _) => bytes_ok k && bytes_ok m && bytes_ok s end)
              (k1_ver c)
  | C2 c =>
      bytes_ok (k2_idD c) && bytes_ok (k2_idL c) && (len (k2_idD c) =? 32) &&
      (len (k2_idL c) =? 32) && bytes_ok (k2_s1 c) && bytes_ok (k2_s2 c) && bytes_ok (k2_s3 c) &&
      bytes_ok (k2_dDL c) && bytes_ok (k2_dLD c) && bytes_ok (k2_early c)
  | C7 c =>
      forallb (fun x => match x with XP2p (Some (k, sg)) => bytes_ok k && bytes_ok sg | _ => true end)
              (k7_ext c) &&
      bytes_ok (k7_spki c) && obytes_ok (k7_exp c) &&
      forallb (fun e => bytes_ok (fst e)) (k7_curve c) &&
      forallb (fun e => match e with (k, m, s, _) => bytes_ok k && bytes_ok m && bytes_ok s end)
              (k7_ver c)
  | C8 c =>
      bytes_ok (k1_pb (k8_c c)) && bytes_ok (k1_rs (k8_c c)) && bytes_ok (k8_proI c) &&
      bytes_ok (k8_proR c) &&
      forallb (fun e => bytes_ok (fst e)) (k1_curve (k8_c c)) &&
      forallb (fun e => match e with (k, m, s, _) => bytes_ok k && bytes_ok m && bytes_ok s end)
              (k1_ver (k8_c c))
  | C9 c => obytes_ok (k9_dialed c) && bytes_ok (k9_reported c)
  | C4 c | C6 c =>
      bytes_ok (k4_idD c) && bytes_ok (k4_idL c) && (len (k4_idD c) =? 32) &&
      (len (k4_idL c) =? 32) && obytes_ok (k4_dD c) && obytes_ok (k4_dL c)
  end.

Definition decode_case (l : list N) : option case :=
  match pall p_case l with
  | Some c => if well_formed c then Some c else None
  | None => None
  end.

(* ---------------------------------------------------------------- kind 1 *)
Fixpoint look_curve (t : list (bytes * bool)) (k : bytes) : option bool :=
  match t with
  | [] => None
  | (k', b) :: r => if beq k k' then Some b else look_curve r k
  end.
Fixpoint look_ver (t : list (bytes * bytes * bytes * bool)) (k m s : bytes) : option bool :=
  match t with
  | [] => None
  | (k', m', s', b) :: r => if beq k k' && beq m m' && beq s s' then Some b else look_ver r k m s
  end.

Definition curve_of (c : k1) (k : bytes) : bool :=
  match look_curve (k1_curve c) k with Some b => b | None => false end.
Definition verify_of (c : k1) (k m s : bytes) : bool :=
  match look_ver (k1_ver c) k m s with Some b => b | None => false end.

(* does the model need an oracle entry that the case does not carry? *)
Definition k1_miss (c : k1) : bool :=
  match decode_payload (k1_pb c) with
  | Some p =>
      match p_key p with
      | Some kb =>
          match decode_keymsg kb with
          | Some m =>
              if (k_type m =? 1) && (len (k_data m) =? 32) then
                match look_curve (k1_curve c) (k_data m) with
                | None => true
                | Some false => false
                | Some true =>
                    match p_sig p with
                    | Some sg =>
                        match look_ver (k1_ver c) (k_data m) (DOMAIN ++ k1_rs c) sg with
                        | None => true
                        | Some _ => false
                        end
                    | None => false
                    end
                end
              else false
          | None => false
          end
      | None => false
      end
  | None => false
  end.

Definition enc_keyres (r : keyres) : list N :=
  match r with
  | KeyOk k => 1 :: 0 :: eL k
  | KeyErr e => [1; err_class e]
  end.

Definition run1 (c : k1) : list N :=
  let oc := curve_of c in
  let vf := verify_of c in
  1 :: eL DOMAIN ++
  (match decode_payload (k1_pb c) with
   | None => [0; 0; 0; 0; 99]
   | Some p =>
       1 :: eOpt (p_key p) ++ eOpt (p_sig p) ++
       (match p_key p with
        | None => [0; 0; 0]
        | Some kb =>
            (match decode_keymsg kb with
             | None => [1]
             | Some m => 2 :: k_type m :: eL (k_data m)
             end) ++ enc_keyres (decode_pubkey oc kb) ++
            (* the reference admits exactly the same key blobs, with the same key and id *)
            (match decode_pubkey oc kb with
             | KeyOk k => 1 :: 0 :: eL k ++ eL (id_bytes k)
             | KeyErr _ => [1; 1]
             end)
        end) ++ enc_result (verify_payload oc vf p (k1_rs c))
   end) ++
  enc_result (verify_identity oc vf (k1_pb c) (k1_rs c)) ++ [b2n (k1_miss c)].

(* ---------------------------------------------------------------- kinds 2 and 4 *)
Definition sub (a b : nat) (l : bytes) : bytes := firstn (b - a) (skipn a l).

Definition is_nil (b : bytes) : bool := match b with [] => true | _ => false end.

(* secrets are the names 1 = dialer ephemeral, 2 = listener ephemeral, 3 = dialer static,
   4 = listener static; public keys are the bytes seen on the wire where they are visible *)
Definition pubk_i (eD eL : bytes) (x : N) : bytes :=
  match x with
  | 1 => eD
  | 2 => eL
  | 3 => repeat 3 32
  | 4 => repeat 4 32
  | _ => [x]
  end.
Definition name_of (eD eL P : bytes) : option N :=
  if beq P (pubk_i eD eL 1) then Some 1
  else if beq P (pubk_i eD eL 2) then Some 2
  else if beq P (pubk_i eD eL 3) then Some 3
  else if beq P (pubk_i eD eL 4) then Some 4
  else None.
Definition dh_i (eD eL : bytes) (x : N) (P : bytes) : bytes :=
  match name_of eD eL P with
  | Some y => [0; N.min x y; N.max x y]
  | None => 1 :: x :: P
  end.

Definition all_curve (_ : bytes) : bool := true.

Definition mk_dialer (eD eL idD : bytes) (dialed : option pid) : party :=
  mkParty 1 3 (honest_payload sign_ideal idD (pubk_i eD eL 3)) dialed [].
Definition mk_listener (eD eL idL : bytes) (dialed : option pid) : party :=
  mkParty 2 4 (honest_payload sign_ideal idL (pubk_i eD eL 4)) dialed [].

Fixpoint ct_of (tab : list (bytes * ct)) (b : bytes) : ct :=
  match tab with
  | [] => Junk b
  | (b', c) :: r => if beq b b' then c else ct_of r b
  end.

Definition tab_add (b : bytes) (c : ct) (tab : list (bytes * ct)) : list (bytes * ct) :=
  if is_nil b then tab else tab ++ [(b, c)].

Record k2out := mkK2Out { o_s2 : bool; o_s3 : bool; o_D : outcome; o_L : outcome }.

Definition run2_model (c : k2) : k2out :=
  let eD := sub 2 34 (k2_s1 c) in
  let eLr := if is_nil (k2_s2 c) then repeat 2 32 else sub 2 34 (k2_s2 c) in
  let pk := pubk_i eD eLr in
  let dhf := dh_i eD eLr in
  let D := mk_dialer eD eLr (k2_idD c) None in
  let L := mk_listener eD eLr (k2_idL c) None in
  let f1 := read_frame (k2_dDL c) in
  let a1 : delivery msg1 :=
    match f1 with
    | None => DShort
    | Some (b1, _) => if (length b1 <? 32)%nat then DBad else DMsg (mkM1 (firstn 32 b1) (skipn 32 b1))
    end in
  let tab2 :=
    match a1 with
    | DMsg d1 =>
        let m2 := l_msg2 H_inst KDF_inst pk dhf L d1 in
        tab_add (skipn 82 (k2_s2 c)) (m2_p m2) (tab_add (sub 34 82 (k2_s2 c)) (m2_s m2) [])
    | _ => []
    end in
  let a2 : delivery msg2 :=
    match read_frame (k2_dLD c) with
    | None => DShort
    | Some (b2, _) =>
        if (length b2 <? 96)%nat then DBad
        else DMsg (mkM2 (firstn 32 b2) (ct_of tab2 (sub 32 80 b2)) (ct_of tab2 (skipn 80 b2)))
    end in
  let '(m3o, oD) := d_run all_curve verify_ideal H_inst KDF_inst pk dhf D a2 in
  let tab3 :=
    match m3o with
    | Some m3 => tab_add (skipn 50 (k2_s3 c)) (m3_p m3) (tab_add (sub 2 50 (k2_s3 c)) (m3_s m3) tab2)
    | None => tab2
    end in
  let a3 : delivery msg3 :=
    match f1 with
    | None => DShort
    | Some (_, rest) =>
        match read_frame rest with
        | None => DShort
        | Some (b3, _) =>
            if (length b3 <? 64)%nat then DBad
            else DMsg (mkM3 (ct_of tab3 (firstn 48 b3)) (ct_of tab3 (skipn 48 b3)))
        end
    end in
  let oL := run_l all_curve verify_ideal H_inst KDF_inst pk dhf L (mkAttack a1 a2 a3) in
  mkK2Out (match a1 with DMsg _ => true | _ => false end)
          (match m3o with Some _ => true | None => false end) oD oL.

Definition run2 (c : k2) : list N :=
  let o := run2_model c in
  2 :: b2n (o_s2 o) :: b2n (o_s3 o) :: enc_outcome (o_D o) ++ enc_outcome (o_L o) ++
  eL (match o_L o with OAccept _ => k2_early c | _ => [] end).

Definition dialed_pid (o : option bytes) : option (option pid) :=
  match o with
  | None => Some None
  | Some b => match V.C18.Model.of_bytes b with Some p => Some (Some p) | None => None end
  end.

(* negotiate_connection: the handshake, the dialed-peer comparison, then the yamux negotiation,
   which only succeeds when the other side got that far too *)
Definition post (mine other : outcome) : list N :=
  match mine, other with
  | OAccept p, OAccept _ => enc_outcome mine
  | OAccept _, _ => [11]
  | _, _ => enc_outcome mine
  end.

Definition run4 (c : k4) : list N :=
  match dialed_pid (k4_dD c), dialed_pid (k4_dL c) with
  | Some dD, Some dL =>
      let eD := repeat 1 32 in
      let eLr := repeat 2 32 in
      let pk := pubk_i eD eLr in
      let dhf := dh_i eD eLr in
      let D := mk_dialer eD eLr (k4_idD c) dD in
      let L := mk_listener eD eLr (k4_idL c) dL in
      let m1 := d_msg1 pk D in
      let a2 := DMsg (l_msg2 H_inst KDF_inst pk dhf L m1) in
      let '(m3o, oD) := d_run all_curve verify_ideal H_inst KDF_inst pk dhf D a2 in
      let a3 := match m3o with Some m3 => DMsg m3 | None => DShort end in
      let oL := run_l all_curve verify_ideal H_inst KDF_inst pk dhf L (mkAttack (DMsg m1) a2 a3) in
      4 :: post oD oL ++ post oL oD
  | _, _ => [0]
  end.

Definition run5 (c : k1) : list N :=
  match dialed_pid (k1_dialed c) with
  | Some d =>
      5 :: enc_result (accept (curve_of c) (verify_of c) (k1_pb c) (k1_rs c) d) ++ [b2n (k1_miss c)]
  | None => [0]
  end.

(* kind 7: the TLS certificate decision *)
Definition ext_miss (c : k7) (x : xext) : bool :=
  match x with
  | XP2p (Some (kb, sg)) =>
      match decode_keymsg kb with
      | Some m =>
          if (k_type m =? 1) && (len (k_data m) =? 32) then
            match look_curve (k7_curve c) (k_data m) with
            | None => true
            | Some false => false
            | Some true =>
                match look_ver (k7_ver c) (k_data m) (TLS_PREFIX ++ k7_spki c) sg with
                | None => true
                | Some _ => false
                end
            end
          else false
      | None => false
      end
  | _ => false
  end.
Definition k7_miss (c : k7) : bool := existsb (ext_miss c) (k7_ext c).

Definition run7 (c : k7) : list N :=
  let oc := fun k => match look_curve (k7_curve c) k with Some b => b | None => false end in
  let vf := fun k m s => match look_ver (k7_ver c) k m s with Some b => b | None => false end in
  match dialed_pid (k7_exp c) with
  | Some e =>
      if 0 <? k7_inter c then [7; 10; 10; 0]     (* "libp2p-tls requires exactly one certificate" *)
      else
        7 :: enc_result (tls_accept oc vf (k7_ext c) (k7_spki c) e) ++
        enc_result (tls_accept oc vf (k7_ext c) (k7_spki c) None) ++ [b2n (k7_miss c)]
  | None => [0]
  end.

(* kind 9: the manager's comparison behind every transport *)
Definition run9 (c : k9) : list N :=
  match dialed_pid (k9_dialed c), V.C18.Model.of_bytes (k9_reported c) with
  | Some d, Some r => 9 :: enc_result (manager_check d (Accept r))
  | _, _ => [0]
  end.

(* kind 8: the WebRTC caller — litep2p is the Noise initiator with its prologue, the remote a
   responder with its own; run through the symbolic transcript with the real payload bytes, the
   real remote static key and the real ed25519 verdicts *)
Definition name_of_f (pk : N -> bytes) (P : bytes) : option N :=
  if beq P (pk 1) then Some 1 else if beq P (pk 2) then Some 2
  else if beq P (pk 3) then Some 3 else if beq P (pk 4) then Some 4 else None.
Definition dh_f (pk : N -> bytes) (x : N) (P : bytes) : bytes :=
  match name_of_f pk P with
  | Some y => [0; N.min x y; N.max x y]
  | None => 1 :: x :: P
  end.

Definition run8 (c : k8) : list N :=
  let k := k8_c c in
  let eD := repeat 1 32 in
  let eLr := repeat 2 32 in
  let pk := fun x => if x =? 4 then k1_rs k else pubk_i eD eLr x in
  let dhf := dh_f pk in
  let D := mkParty 1 3 [] None (k8_proI c) in
  let L := mkParty 2 4 (k1_pb k) None (k8_proR c) in
  let a2 := DMsg (l_msg2 H_inst KDF_inst pk dhf L (d_msg1 pk D)) in
  let '(_, oD) := d_run (curve_of k) (verify_of k) H_inst KDF_inst pk dhf D a2 in
  (* get_remote_peer_id: a reply of fewer than two bytes is InvalidReplyLength (class 10); the
     two-byte prefix only sizes the output buffer (too small for the payload: snow refuses) and
     ALL the bytes behind it are the Noise message (anything appended breaks the last tag) *)
  if k8_short c then [8; 10; b2n (k1_miss k)]
  else if (k8_prefix c <? len (k1_pb k)) || (0 <? k8_extra c) then [8; 2; b2n (k1_miss k)]
  else 8 :: enc_outcome oD ++ [b2n (k1_miss k)].

(* the public API: the listener reports nothing unless the connection was established *)
Definition run6 (c : k4) : list N :=
  match run4 c with
  | 4 :: rest =>
      match pall (let* a := p_res_raw in let* b := p_res_raw in pret (a, b)) rest with
      | Some (a, b) => 6 :: a ++ (match b with [11] => [12] | _ => b end)
      | None => [0]
      end
  | _ => [0]
  end.

Definition run_case (l : list N) : list N :=
  match decode_case l with
  | Some (C1 c) => run1 c
  | Some (C5 c) => run5 c
  | Some (C2 c) => run2 c
  | Some (C4 c) => run4 c
  | Some (C6 c) => run6 c
  | Some (C7 c) => run7 c
  | Some (C8 c) => run8 c
  | Some (C9 c) => run9 c
  | None => [0]
  end.

(* ---------------------------------------------------------------- the oracle *)
(* class [L id] *)
Definition p_res : parser (N * bytes) :=
  let* c := pN in
  match c with
  | 0 => let* b := pL in pret (0, b)
  | _ => pret (c, [])
  end.

(* kind 1: the parts of the trace that the property speaks about: the hook's and the
   handshake's verdict *)
(* admission of the key blob: litep2p's verdict (accepted key) and the reference's (key, id) *)
Definition p_trace1 :
  parser ((N * bytes) * (N * bytes) * (option bytes * option (bytes * bytes))) :=
  let* _ := pL in
  let* pd := pN in
  let* _ := (if pd =? 1 then let* _ := pOpt in let* _ := pOpt in pret tt else pret tt) in
  let* km := pN in
  let* _ := (if km =? 2 then let* _ := pN in let* _ := pL in pret tt else pret tt) in
  let* kd := pN in
  let* mine := (if kd =? 1 then
                  let* c := pN in if c =? 0 then let* k := pL in pret (Some k) else pret None
                else pret None) in
  let* rf := pN in
  let* theirs := (if rf =? 1 then
                    let* c := pN in
                    if c =? 0 then let* k := pL in let* i := pL in pret (Some (k, i)) else pret None
                  else pret None) in
  let* hook := p_res in
  let* hs := p_res in
  let* _ := pN in
  pret (hook, hs, (mine, theirs)).

(* the exact set of accepted identity_key encodings is the reference's: same verdict, same key,
   and the reference's peer id is the id derived from that key *)
Definition admission_agrees (x : option bytes * option (bytes * bytes)) : bool :=
  match x with
  | (None, None) => true
  | (Some k, Some (k', i)) => beq k k' && beq i (id_bytes k)
  | _ => false
  end.

(* is `p` a contiguous piece of `l`? *)
Fixpoint is_prefix (p l : bytes) : bool :=
  match p, l with
  | [], _ => true
  | x :: p', y :: l' => (x =? y) && is_prefix p' l'
  | _, [] => false
  end.
Fixpoint infix (p l : bytes) : bool :=
  is_prefix p l || match l with [] => false | _ :: t => infix p t end.

(* "the remote proved possession of the identity key whose hash is P and that key signed the
   static DH key of this very session": a real ed25519 verdict `true` for a key with id P over
   STATIC_KEY_DOMAIN ++ the session's remote static key, where both the key and the signature
   were actually presented, i.e. occur in the payload bytes (no decoder of the model involved) *)
Definition authentic (c : k1) (P : bytes) : bool :=
  existsb (fun e => match e with
                    | (k, m, sg, ok) =>
                        ok && beq m (DOMAIN ++ k1_rs c) && beq (id_bytes k) P &&
                        infix k (k1_pb c) && infix sg (k1_pb c)
                    end) (k1_ver c).

Definition ok_res1 (c : k1) (r : N * bytes) : bool :=
  if fst r =? 0 then authentic c (snd r) else true.

Definition prefix_eqb (p l : bytes) : bool := beq p (firstn (length p) l).

Definition prop2 (c : k2) (rD rL : N * bytes) (early_delivered : bytes) : bool :=
  (* early data: nothing reaches the listener's application unless its handshake accepted, and
     then only what the dialer's application wrote, in order *)
  (if fst rL =? 0 then prefix_eqb early_delivered (k2_early c) else is_nil early_delivered) &&
  (* the bytes the two handshakes consumed are the bytes that were sent (what follows the last
     handshake frame of a direction belongs to the transport phase, property C02) *)
  let untampered :=
    negb (is_nil (k2_s2 c)) && negb (is_nil (k2_s3 c)) &&
    prefix_eqb (k2_s1 c ++ k2_s3 c) (k2_dDL c) && prefix_eqb (k2_s2 c) (k2_dLD c) in
  let okD := fst rD =? 0 in
  let okL := fst rL =? 0 in
  (* a connection (both ends) only over an untouched transcript *)
  (if okD && okL then untampered else true) &&
  (* the dialer accepts only the listener's identity, and only if everything it read and
     everything its peer's answer depended on was authentic *)
  (if okD then
     beq (snd rD) (id_bytes (k2_idL c)) && negb (is_nil (k2_s2 c)) &&
     prefix_eqb (k2_s2 c) (k2_dLD c) && prefix_eqb (k2_s1 c) (k2_dDL c)
   else true) &&
  (* the listener finishes last: it accepts only the dialer's identity over an untouched
     transcript that the dialer accepted too *)
  (if okL then beq (snd rL) (id_bytes (k2_idD c)) && untampered && okD else true).

Definition dialed_ok (d : option bytes) (P : bytes) : bool :=
  match d with None => true | Some q => beq q P end.

Definition prop4 (c : k4) (rD rL : N * bytes) : bool :=
  (if fst rD =? 0 then beq (snd rD) (id_bytes (k4_idL c)) && dialed_ok (k4_dD c) (snd rD)
   else true) &&
  (if fst rL =? 0 then beq (snd rL) (id_bytes (k4_idD c)) && dialed_ok (k4_dL c) (snd rL)
   else true).

Definition prop_ok (case trace : list N) : bool :=
  match decode_case case with
  | None => match trace with [0] => true | _ => false end
  | Some (C1 c) =>
      match trace with
      | 1 :: rest =>
          match pall p_trace1 rest with
          | Some (hook, hs, adm) => ok_res1 c hook && ok_res1 c hs && admission_agrees adm
          | None => false
          end
      | _ => false
      end
  | Some (C2 c) =>
      match trace with
      | 2 :: _ :: _ :: rest =>
          match pall (let* a := p_res in let* b := p_res in let* e := pL in pret (a, b, e)) rest with
          | Some (rD, rL, e) => prop2 c rD rL e
          | None => false
          end
      | _ => false
      end
  | Some (C5 c) =>
      match trace with
      | 5 :: rest =>
          match pall (let* a := p_res in let* _ := pN in pret a) rest with
          | Some r => ok_res1 c r && (if fst r =? 0 then dialed_ok (k1_dialed c) (snd r) else true)
          | None => false
          end
      | _ => false
      end
  | Some (C7 c) =>
      match trace with
      | 7 :: rest =>
          match pall (let* a := p_res in let* b := p_res in let* _ := pN in pret (a, b)) rest with
          | Some (rS, rC) =>
              (* a real ed25519 verdict `true` for a key with id P over P2P_SIGNING_PREFIX ++ the
                 certificate's SPKI, key and signature being those of a libp2p extension of the
                 certificate; that extension is the only one with the libp2p OID and no other
                 extension is critical *)
              let auth := fun P =>
                existsb (fun x => match x with
                                  | XP2p (Some (kb, sg)) =>
                                      existsb (fun e => match e with
                                                        | (k, m, sg', ok) =>
                                                            ok && beq m (TLS_PREFIX ++ k7_spki c) &&
                                                            beq (id_bytes k) P && infix k kb && beq sg' sg
                                                        end) (k7_ver c)
                                  | _ => false
                                  end) (k7_ext c) &&
                (length (filter (fun x => match x with XP2p _ => true | _ => false end) (k7_ext c)) =? 1)%nat &&
                negb (existsb (fun x => match x with XOther true => true | _ => false end) (k7_ext c)) in
              (if fst rS =? 0 then auth (snd rS) && dialed_ok (k7_exp c) (snd rS) && (k7_inter c =? 0)
               else true) &&
              (if fst rC =? 0 then auth (snd rC) && (k7_inter c =? 0) else true)
          | None => false
          end
      | _ => false
      end
  | Some (C8 c) =>
      match trace with
      | 8 :: rest =>
          match pall (let* a := p_res in let* _ := pN in pret a) rest with
          | Some r =>
              if fst r =? 0 then authentic (k8_c c) (snd r) && beq (k8_proI c) (k8_proR c) else true
          | None => false
          end
      | _ => false
      end
  | Some (C9 c) =>
      match trace with
      | 9 :: rest =>
          match pall p_res rest with
          | Some r => if fst r =? 0 then beq (snd r) (k9_reported c) && dialed_ok (k9_dialed c) (snd r) else true
          | None => false
          end
      | _ => false
      end
  | Some (C6 c) =>
      match trace with
      | 6 :: rest =>
          match pall (let* a := p_res in let* b := p_res in pret (a, b)) rest with
          | Some (rD, rL) => prop4 c rD rL
          | None => false
          end
      | _ => false
      end
  | Some (C4 c) =>
      match trace with
      | 4 :: rest =>
          match pall (let* a := p_res in let* b := p_res in pret (a, b)) rest with
          | Some (rD, rL) => prop4 c rD rL
          | None => false
          end
      | _ => false
      end
  end.

(* no recorded finding for this property *)
Definition known_class (case trace : list N) : N := 0.
