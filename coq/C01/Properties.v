(* C01 — pinned property theorems.  This file contains statements, `exact`, and
   Print Assumptions only.  The pins in tools/pins/C01.v re-check the statements.

   Bytes are N below 256, byte strings are `list N`.

   DECISION LAYER.  `accept on_curve verify pb rs dialed` is what litep2p does with the decrypted
   identity payload `pb`, the remote static Diffie-Hellman key `rs` of the Noise session and the
   dialed-peer expectation: prost decoding of the payload and of the key blob, Ed25519 key
   admission, ed25519 verification of the signature over STATIC_KEY_DOMAIN ++ rs, peer-id
   derivation from the decoded key, comparison with the dialed peer.  `verify` (ed25519) and
   `on_curve` (point decompression) are arbitrary functions: the theorems hold for every one.

   TRANSCRIPT LAYER (theorems named `_partial`).  A symbolic model of the three XX messages:
   `H` is the handshake hash as a function of everything mixed so far, assumed injective;
   `KDF`, `pubk`, `dh` are arbitrary.  `no_forgery` is the AEAD idealisation for a session
   between two honest parties.  These theorems are about the symbolic model of Noise; that the
   `snow` crate behaves like it is tested (exhaustive byte-corruption sweep), not proved. *)
From Coq Require Import List NArith Bool.
From V.gen Require Consts.
From V.common Require Import Varint.
Require V.C18.Model.
Require V.C02.Model V.C02.Proofs.
From V.C01 Require Import Model Proofs Early Symbolic.
Import ListNotations.
Open Scope N_scope.

(* ---- soundness: the only way to be accepted ---- *)
Theorem C01_accept_sound :
  forall (on_curve : bytes -> bool) (verify : bytes -> bytes -> bytes -> bool)
         (pb rs : bytes) (dialed : option pid) (p : pid),
    accept on_curve verify pb rs dialed = Accept p ->
    exists pl kb sg k,
      decode_payload pb = Some pl /\ p_key pl = Some kb /\ p_sig pl = Some sg /\
      decode_pubkey on_curve kb = KeyOk k /\
      verify k (DOMAIN ++ rs) sg = true /\
      p = peer_id_of_key k /\ (dialed = None \/ dialed = Some p).
Proof. exact accept_sound. Qed.
Print Assumptions C01_accept_sound.

(* an admitted key is a 32-byte Ed25519 key on the curve taken from a decodable key message *)
Theorem C01_key_admission :
  forall (on_curve : bytes -> bool) (kb k : bytes),
    decode_pubkey on_curve kb = KeyOk k ->
    exists m, decode_keymsg kb = Some m /\ k_type m = 1 /\ k_data m = k /\
              length k = 32%nat /\ on_curve k = true.
Proof. intros oc kb k. exact (decode_pubkey_ok oc (fun _ _ _ => true) kb k). Qed.
Print Assumptions C01_key_admission.

(* ... and the converse: these conditions are sufficient *)
Theorem C01_accept_complete :
  forall (on_curve : bytes -> bool) (verify : bytes -> bytes -> bytes -> bool)
         (pb rs : bytes) (dialed : option pid) (pl : payload) (kb sg k : bytes),
    decode_payload pb = Some pl -> p_key pl = Some kb -> p_sig pl = Some sg ->
    decode_pubkey on_curve kb = KeyOk k -> verify k (DOMAIN ++ rs) sg = true ->
    (dialed = None \/ dialed = Some (peer_id_of_key k)) ->
    accept on_curve verify pb rs dialed = Accept (peer_id_of_key k).
Proof. exact accept_complete. Qed.
Print Assumptions C01_accept_complete.

(* ---- completeness of rejection: one theorem per reason, each with its specific error ---- *)
Theorem C01_reject_payload_undecodable :
  forall on_curve verify pb rs dialed,
    decode_payload pb = None -> accept on_curve verify pb rs dialed = Reject EPayload.
Proof. exact reject_payload_undecodable. Qed.
Print Assumptions C01_reject_payload_undecodable.

Theorem C01_reject_key_missing :
  forall on_curve verify pb rs dialed pl,
    decode_payload pb = Some pl -> p_key pl = None ->
    accept on_curve verify pb rs dialed = Reject EKeyMissing.
Proof. exact reject_key_missing. Qed.
Print Assumptions C01_reject_key_missing.

Theorem C01_reject_key_undecodable :
  forall on_curve verify pb rs dialed pl kb,
    decode_payload pb = Some pl -> p_key pl = Some kb -> decode_keymsg kb = None ->
    accept on_curve verify pb rs dialed = Reject EKeyProto.
Proof. exact reject_key_undecodable. Qed.
Print Assumptions C01_reject_key_undecodable.

Theorem C01_reject_unknown_key_type :
  forall on_curve verify pb rs dialed pl kb m,
    decode_payload pb = Some pl -> p_key pl = Some kb -> decode_keymsg kb = Some m ->
    k_type m <> 1 -> accept on_curve verify pb rs dialed = Reject EKeyType.
Proof. exact reject_unknown_key_type. Qed.
Print Assumptions C01_reject_unknown_key_type.

Theorem C01_reject_wrong_key_length :
  forall on_curve verify pb rs dialed pl kb m,
    decode_payload pb = Some pl -> p_key pl = Some kb -> decode_keymsg kb = Some m ->
    k_type m = 1 -> length (k_data m) <> 32%nat ->
    accept on_curve verify pb rs dialed = Reject EKeyInvalid.
Proof. exact reject_wrong_key_length. Qed.
Print Assumptions C01_reject_wrong_key_length.

Theorem C01_reject_key_not_on_curve :
  forall on_curve verify pb rs dialed pl kb m,
    decode_payload pb = Some pl -> p_key pl = Some kb -> decode_keymsg kb = Some m ->
    k_type m = 1 -> on_curve (k_data m) = false ->
    accept on_curve verify pb rs dialed = Reject EKeyInvalid.
Proof. exact reject_key_not_on_curve. Qed.
Print Assumptions C01_reject_key_not_on_curve.

Theorem C01_reject_sig_missing :
  forall on_curve verify pb rs dialed pl kb k,
    decode_payload pb = Some pl -> p_key pl = Some kb -> decode_pubkey on_curve kb = KeyOk k ->
    p_sig pl = None -> accept on_curve verify pb rs dialed = Reject ESigMissing.
Proof. exact reject_sig_missing. Qed.
Print Assumptions C01_reject_sig_missing.

Theorem C01_reject_bad_signature :
  forall on_curve verify pb rs dialed pl kb k sg,
    decode_payload pb = Some pl -> p_key pl = Some kb -> decode_pubkey on_curve kb = KeyOk k ->
    p_sig pl = Some sg -> verify k (DOMAIN ++ rs) sg = false ->
    accept on_curve verify pb rs dialed = Reject ESigBad.
Proof. exact reject_bad_signature. Qed.
Print Assumptions C01_reject_bad_signature.

Theorem C01_reject_dialed_mismatch :
  forall on_curve verify pb rs p q,
    verify_identity on_curve verify pb rs = Accept p -> q <> p ->
    accept on_curve verify pb rs (Some q) = Reject EMismatch.
Proof. exact reject_dialed_mismatch. Qed.
Print Assumptions C01_reject_dialed_mismatch.

(* a dialed expectation never turns a refusal into an acceptance *)
Theorem C01_reject_regardless_of_dialed :
  forall on_curve verify pb rs e dialed,
    verify_identity on_curve verify pb rs = Reject e ->
    accept on_curve verify pb rs dialed = Reject e.
Proof. exact reject_regardless_of_dialed. Qed.
Print Assumptions C01_reject_regardless_of_dialed.

(* ---- the payload parser on non-canonical inputs (the general statement is the decoder itself;
   these two instances pin the behaviours the property text names) ---- *)
(* a repeated identity_key: the last one wins *)
Theorem C01_payload_last_key_wins :
  forall k1 k2 sg,
    len k1 < 128 -> len k2 < 128 -> len sg < 128 ->
    decode_payload ([10; len k1] ++ k1 ++ [10; len k2] ++ k2 ++ [18; len sg] ++ sg)
    = Some (mkPayload (Some k2) (Some sg)).
Proof. exact decode_payload_last_key_wins. Qed.
Print Assumptions C01_payload_last_key_wins.

(* an unknown field (tag 3, varint) is skipped *)
Theorem C01_payload_unknown_field_skipped :
  forall key v sg,
    len key < 128 -> v < 128 -> len sg < 128 ->
    decode_payload ([10; len key] ++ key ++ [24; v] ++ [18; len sg] ++ sg)
    = Some (mkPayload (Some key) (Some sg)).
Proof. exact decode_payload_unknown_field_skipped. Qed.
Print Assumptions C01_payload_unknown_field_skipped.

(* ---- the TLS caller (QUIC): crypto/tls/certificate.rs::parse + verifier.rs, after the X.509 layer
   (x509-parser, certificate validity and self-signature checked with ring: trusted).  The model
   walks the certificate's extensions in order, as parse_unverified does ---- *)
(* the only way to be accepted: among extensions that are skipped (another OID, not critical)
   exactly one extension with the libp2p OID, well formed, whose key blob is admitted (same
   admission as above), whose signature verifies over P2P_SIGNING_PREFIX ++ the certificate's
   SubjectPublicKeyInfo, the id being derived from that key and equal to the dialed peer when there
   is one (verify_server_cert; verify_client_cert has none) *)
Theorem C01_tls_accept_sound :
  forall on_curve verify l spki expected p,
    tls_accept on_curve verify l spki expected = Accept p ->
    exists l1 kb sg l2 k,
      l = l1 ++ XP2p (Some (kb, sg)) :: l2 /\ Forall ignorable l1 /\ Forall ignorable l2 /\
      decode_pubkey on_curve kb = KeyOk k /\
      verify k (TLS_PREFIX ++ spki) sg = true /\
      p = peer_id_of_key k /\ (expected = None \/ expected = Some p).
Proof. exact tls_accept_sound. Qed.
Print Assumptions C01_tls_accept_sound.

Theorem C01_tls_accept_complete :
  forall on_curve verify l1 kb sg l2 k spki expected,
    Forall ignorable l1 -> Forall ignorable l2 ->
    decode_pubkey on_curve kb = KeyOk k -> verify k (TLS_PREFIX ++ spki) sg = true ->
    (expected = None \/ expected = Some (peer_id_of_key k)) ->
    tls_accept on_curve verify (l1 ++ XP2p (Some (kb, sg)) :: l2) spki expected = Accept (peer_id_of_key k).
Proof. exact tls_accept_complete. Qed.
Print Assumptions C01_tls_accept_complete.

Theorem C01_tls_dialed_mismatch :
  forall on_curve verify l spki p q,
    tls_verify on_curve verify l spki = Accept p -> q <> p ->
    tls_accept on_curve verify l spki (Some q) = Reject EMismatch.
Proof. exact tls_reject_mismatch. Qed.
Print Assumptions C01_tls_dialed_mismatch.

(* a critical extension the verifier does not understand, anywhere in the certificate, and a second
   extension with the libp2p OID, whatever the two hold: never accepted *)
Theorem C01_tls_critical_or_duplicate_refused :
  forall on_curve verify spki expected p,
    (forall l, In (XOther true) l -> tls_accept on_curve verify l spki expected <> Accept p) /\
    (forall la c1 lb c2 lc,
       tls_accept on_curve verify (la ++ XP2p c1 :: lb ++ XP2p c2 :: lc) spki expected <> Accept p).
Proof.
  intros oc vf spki e p. split.
  - intros l. exact (tls_critical_refused oc vf l spki e p).
  - intros la c1 lb c2 lc. exact (tls_duplicate_refused oc vf la c1 lb c2 lc spki e p).
Qed.
Print Assumptions C01_tls_critical_or_duplicate_refused.

(* key types: a key blob whose Type field is not Ed25519 (RSA = 0 — the cargo feature `rsa` is off —,
   Secp256k1 = 2, ECDSA = 3, any other number) is never accepted, neither in a Noise identity payload
   nor in a certificate extension: no "accept by default" for key types litep2p cannot verify *)
Theorem C01_non_ed25519_never_accepted :
  forall on_curve verify kb m,
    decode_keymsg kb = Some m -> k_type m <> 1 ->
    (forall pb pl rs d p, decode_payload pb = Some pl -> p_key pl = Some kb ->
       accept on_curve verify pb rs d <> Accept p) /\
    (forall l sg spki e p, In (XP2p (Some (kb, sg))) l -> tls_accept on_curve verify l spki e <> Accept p).
Proof. exact non_ed25519_never_accepted. Qed.
Print Assumptions C01_non_ed25519_never_accepted.

(* under the single-message hypothesis: an extension made for one certificate key is refused in a
   certificate with another key *)
Theorem C01_tls_binding :
  forall (on_curve : bytes -> bool) (verify : bytes -> bytes -> bytes -> bool),
    (forall pk m m' sg, verify pk m sg = true -> verify pk m' sg = true -> m = m') ->
    forall l spki spki' e' p',
      tls_accept on_curve verify l spki' e' = Accept p' -> spki <> spki' ->
      forall e, tls_accept on_curve verify l spki e = Reject ETlsIssuer.
Proof. exact tls_binding. Qed.
Print Assumptions C01_tls_binding.

(* ---- every caller of the identity check, and the transport manager behind them ---- *)
(* `dial_outcome t addr_peer dialed ev`: a connection dialed through the manager on transport t,
   `addr_peer` the /p2p part of the address handed to the transport (TCP: optional; WebSocket and
   QUIC refuse an address without it; WebRTC cannot dial), `dialed` the peer the manager recorded in
   pending_connections, `ev` what the remote presented (Noise payload + static key, or certificate
   extensions + SPKI).  On EVERY transport an accepted connection is to the dialed peer and rests on
   authentic evidence: the transport compares, and where it does not (TCP, address without /p2p)
   TransportManager::on_connection_established does *)
Theorem C01_every_dial_checked :
  forall on_curve verify t addr_peer dialed ev p,
    dial_outcome on_curve verify t addr_peer dialed ev = Some (Accept p) ->
    p = dialed /\ authentic on_curve verify ev p.
Proof. exact every_dial_checked. Qed.
Print Assumptions C01_every_dial_checked.

(* when the address names the dialed peer (the manager dials only such addresses) the transport's
   own comparison decides and the manager's changes nothing; without /p2p on TCP the transport
   accepts whoever authenticates and the manager refuses the connection *)
Theorem C01_transport_and_manager_checks :
  forall on_curve verify,
    (forall t dialed ev, t <> TWebRtc ->
       dial_outcome on_curve verify t (Some dialed) dialed ev =
       transport_verdict on_curve verify t (Some dialed) ev) /\
    (forall pb rs p dialed,
       verify_identity on_curve verify pb rs = Accept p -> dialed <> p ->
       transport_verdict on_curve verify TTcp None (EvNoise pb rs) = Some (Accept p) /\
       dial_outcome on_curve verify TTcp None dialed (EvNoise pb rs) = Some (Reject EMismatch)) /\
    (forall t addr_peer dialed ev r,
       dial_outcome on_curve verify t addr_peer dialed ev = Some r ->
       t = TTcp \/ (addr_peer <> None /\ (t = TWebSocket \/ t = TQuic))).
Proof.
  intros oc vf. split; [|split].
  - exact (transport_check_suffices oc vf).
  - exact (tcp_without_p2p_caught_by_manager oc vf).
  - exact (no_dial_without_expectation oc vf).
Qed.
Print Assumptions C01_transport_and_manager_checks.

(* inbound connections (all four transports; WebRTC only has these): whoever is reported presented
   authentic evidence *)
Theorem C01_inbound_authentic :
  forall on_curve verify t ev p,
    inbound_outcome on_curve verify t ev = Some (Accept p) -> authentic on_curve verify ev p.
Proof. exact inbound_authentic. Qed.
Print Assumptions C01_inbound_authentic.

(* ---- framing of the handshake messages: what first_message / second_message write is read back
   exactly by read_handshake_message and nothing behind it is touched (no read-ahead); the
   listener's handshake consumes exactly its two frames, early data stays on the stream ---- *)
Theorem C01_handshake_framing :
  (forall b rest, len b < 65536 -> read_frame (frame b ++ rest) = Some (b, rest)) /\
  (forall s b r, bytes_ok s = true -> read_frame s = Some (b, r) -> s = frame b ++ r /\ len b < 65536) /\
  (forall s m1 m3 rest, bytes_ok s = true -> listener_reads s = Some (m1, m3, rest) ->
     s = frame m1 ++ frame m3 ++ rest) /\
  (forall m1 m3 rest, len m1 < 65536 -> len m3 < 65536 ->
     listener_reads (frame m1 ++ frame m3 ++ rest) = Some (m1, m3, rest)).
Proof.
  split; [exact read_frame_frame|]. split; [exact read_frame_exact|].
  split; [exact listener_reads_exact|exact listener_reads_frames].
Qed.
Print Assumptions C01_handshake_framing.

(* the identity payload of an honest node has 104 bytes whatever the keys: messages of 32, 200 and
   168 bytes, inside the write buffers (256 / 2048) and the u16 length prefix *)
Theorem C01_honest_message_sizes :
  forall sign idk static,
    length idk = 32%nat -> length (sign idk (DOMAIN ++ static)) = 64%nat ->
    length (honest_payload sign idk static) = 104%nat /\
    msg1_len = 32 /\ msg2_len 104 = 200 /\ msg3_len 104 = 168.
Proof.
  intros sign idk static Lk Ls. split; [exact (honest_payload_length sign idk static Lk Ls)|].
  repeat split; reflexivity.
Qed.
Print Assumptions C01_honest_message_sizes.

(* ---- binding to the static key of this very session ---- *)
(* under the single-message hypothesis on `verify` (the unforgeability idealisation, listed in
   the trusted base; it is not a fact about ed25519): a payload accepted for one static key is
   refused, with BadSignature, for every other static key *)
Theorem C01_binding :
  forall (on_curve : bytes -> bool) (verify : bytes -> bytes -> bytes -> bool),
    (forall pk m m' sg, verify pk m sg = true -> verify pk m' sg = true -> m = m') ->
    forall pb rs rs' d' p',
      accept on_curve verify pb rs' d' = Accept p' -> rs <> rs' ->
      forall d, accept on_curve verify pb rs d = Reject ESigBad.
Proof. exact binding. Qed.
Print Assumptions C01_binding.

(* the hypothesis cannot be dropped: with a verifier that accepts one signature for every message
   (as non-strict ed25519 does for the small-order key 01 00 .. 00) one payload is accepted under
   two different static keys *)
Theorem C01_binding_needs_hypothesis :
  exists rs rs' p,
    rs <> rs' /\
    accept (fun _ => true) weak_verify weak_payload rs None = Accept p /\
    accept (fun _ => true) weak_verify weak_payload rs' None = Accept p.
Proof. exact binding_needs_hypothesis. Qed.
Print Assumptions C01_binding_needs_hypothesis.

(* ---- the reported id is the id of the key that verified, and of no other key ---- *)
Theorem C01_accepted_id_determines_key :
  forall on_curve verify pb1 pb2 rs1 rs2 d1 d2 p,
    accept on_curve verify pb1 rs1 d1 = Accept p -> accept on_curve verify pb2 rs2 d2 = Accept p ->
    exists k pl1 pl2 kb1 kb2,
      decode_payload pb1 = Some pl1 /\ p_key pl1 = Some kb1 /\ decode_pubkey on_curve kb1 = KeyOk k /\
      decode_payload pb2 = Some pl2 /\ p_key pl2 = Some kb2 /\ decode_pubkey on_curve kb2 = KeyOk k.
Proof. exact accepted_id_determines_key. Qed.
Print Assumptions C01_accepted_id_determines_key.

(* the verdict depends on the decoded fields only, not on how the payload was encoded *)
Theorem C01_verdict_from_decoded_fields :
  forall on_curve verify pb1 pb2 rs dialed pl1 pl2,
    decode_payload pb1 = Some pl1 -> decode_payload pb2 = Some pl2 ->
    p_key pl1 = p_key pl2 -> p_sig pl1 = p_sig pl2 ->
    accept on_curve verify pb1 rs dialed = accept on_curve verify pb2 rs dialed.
Proof. exact verdict_from_decoded_fields. Qed.
Print Assumptions C01_verdict_from_decoded_fields.

(* ---- non-vacuity: what an honest litep2p node sends is accepted ---- *)
Theorem C01_honest_accept :
  forall on_curve verify k sg rs,
    length k = 32%nat -> on_curve k = true -> len sg < 128 ->
    verify k (DOMAIN ++ rs) sg = true ->
    accept on_curve verify (encode_payload (V.C18.Model.encode_ed25519 k) sg) rs None
    = Accept (peer_id_of_key k).
Proof. exact honest_accept. Qed.
Print Assumptions C01_honest_accept.

Example C01_domain_value :
  DOMAIN = [110; 111; 105; 115; 101; 45; 108; 105; 98; 112; 50; 112; 45; 115; 116; 97; 116; 105;
            99; 45; 107; 101; 121; 58].
Proof. vm_compute. reflexivity. Qed.

(* ---- the fuel that makes the decoders structurally recursive never runs out: every larger
   fuel gives the same result, so `None` always stands for a prost decode error ---- *)
Theorem C01_decoder_fuel_adequate :
  forall (l : bytes) (f s : nat),
    (fuel_for l <= f)%nat -> (fuel_for l <= s)%nat ->
    dec_payload f s (mkPayload None None) l = decode_payload l /\
    dec_keymsg f s (mkKeyMsg 0 []) l = decode_keymsg l.
Proof.
  intros l f s F S. split; [exact (decode_payload_fuel l f s F S) | exact (decode_keymsg_fuel l f s F S)].
Qed.
Print Assumptions C01_decoder_fuel_adequate.

(* ---- transcript layer (idealised) ---- *)
(* dialer: if it accepts, messages 1 and 2 were delivered untouched and its verdict is the
   decision layer's verdict on the listener's genuine payload and genuine static key *)
Theorem C01_transcript_dialer_partial :
  forall on_curve verify (H : list item -> bytes) (KDF : list bytes -> bytes)
         (pubk : N -> bytes) (dh : N -> bytes -> bytes),
    (forall a b, H a = H b -> a = b) ->
    forall D L a p,
      no_forgery on_curve verify H KDF pubk dh D L a ->
      snd (run_d on_curve verify H KDF pubk dh D a) = OAccept p ->
      a1 a = DMsg (d_msg1 pubk D) /\
      a2 a = DMsg (l_msg2 H KDF pubk dh L (d_msg1 pubk D)) /\
      check_dialed (dialed_of D) (verify_identity on_curve verify (pay L) (pubk (sta L))) = Accept p.
Proof. intros oc vf H KDF pubk dh Hinj D L a p. exact (dialer_verdict oc vf H KDF pubk dh Hinj D L a p). Qed.
Print Assumptions C01_transcript_dialer_partial.

(* listener (it finishes last): if it accepts, all three messages were delivered untouched and
   its verdict is the decision layer's verdict on the dialer's genuine payload and static key *)
Theorem C01_transcript_listener_partial :
  forall on_curve verify (H : list item -> bytes) (KDF : list bytes -> bytes)
         (pubk : N -> bytes) (dh : N -> bytes -> bytes),
    (forall a b, H a = H b -> a = b) ->
    forall D L a p,
      no_forgery on_curve verify H KDF pubk dh D L a ->
      run_l on_curve verify H KDF pubk dh L a = OAccept p ->
      let m2 := l_msg2 H KDF pubk dh L (d_msg1 pubk D) in
      a1 a = DMsg (d_msg1 pubk D) /\ a2 a = DMsg m2 /\
      a3 a = DMsg (mkM3 (d_cs3 H KDF pubk dh D m2 (pubk (sta L)))
                        (d_cp3 H KDF pubk dh D m2 (pubk (sta L)))) /\
      check_dialed (dialed_of L) (verify_identity on_curve verify (pay D) (pubk (sta D))) = Accept p.
Proof. intros oc vf H KDF pubk dh Hinj D L a p. exact (listener_verdict oc vf H KDF pubk dh Hinj D L a p). Qed.
Print Assumptions C01_transcript_listener_partial.

(* the layers composed: whoever is accepted (as peer p) presented in its genuine payload a key k
   with id p that verifies a signature over STATIC_KEY_DOMAIN ++ its genuine static key of this
   very session, and p is the dialed peer if one was dialed *)
Theorem C01_transcript_identity_partial :
  forall on_curve verify (H : list item -> bytes) (KDF : list bytes -> bytes)
         (pubk : N -> bytes) (dh : N -> bytes -> bytes),
    (forall a b, H a = H b -> a = b) ->
    forall D L a p,
      no_forgery on_curve verify H KDF pubk dh D L a ->
      (snd (run_d on_curve verify H KDF pubk dh D a) = OAccept p ->
       exists pl kb sg k,
         decode_payload (pay L) = Some pl /\ p_key pl = Some kb /\ p_sig pl = Some sg /\
         decode_pubkey on_curve kb = KeyOk k /\ verify k (DOMAIN ++ pubk (sta L)) sg = true /\
         p = peer_id_of_key k /\ (dialed_of D = None \/ dialed_of D = Some p)) /\
      (run_l on_curve verify H KDF pubk dh L a = OAccept p ->
       exists pl kb sg k,
         decode_payload (pay D) = Some pl /\ p_key pl = Some kb /\ p_sig pl = Some sg /\
         decode_pubkey on_curve kb = KeyOk k /\ verify k (DOMAIN ++ pubk (sta D)) sg = true /\
         p = peer_id_of_key k /\ (dialed_of L = None \/ dialed_of L = Some p)).
Proof.
  intros oc vf H KDF pubk dh Hinj D L a p NF. split.
  - exact (dialer_identity oc vf H KDF pubk dh Hinj D L a p NF).
  - exact (listener_identity oc vf H KDF pubk dh Hinj D L a p NF).
Qed.
Print Assumptions C01_transcript_identity_partial.

(* a replaced message never yields a connection *)
Theorem C01_transcript_tamper_partial :
  forall on_curve verify (H : list item -> bytes) (KDF : list bytes -> bytes)
         (pubk : N -> bytes) (dh : N -> bytes -> bytes),
    (forall a b, H a = H b -> a = b) ->
    forall D L a,
      no_forgery on_curve verify H KDF pubk dh D L a ->
      let m1 := d_msg1 pubk D in
      let m2 := l_msg2 H KDF pubk dh L m1 in
      let m3 := mkM3 (d_cs3 H KDF pubk dh D m2 (pubk (sta L))) (d_cp3 H KDF pubk dh D m2 (pubk (sta L))) in
      (a1 a <> DMsg m1 \/ a2 a <> DMsg m2 ->
         forall p, snd (run_d on_curve verify H KDF pubk dh D a) <> OAccept p) /\
      (a1 a <> DMsg m1 \/ a2 a <> DMsg m2 \/ a3 a <> DMsg m3 ->
         forall p, run_l on_curve verify H KDF pubk dh L a <> OAccept p).
Proof.
  intros oc vf H KDF pubk dh Hinj D L a NF. split.
  - exact (tampered_dialer_refuses oc vf H KDF pubk dh Hinj D L a NF).
  - exact (tampered_listener_refuses oc vf H KDF pubk dh Hinj D L a NF).
Qed.
Print Assumptions C01_transcript_tamper_partial.

(* non-vacuity: when everything is forwarded (and DH commutes) both sides reach exactly the
   decision layer's verdict on the other's payload, and forwarding is not a forgery *)
Theorem C01_transcript_honest_partial :
  forall on_curve verify (H : list item -> bytes) (KDF : list bytes -> bytes)
         (pubk : N -> bytes) (dh : N -> bytes -> bytes),
    (forall x y, dh x (pubk y) = dh y (pubk x)) ->
    forall D L, pro D = pro L ->
      let a := forward on_curve verify H KDF pubk dh D L in
      no_forgery on_curve verify H KDF pubk dh D L a /\
      snd (run_d on_curve verify H KDF pubk dh D a) =
        outcome_of (check_dialed (dialed_of D) (verify_identity on_curve verify (pay L) (pubk (sta L)))) /\
      (decode_payload (pay L) <> None ->
       run_l on_curve verify H KDF pubk dh L a =
        outcome_of (check_dialed (dialed_of L) (verify_identity on_curve verify (pay D) (pubk (sta D))))).
Proof.
  intros oc vf H KDF pubk dh comm D L EP. split; [|split].
  - exact (forward_no_forgery oc vf H KDF pubk dh D L).
  - exact (honest_dialer oc vf H KDF pubk dh comm D L EP).
  - exact (honest_listener oc vf H KDF pubk dh comm D L EP).
Qed.
Print Assumptions C01_transcript_honest_partial.

(* the handshake hash used in the runs is injective: the hypothesis is satisfiable *)
Theorem C01_transcript_hash_instance :
  forall a b, H_inst a = H_inst b -> a = b.
Proof. exact H_inst_inj. Qed.
Print Assumptions C01_transcript_hash_instance.

(* ---- the prologue (WebRTC: "libp2p-webrtc-noise:" ++ the two DTLS fingerprints) ---- *)
(* a handshake run under one pair of fingerprints is rejected under another: with different
   prologues neither side accepts, whatever the attacker delivers; and whoever accepts used the
   same prologue as its peer *)
Theorem C01_webrtc_prologue_binds :
  forall on_curve verify (H : list item -> bytes) (KDF : list bytes -> bytes)
         (pubk : N -> bytes) (dh : N -> bytes -> bytes),
    (forall a b, H a = H b -> a = b) ->
    forall D L a,
      no_forgery on_curve verify H KDF pubk dh D L a ->
      (pro D <> pro L ->
       (forall p, snd (run_d on_curve verify H KDF pubk dh D a) <> OAccept p) /\
       (forall p, run_l on_curve verify H KDF pubk dh L a <> OAccept p)) /\
      (forall p, snd (run_d on_curve verify H KDF pubk dh D a) = OAccept p -> pro D = pro L) /\
      (forall p, run_l on_curve verify H KDF pubk dh L a = OAccept p -> pro D = pro L).
Proof.
  intros oc vf H KDF pubk dh Hinj D L a NF. split; [|split].
  - exact (prologue_binds oc vf H KDF pubk dh Hinj D L a NF).
  - intros p. exact (dialer_prologue oc vf H KDF pubk dh Hinj D L a p NF).
  - intros p O. exact (proj1 (listener_prologue oc vf H KDF pubk dh Hinj D L a p NF O)).
Qed.
Print Assumptions C01_webrtc_prologue_binds.

(* ---- the order of events in XX: who learns what, and when ---- *)
(* (i) the dialer finishes first: with message 3 withheld the dialer has already accepted the
   genuine listener while the listener ends with an I/O error (so "a connection" means both ends);
   (ii) the listener accepts only after the dialer got as far as writing message 3;
   (iii) the listener's message 2 is the same for all dialers that sent the same message 1: when it
   reveals its identity it knows nothing about the dialer but an ephemeral key;
   (iv) the dialer writes message 3 (its own identity payload) before it checks the listener's
   signature: once the payload of message 2 decodes, message 3 is sent whatever the verdict *)
Theorem C01_xx_order :
  forall on_curve verify (H : list item -> bytes) (KDF : list bytes -> bytes)
         (pubk : N -> bytes) (dh : N -> bytes -> bytes),
    (forall a b, H a = H b -> a = b) ->
    (forall x y, dh x (pubk y) = dh y (pubk x)) ->
    forall D L,
      (pro D = pro L ->
       let a := withhold3 H KDF pubk dh D L in
       no_forgery on_curve verify H KDF pubk dh D L a /\
       snd (run_d on_curve verify H KDF pubk dh D a) =
         outcome_of (check_dialed (dialed_of D) (verify_identity on_curve verify (pay L) (pubk (sta L)))) /\
       run_l on_curve verify H KDF pubk dh L a = OIo) /\
      (forall a p, no_forgery on_curve verify H KDF pubk dh D L a ->
         run_l on_curve verify H KDF pubk dh L a = OAccept p ->
         fst (run_d on_curve verify H KDF pubk dh D a) <> None) /\
      (forall D', d_msg1 pubk D = d_msg1 pubk D' ->
         l_msg2 H KDF pubk dh L (d_msg1 pubk D) = l_msg2 H KDF pubk dh L (d_msg1 pubk D')) /\
      (forall m s pl pp,
         dec (KDF (d_ks1 dh D m)) (H (d_tr1 pubk D m)) (m2_s m) = Some s ->
         dec (KDF (d_ks2 dh D m s)) (H (d_tr2 pubk D m)) (m2_p m) = Some pl ->
         decode_payload pl = Some pp ->
         d_run on_curve verify H KDF pubk dh D (DMsg m) =
           (Some (mkM3 (d_cs3 H KDF pubk dh D m s) (d_cp3 H KDF pubk dh D m s)),
            outcome_of (check_dialed (dialed_of D) (verify_payload on_curve verify pp s)))).
Proof.
  intros oc vf H KDF pubk dh Hinj comm D L. split; [|split; [|split]].
  - exact (dialer_finishes_first oc vf H KDF pubk dh comm D L).
  - intros a p NF O. exact (proj2 (listener_prologue oc vf H KDF pubk dh Hinj D L a p NF O)).
  - intros D'. exact (listener_answer_ignores_identity H KDF pubk dh D D' L).
  - exact (dialer_writes_3_before_verdict oc vf H KDF pubk dh D).
Qed.
Print Assumptions C01_xx_order.

(* ---- early data: what the dialer sends before the listener has authenticated it ---- *)
(* composed with C02's reader: if the listener's handshake does not accept, no byte reaches its
   application; and in every case nothing of or after the first non-authentic transport frame
   behind message 3 is delivered (C02_read_tamper) *)
Theorem C01_early_data :
  forall on_curve verify (H : list item -> bytes) (KDF : list bytes -> bytes)
         (pubk : N -> bytes) (dh : N -> bytes -> bytes)
         (L : party) (a : attack) (e : V.C02.Model.renv) (bufs sc : list N),
    ((forall p, run_l on_curve verify H KDF pubk dh L a <> OAccept p) ->
     listener_app_bytes on_curve verify H KDF pubk dh L a e bufs sc = 0) /\
    (forall j, V.C02.Proofs.wf_env e -> V.C02.Proofs.not_auth e j ->
     listener_app_bytes on_curve verify H KDF pubk dh L a e bufs sc
       <= V.C02.Model.pstart (V.C02.Model.e_plains e) j).
Proof.
  intros oc vf H KDF pubk dh L a e bufs sc. split.
  - exact (early_data_dropped oc vf H KDF pubk dh L a e bufs sc).
  - intros j. exact (early_data_authentic oc vf H KDF pubk dh L a e bufs sc j).
Qed.
Print Assumptions C01_early_data.

(* ---- Dolev-Yao model: all interleavings of any number of honest dialer/listener sessions with an
   active attacker who owns any set `asec` of DH secrets and any set `bad` of identity keys;
   `pro` assigns a prologue to every session (indexed by its ephemeral secret), arbitrarily, so
   sessions may disagree about it (Symbolic.v) ---- *)
(* the attacker's knowledge never contains anything but public terms (the invariant behind all
   secrecy statements): in particular no secret of an honest session, no identity secret of an
   uncompromised agent, no DH output of two honest secrets and no key that mixes one *)
Theorem C01_dy_attacker_knows_only_public :
  forall (pro : N -> list N) (asec bad : N -> Prop) tr t,
    DY.valid pro asec bad tr -> DY.knows asec bad tr t -> DY.pub asec bad t.
Proof. exact DY.knows_only_public. Qed.
Print Assumptions C01_dy_attacker_knows_only_public.

(* the attacker's knowledge only grows with the trace *)
Theorem C01_dy_knowledge_monotone :
  forall (asec bad : N -> Prop) tr tr' t,
    incl tr tr' -> DY.knows asec bad tr t -> DY.knows asec bad tr' t.
Proof. exact DY.knows_mono. Qed.
Print Assumptions C01_dy_knowledge_monotone.

Theorem C01_dy_secrets_never_leak :
  forall (pro : N -> list N) (asec bad : N -> Prop) tr,
    DY.valid pro asec bad tr ->
    (forall a e s, In (DY.NewD a e s) tr \/ In (DY.NewL a e s) tr ->
       ~ DY.knows asec bad tr (DY.TSk e) /\ ~ DY.knows asec bad tr (DY.TSk s)) /\
    (forall a, ~ bad a -> ~ DY.knows asec bad tr (DY.TIdSk a)).
Proof.
  intros pro asec bad tr V. split.
  - intros a e s. exact (DY.session_secrets_never_leak pro asec bad tr a e s V).
  - intros a. exact (DY.identity_secret_never_leaks pro asec bad tr a V).
Qed.
Print Assumptions C01_dy_secrets_never_leak.

(* authentication, standard form: if an honest dialer session completes believing that it talks
   to P then, unless P's identity key is compromised, P signed in one of its honest sessions the
   very static key g^rs that this session's key is bound to; the key mixes g^(e*rs), whose
   exponents belong to this session and to that session of P, and the attacker never knows it *)
Theorem C01_dy_dialer_authenticates :
  forall (pro : N -> list N) (asec bad : N -> Prop) tr a e s P rs K,
    DY.valid pro asec bad tr -> In (DY.AcceptD a e s P rs K) tr -> ~ bad P ->
    In (DY.Signed P (DY.signed_part rs)) tr /\
    (exists e', In (DY.NewD P e' rs) tr \/ In (DY.NewL P e' rs) tr) /\
    ~ asec e /\ ~ asec rs /\
    (exists k y, K = DY.TMix (DY.TMix k (DY.dh e rs)) (DY.dh s y)) /\
    ~ DY.knows asec bad tr K.
Proof. exact DY.dialer_authenticates. Qed.
Print Assumptions C01_dy_dialer_authenticates.

Theorem C01_dy_listener_authenticates :
  forall (pro : N -> list N) (asec bad : N -> Prop) tr a e s P rs K,
    DY.valid pro asec bad tr -> In (DY.AcceptL a e s P rs K) tr -> ~ bad P ->
    In (DY.Signed P (DY.signed_part rs)) tr /\
    (exists e', In (DY.NewD P e' rs) tr \/ In (DY.NewL P e' rs) tr) /\
    ~ asec e /\ ~ asec rs /\
    (exists k, K = DY.TMix k (DY.dh e rs)) /\
    ~ DY.knows asec bad tr K.
Proof. exact DY.listener_authenticates. Qed.
Print Assumptions C01_dy_listener_authenticates.

(* AGREEMENT ON THE TRANSCRIPT, for any number of interleaved sessions and WITHOUT a no-forgery
   hypothesis (the attacker's inability to make a ciphertext under a key it does not know is derived
   from the closure rules).  Dialer: the ephemeral key g^y and the static key g^rs it received
   belong to ONE listener session of the uncompromised P it believes in, that session HAS WRITTEN
   message 2 in answer to this very dialer's ephemeral key (event Answered), it was created with the
   SAME PROLOGUE (WebRTC: the same pair of DTLS fingerprints), and the message 2 the dialer accepted
   is, component for component, that message *)
Theorem C01_dy_dialer_agreement :
  forall (pro : N -> list N) (asec bad : N -> Prop) tr a e s P rs K,
    DY.valid pro asec bad tr -> In (DY.AcceptD a e s P rs K) tr -> ~ bad P ->
    exists y, K = DY.d_key e s y rs /\ In (DY.NewL P y rs) tr /\ In (DY.Answered P y rs e) tr /\
              pro e = pro y /\ DY.msg2_expected pro e y rs P = DY.msg2 pro P y rs e.
Proof. exact DY.dialer_agreement. Qed.
Print Assumptions C01_dy_dialer_agreement.

(* Listener (it finishes last): a dialer session of the uncompromised P it believes in, with the
   ephemeral key this listener answered and the static key it received, has COMPLETED, accepting
   exactly this listener (agent a, static key g^s) with the very same session key, and was
   created with the same prologue: mutual, injective agreement *)
Theorem C01_dy_listener_agreement :
  forall (pro : N -> list N) (asec bad : N -> Prop) tr a e s P rs K,
    DY.valid pro asec bad tr -> In (DY.AcceptL a e s P rs K) tr -> ~ bad P ->
    exists y, K = DY.l_key e s y rs /\ In (DY.NewD P y rs) tr /\ In (DY.AcceptD P y rs a s K) tr /\
              pro e = pro y.
Proof. exact DY.listener_agreement. Qed.
Print Assumptions C01_dy_listener_agreement.

(* the session key is shared with the holder of the authenticated static key and with nobody
   else: the attacker never knows it (above), and an honest listener session that holds the same
   key as an honest dialer session is the session owning the static key the dialer authenticated,
   authenticated the dialer's static key in turn, and each is the agent the other believes in *)
Theorem C01_dy_matching_sessions :
  forall (pro : N -> list N) (asec bad : N -> Prop) tr a e s P rs a' e' s' P' rs' K,
    DY.valid pro asec bad tr -> In (DY.AcceptD a e s P rs K) tr -> In (DY.AcceptL a' e' s' P' rs' K) tr ->
    rs = s' /\ rs' = s /\ (~ bad P -> a' = P) /\ (~ bad P' -> a = P').
Proof. exact DY.matching_sessions. Qed.
Print Assumptions C01_dy_matching_sessions.

(* every secret belongs to exactly one honest session (freshness) *)
Theorem C01_dy_secret_owner_unique :
  forall (pro : N -> list N) (asec bad : N -> Prop) tr ev1 ev2 x,
    DY.valid pro asec bad tr -> In ev1 tr -> In ev2 tr -> In x (DY.names ev1) -> In x (DY.names ev2) -> ev1 = ev2.
Proof. exact DY.owner_unique. Qed.
Print Assumptions C01_dy_secret_owner_unique.

(* non-vacuity: the honest run is a valid trace in which both sessions accept each other with the
   same key, nobody being compromised — for every prologue assignment that gives the two sessions
   the same prologue *)
Theorem C01_dy_honest_run :
  forall pro : N -> list N, pro 1 = pro 3 ->
  DY.valid pro DY.nobody DY.nobody (DY.honest_trace pro) /\
  In (DY.AcceptD 10 1 2 20 4 (DY.d_key 1 2 3 4)) (DY.honest_trace pro) /\
  In (DY.AcceptL 20 3 4 10 2 (DY.l_key 3 4 1 2)) (DY.honest_trace pro) /\
  DY.d_key 1 2 3 4 = DY.l_key 3 4 1 2.
Proof.
  intros pro EP.
  split; [exact (DY.honest_trace_valid pro EP)|]. split; [right; left; reflexivity|].
  split; [left; reflexivity|reflexivity].
Qed.
Print Assumptions C01_dy_honest_run.
