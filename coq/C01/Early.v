(* C01 — data sent by the dialer before the listener has authenticated it ("early data"):
   composition of the handshake model with C02's reader model.

   With Noise XX the dialer returns from handshake() after WRITING message 3 and may at once
   write transport frames (litep2p does: the multistream-select header of the yamux negotiation).
   These frames travel behind message 3.  On the listener, handshake() reads message 3 with two
   exact reads (length prefix, body) on the raw stream — it never reads ahead — and only when the
   identity check has succeeded is a NoiseSocket built over the same stream; the application can
   read only through that socket.  Hence the bytes an application of the listener ever sees are:
   nothing if the handshake fails, and otherwise what C02's reader delivers from the frames that
   follow message 3. *)
From Coq Require Import List NArith Bool Lia.
Require V.C02.Model V.C02.Proofs.
From V.C01 Require Import Model.
Import ListNotations.
Open Scope N_scope.

Section Early.
  Variable on_curve : bytes -> bool.
  Variable verify : bytes -> bytes -> bytes -> bool.
  Variable H : list item -> bytes.
  Variable KDF : list bytes -> bytes.
  Variable pubk : N -> bytes.
  Variable dh : N -> bytes -> bytes.

  (* number of plaintext bytes delivered to the listener's application; `e` is C02's description
     of what follows message 3 on the wire (any wire: authentic frames, tampered, garbage),
     `bufs` / `sc` the application's read sizes and the carrier's chunking *)
  Definition listener_app_bytes (L : party) (a : attack)
             (e : V.C02.Model.renv) (bufs sc : list N) : N :=
    match run_l on_curve verify H KDF pubk dh L a with
    | OAccept _ =>
        V.C02.Proofs.delivered
          (V.C02.Model.run_reader e bufs sc (V.C02.Model.reader_init (V.C02.Model.e_cfg e)))
    | _ => 0
    end.

  (* the handshake fails: nothing the dialer sent early reaches the application *)
  Lemma early_data_dropped L a e bufs sc :
    (forall p, run_l on_curve verify H KDF pubk dh L a <> OAccept p) ->
    listener_app_bytes L a e bufs sc = 0.
  Proof.
    intros NA. unfold listener_app_bytes.
    destruct (run_l on_curve verify H KDF pubk dh L a) as [p| | |x]; try reflexivity.
    exfalso. exact (NA p eq_refl).
  Qed.

  (* in every case: nothing of or after the first non-authentic frame is delivered *)
  Lemma early_data_authentic L a e bufs sc j :
    V.C02.Proofs.wf_env e -> V.C02.Proofs.not_auth e j ->
    listener_app_bytes L a e bufs sc <= V.C02.Model.pstart (V.C02.Model.e_plains e) j.
  Proof.
    intros W NA. unfold listener_app_bytes.
    destruct (run_l on_curve verify H KDF pubk dh L a); try lia.
    exact (V.C02.Proofs.read_tamper e j W NA bufs sc).
  Qed.
End Early.
