(* C01 — lemmas about the identity check of the Noise handshake. *)
From Coq Require Import List Arith NArith Bool Lia.
From Coq Require Import ZifyBool ZifyNat ZifyN.
From V.gen Require Consts.
From V.common Require Import Varint.
Require V.C18.Model V.C18.Proofs.
From V.C01 Require Import Model.
Import ListNotations.
Open Scope N_scope.

Arguments N.add : simpl never.
Arguments N.mul : simpl never.
Arguments N.sub : simpl never.
Arguments N.eqb : simpl never.
Arguments N.ltb : simpl never.
Arguments N.leb : simpl never.
Arguments N.div : simpl never.
Arguments N.modulo : simpl never.
Arguments N.pow : simpl never.
Arguments N.of_nat : simpl never.

(* ------------------------------------------------------------------ equality tests *)
Lemma beq_eq a : forall b, beq a b = true -> a = b.
Proof.
  induction a as [|x a IH]; intros [|y b]; cbn [beq]; try discriminate; [reflexivity|].
  intros E. apply andb_prop in E as [E1 E2]. apply N.eqb_eq in E1. subst y.
  f_equal. apply IH. exact E2.
Qed.

Lemma beq_refl a : beq a a = true.
Proof. induction a as [|x a IH]; cbn [beq]; [reflexivity|]. rewrite N.eqb_refl, IH. reflexivity. Qed.

Lemma beq_neq a b : a <> b -> beq a b = false.
Proof. intros N. destruct (beq a b) eqn:E; [|reflexivity]. apply beq_eq in E. contradiction. Qed.

Lemma pid_eqb_eq a b : pid_eqb a b = true -> a = b.
Proof.
  destruct a as [ca da], b as [cb db]. unfold pid_eqb. cbn [V.C18.Model.code V.C18.Model.digest].
  intros E. apply andb_prop in E as [E1 E2]. apply N.eqb_eq in E1. apply beq_eq in E2. congruence.
Qed.

Lemma pid_eqb_refl a : pid_eqb a a = true.
Proof. unfold pid_eqb. rewrite N.eqb_refl, beq_refl. reflexivity. Qed.

Lemma pid_eqb_neq a b : a <> b -> pid_eqb a b = false.
Proof. intros N. destruct (pid_eqb a b) eqn:E; [|reflexivity]. apply pid_eqb_eq in E. contradiction. Qed.

(* ------------------------------------------------------------------ decision layer *)
Section Decision.
  Variable on_curve : bytes -> bool.
  Variable verify : bytes -> bytes -> bytes -> bool.

  Notation decode_pubkey := (decode_pubkey on_curve).
  Notation verify_payload := (verify_payload on_curve verify).
  Notation verify_identity := (verify_identity on_curve verify).
  Notation accept := (accept on_curve verify).

  Lemma decode_pubkey_ok kb k :
    decode_pubkey kb = KeyOk k ->
    exists m, decode_keymsg kb = Some m /\ k_type m = 1 /\ k_data m = k /\
              length k = 32%nat /\ on_curve k = true.
  Proof.
    unfold Model.decode_pubkey. destruct (decode_keymsg kb) as [m|]; [|discriminate].
    destruct (k_type m =? 1) eqn:T; [|discriminate].
    destruct ((len (k_data m) =? 32) && on_curve (k_data m)) eqn:C; [|discriminate].
    intros [= <-]. apply andb_prop in C as [C1 C2]. exists m.
    repeat split; auto; [lia | unfold len in C1; lia].
  Qed.

  Lemma check_dialed_accept d r p :
    check_dialed d r = Accept p -> r = Accept p /\ (d = None \/ d = Some p).
  Proof.
    destruct r as [q|e]; cbn [check_dialed]; [|destruct d; discriminate].
    destruct d as [x|].
    - destruct (pid_eqb x q) eqn:E; [|discriminate]. intros [= <-].
      apply pid_eqb_eq in E. subst x. auto.
    - intros [= <-]. auto.
  Qed.

  (* soundness: the only way to accept *)
  Lemma accept_sound pb rs dialed p :
    accept pb rs dialed = Accept p ->
    exists pl kb sg k,
      decode_payload pb = Some pl /\ p_key pl = Some kb /\ p_sig pl = Some sg /\
      decode_pubkey kb = KeyOk k /\ verify k (DOMAIN ++ rs) sg = true /\
      p = peer_id_of_key k /\ (dialed = None \/ dialed = Some p).
  Proof.
    unfold Model.accept. intros A. apply check_dialed_accept in A as [A D].
    unfold Model.verify_identity in A. destruct (decode_payload pb) as [pl|]; [|discriminate].
    unfold Model.verify_payload in A.
    destruct (p_key pl) as [kb|] eqn:K; [|discriminate].
    destruct (decode_pubkey kb) as [k|e] eqn:DK; [|discriminate].
    destruct (p_sig pl) as [sg|] eqn:S; [|discriminate].
    destruct (verify k (DOMAIN ++ rs) sg) eqn:V; [|discriminate].
    injection A as <-. exists pl, kb, sg, k. repeat split; auto.
  Qed.

  (* and conversely *)
  Lemma accept_complete pb rs dialed pl kb sg k :
    decode_payload pb = Some pl -> p_key pl = Some kb -> p_sig pl = Some sg ->
    decode_pubkey kb = KeyOk k -> verify k (DOMAIN ++ rs) sg = true ->
    (dialed = None \/ dialed = Some (peer_id_of_key k)) ->
    accept pb rs dialed = Accept (peer_id_of_key k).
  Proof.
    intros P K S DK V D. unfold Model.accept, Model.verify_identity. rewrite P.
    unfold Model.verify_payload. rewrite K, DK, S, V.
    destruct D as [-> | ->]; cbn [check_dialed]; [reflexivity|]. rewrite pid_eqb_refl. reflexivity.
  Qed.

  (* one lemma per reason to refuse; each gives the specific error *)
  Lemma reject_payload_undecodable pb rs dialed :
    decode_payload pb = None -> accept pb rs dialed = Reject EPayload.
  Proof. intros P. unfold Model.accept, Model.verify_identity. rewrite P. destruct dialed; reflexivity. Qed.

  Lemma reject_key_missing pb rs dialed pl :
    decode_payload pb = Some pl -> p_key pl = None -> accept pb rs dialed = Reject EKeyMissing.
  Proof.
    intros P K. unfold Model.accept, Model.verify_identity, Model.verify_payload. rewrite P, K.
    destruct dialed; reflexivity.
  Qed.

  Lemma reject_key_undecodable pb rs dialed pl kb :
    decode_payload pb = Some pl -> p_key pl = Some kb -> decode_keymsg kb = None ->
    accept pb rs dialed = Reject EKeyProto.
  Proof.
    intros P K M. unfold Model.accept, Model.verify_identity, Model.verify_payload, Model.decode_pubkey.
    rewrite P, K, M. destruct dialed; reflexivity.
  Qed.

  Lemma reject_unknown_key_type pb rs dialed pl kb m :
    decode_payload pb = Some pl -> p_key pl = Some kb -> decode_keymsg kb = Some m ->
    k_type m <> 1 -> accept pb rs dialed = Reject EKeyType.
  Proof.
    intros P K M T. unfold Model.accept, Model.verify_identity, Model.verify_payload, Model.decode_pubkey.
    rewrite P, K, M. destruct (k_type m =? 1) eqn:E; [lia|]. destruct dialed; reflexivity.
  Qed.

  Lemma reject_wrong_key_length pb rs dialed pl kb m :
    decode_payload pb = Some pl -> p_key pl = Some kb -> decode_keymsg kb = Some m ->
    k_type m = 1 -> length (k_data m) <> 32%nat -> accept pb rs dialed = Reject EKeyInvalid.
  Proof.
    intros P K M T L. unfold Model.accept, Model.verify_identity, Model.verify_payload, Model.decode_pubkey.
    rewrite P, K, M, T. change (1 =? 1) with true. cbn iota.
    destruct (len (k_data m) =? 32) eqn:E; [unfold len in E; lia|]. cbn [andb].
    destruct dialed; reflexivity.
  Qed.

  Lemma reject_key_not_on_curve pb rs dialed pl kb m :
    decode_payload pb = Some pl -> p_key pl = Some kb -> decode_keymsg kb = Some m ->
    k_type m = 1 -> on_curve (k_data m) = false -> accept pb rs dialed = Reject EKeyInvalid.
  Proof.
    intros P K M T C. unfold Model.accept, Model.verify_identity, Model.verify_payload, Model.decode_pubkey.
    rewrite P, K, M, T, C. change (1 =? 1) with true. cbn iota. rewrite andb_false_r.
    destruct dialed; reflexivity.
  Qed.

  Lemma reject_sig_missing pb rs dialed pl kb k :
    decode_payload pb = Some pl -> p_key pl = Some kb -> decode_pubkey kb = KeyOk k ->
    p_sig pl = None -> accept pb rs dialed = Reject ESigMissing.
  Proof.
    intros P K DK S. unfold Model.accept, Model.verify_identity, Model.verify_payload.
    rewrite P, K, DK, S. destruct dialed; reflexivity.
  Qed.

  Lemma reject_bad_signature pb rs dialed pl kb k sg :
    decode_payload pb = Some pl -> p_key pl = Some kb -> decode_pubkey kb = KeyOk k ->
    p_sig pl = Some sg -> verify k (DOMAIN ++ rs) sg = false ->
    accept pb rs dialed = Reject ESigBad.
  Proof.
    intros P K DK S V. unfold Model.accept, Model.verify_identity, Model.verify_payload.
    rewrite P, K, DK, S, V. destruct dialed; reflexivity.
  Qed.

  Lemma reject_dialed_mismatch pb rs p q :
    verify_identity pb rs = Accept p -> q <> p -> accept pb rs (Some q) = Reject EMismatch.
  Proof.
    intros A N. unfold Model.accept. rewrite A. cbn [check_dialed].
    rewrite (pid_eqb_neq _ _ N). reflexivity.
  Qed.

  (* whatever is refused without a dialed expectation is refused with one *)
  Lemma reject_regardless_of_dialed pb rs e dialed :
    verify_identity pb rs = Reject e -> accept pb rs dialed = Reject e.
  Proof. intros A. unfold Model.accept. rewrite A. destruct dialed; reflexivity. Qed.

  (* acceptance never depends on anything but the decoded key and signature: two payloads
     that decode to the same fields get the same verdict (canonical or not) *)
  Lemma verdict_from_decoded_fields pb1 pb2 rs dialed pl1 pl2 :
    decode_payload pb1 = Some pl1 -> decode_payload pb2 = Some pl2 ->
    p_key pl1 = p_key pl2 -> p_sig pl1 = p_sig pl2 ->
    accept pb1 rs dialed = accept pb2 rs dialed.
  Proof.
    intros P1 P2 K S. unfold Model.accept, Model.verify_identity, Model.verify_payload.
    rewrite P1, P2, K, S. reflexivity.
  Qed.

  (* the reported id is a function of the decoded 32-byte key only, and determines it *)
  Lemma accepted_id_determines_key pb1 pb2 rs1 rs2 d1 d2 p :
    accept pb1 rs1 d1 = Accept p -> accept pb2 rs2 d2 = Accept p ->
    exists k pl1 pl2 kb1 kb2,
      decode_payload pb1 = Some pl1 /\ p_key pl1 = Some kb1 /\ decode_pubkey kb1 = KeyOk k /\
      decode_payload pb2 = Some pl2 /\ p_key pl2 = Some kb2 /\ decode_pubkey kb2 = KeyOk k.
  Proof.
    intros A1 A2.
    apply accept_sound in A1 as (pl1 & kb1 & sg1 & k1 & P1 & K1 & _ & DK1 & _ & E1 & _).
    apply accept_sound in A2 as (pl2 & kb2 & sg2 & k2 & P2 & K2 & _ & DK2 & _ & E2 & _).
    assert (k1 = k2) as <-.
    { destruct (decode_pubkey_ok _ _ DK1) as (_ & _ & _ & _ & L1 & _).
      destruct (decode_pubkey_ok _ _ DK2) as (_ & _ & _ & _ & L2 & _).
      apply (V.C18.Proofs.of_ed25519_injective [] [] k1 k2 L1 L2).
      unfold peer_id_of_key in E1, E2. congruence. }
    exists k1, pl1, pl2, kb1, kb2. repeat split; assumption.
  Qed.

  (* ---------------- the TLS caller ---------------- *)
  Notation tls_scan := (tls_scan on_curve).
  Notation tls_verify := (tls_verify on_curve verify).
  Notation tls_accept := (tls_accept on_curve verify).

  (* once an extension was found, the rest of the list may only hold ignorable extensions *)
  Lemma tls_scan_found f l r :
    tls_scan (Some f) l = ScanOk r -> r = Some f /\ Forall ignorable l.
  Proof.
    induction l as [|x l IH]; cbn [Model.tls_scan].
    - intros [= <-]. auto.
    - destruct x as [c|[|]]; try discriminate.
      intros E. destruct (IH E) as [-> F]. split; [reflexivity|]. constructor; [reflexivity|exact F].
  Qed.

  Lemma tls_scan_found_complete f l : Forall ignorable l -> tls_scan (Some f) l = ScanOk (Some f).
  Proof.
    induction 1 as [|x l I F IH]; cbn [Model.tls_scan]; [reflexivity|]. rewrite I. exact IH.
  Qed.

  (* the scan succeeds with (k, sg) exactly on: ignorable*, one libp2p extension that decodes to
     (kb, sg) with kb admitted as k, ignorable* *)
  Lemma tls_scan_ok l k sg :
    tls_scan None l = ScanOk (Some (k, sg)) ->
    exists l1 kb l2,
      l = l1 ++ XP2p (Some (kb, sg)) :: l2 /\ Forall ignorable l1 /\ Forall ignorable l2 /\
      decode_pubkey kb = KeyOk k.
  Proof.
    induction l as [|x l IH]; cbn [Model.tls_scan]; [discriminate|].
    destruct x as [[[kb sg']|]|[|]]; try discriminate.
    - destruct (decode_pubkey kb) as [k'|e] eqn:DK; [|discriminate].
      intros E. destruct (tls_scan_found _ _ _ E) as [[= -> ->] F].
      exists [], kb, l. repeat split; auto.
    - intros E. destruct (IH E) as (l1 & kb & l2 & -> & F1 & F2 & DK).
      exists (XOther false :: l1), kb, l2. repeat split; auto. constructor; [reflexivity|exact F1].
  Qed.

  Lemma tls_scan_ok_complete l1 kb sg l2 k :
    Forall ignorable l1 -> Forall ignorable l2 -> decode_pubkey kb = KeyOk k ->
    tls_scan None (l1 ++ XP2p (Some (kb, sg)) :: l2) = ScanOk (Some (k, sg)).
  Proof.
    intros F1 F2 DK. induction F1 as [|x l I F IH]; cbn [app Model.tls_scan].
    - rewrite DK. apply tls_scan_found_complete. exact F2.
    - rewrite I. exact IH.
  Qed.

  Lemma tls_accept_sound l spki expected p :
    tls_accept l spki expected = Accept p ->
    exists l1 kb sg l2 k,
      l = l1 ++ XP2p (Some (kb, sg)) :: l2 /\ Forall ignorable l1 /\ Forall ignorable l2 /\
      decode_pubkey kb = KeyOk k /\
      verify k (TLS_PREFIX ++ spki) sg = true /\
      p = peer_id_of_key k /\ (expected = None \/ expected = Some p).
  Proof.
    unfold Model.tls_accept. intros A. apply check_dialed_accept in A as [A D].
    unfold Model.tls_verify in A.
    destruct (tls_scan None l) as [e|[[k sg]|]] eqn:S; try discriminate.
    destruct (verify k (TLS_PREFIX ++ spki) sg) eqn:V; [|discriminate].
    injection A as <-.
    destruct (tls_scan_ok _ _ _ S) as (l1 & kb & l2 & E & F1 & F2 & DK).
    exists l1, kb, sg, l2, k. repeat split; auto.
  Qed.

  Lemma tls_accept_complete l1 kb sg l2 k spki expected :
    Forall ignorable l1 -> Forall ignorable l2 ->
    decode_pubkey kb = KeyOk k -> verify k (TLS_PREFIX ++ spki) sg = true ->
    (expected = None \/ expected = Some (peer_id_of_key k)) ->
    tls_accept (l1 ++ XP2p (Some (kb, sg)) :: l2) spki expected = Accept (peer_id_of_key k).
  Proof.
    intros F1 F2 DK V D. unfold Model.tls_accept, Model.tls_verify.
    rewrite (tls_scan_ok_complete l1 kb sg l2 k F1 F2 DK), V.
    destruct D as [-> | ->]; cbn [check_dialed]; [reflexivity|]. rewrite pid_eqb_refl. reflexivity.
  Qed.

  Lemma tls_reject_mismatch l spki p q :
    tls_verify l spki = Accept p -> q <> p ->
    tls_accept l spki (Some q) = Reject EMismatch.
  Proof.
    intros A N. unfold Model.tls_accept. rewrite A. cbn [check_dialed]. rewrite (pid_eqb_neq _ _ N). reflexivity.
  Qed.

  (* a critical extension that is not libp2p's, anywhere in the certificate: never accepted *)
  Lemma tls_critical_refused l spki expected p :
    In (XOther true) l -> tls_accept l spki expected <> Accept p.
  Proof.
    intros I A. apply tls_accept_sound in A as (l1 & kb & sg & l2 & k & -> & F1 & F2 & _).
    apply in_app_or in I as [I|[I|I]]; try discriminate.
    - rewrite Forall_forall in F1. specialize (F1 _ I). discriminate.
    - rewrite Forall_forall in F2. specialize (F2 _ I). discriminate.
  Qed.

  (* two extensions with the libp2p OID, whatever they hold: never accepted *)
  Lemma tls_duplicate_refused la c1 lb c2 lc spki expected p :
    tls_accept (la ++ XP2p c1 :: lb ++ XP2p c2 :: lc) spki expected <> Accept p.
  Proof.
    intros A. apply tls_accept_sound in A as (l1 & kb & sg & l2 & k & E & F1 & F2 & _).
    assert (C : forall c l, Forall ignorable l -> ~ In (XP2p c) l).
    { intros c l F I. rewrite Forall_forall in F. specialize (F _ I). discriminate. }
    assert (I1 : In (XP2p c1) (l1 ++ XP2p (Some (kb, sg)) :: l2)).
    { rewrite <- E. apply in_or_app. right. left. reflexivity. }
    assert (I2 : In (XP2p c2) (l1 ++ XP2p (Some (kb, sg)) :: l2)).
    { rewrite <- E. apply in_or_app. right. right. apply in_or_app. right. left. reflexivity. }
    (* both occurrences must be the one admitted extension: count the libp2p extensions *)
    assert (Cnt : forall l, Forall ignorable l -> length (filter (fun x => match x with XP2p _ => true | _ => false end) l) = 0%nat).
    { intros l F. induction F as [|x l I F IH]; [reflexivity|]. rewrite I. cbn. exact IH. }
    pose (isp := fun x => match x with XP2p _ => true | XOther _ => false end).
    assert (L : length (filter isp (la ++ XP2p c1 :: lb ++ XP2p c2 :: lc)) =
                length (filter isp (l1 ++ XP2p (Some (kb, sg)) :: l2))) by (rewrite E; reflexivity).
    rewrite !filter_app in L. cbn [filter isp] in L. rewrite !filter_app in L. cbn [filter isp] in L.
    rewrite !app_length in L. cbn [length] in L. rewrite !app_length in L. cbn [length] in L.
    fold isp in Cnt. rewrite (Cnt l1 F1), (Cnt l2 F2) in L. lia.
  Qed.

  (* key types: whatever carries a key blob whose Type field is not Ed25519 (RSA = 0 with the cargo
     feature `rsa` off, Secp256k1 = 2, ECDSA = 3, anything else) is never accepted, on either path *)
  Lemma non_ed25519_never_accepted kb m :
    decode_keymsg kb = Some m -> k_type m <> 1 ->
    (forall pb pl rs d p, decode_payload pb = Some pl -> p_key pl = Some kb -> accept pb rs d <> Accept p) /\
    (forall l sg spki e p, In (XP2p (Some (kb, sg))) l -> tls_accept l spki e <> Accept p).
  Proof.
    intros M T. split.
    - intros pb pl rs d p P K A. rewrite (reject_unknown_key_type pb rs d pl kb m P K M T) in A. discriminate.
    - intros l sg spki e p I A.
      apply tls_accept_sound in A as (l1 & kb' & sg' & l2 & k & -> & F1 & F2 & DK & _).
      assert (E : kb' = kb).
      { apply in_app_or in I as [I|[I|I]].
        - rewrite Forall_forall in F1. specialize (F1 _ I). discriminate.
        - injection I as -> _. reflexivity.
        - rewrite Forall_forall in F2. specialize (F2 _ I). discriminate. }
      subst kb'. destruct (decode_pubkey_ok _ _ DK) as (m' & M' & T' & _). congruence.
  Qed.

  (* an extension made for one certificate key is refused in a certificate with another key *)
  Lemma tls_binding :
    (forall pk m m' sg, verify pk m sg = true -> verify pk m' sg = true -> m = m') ->
    forall l spki spki' e' p',
      tls_accept l spki' e' = Accept p' -> spki <> spki' ->
      forall e, tls_accept l spki e = Reject ETlsIssuer.
  Proof.
    intros SM l spki spki' e' p' A N e.
    apply tls_accept_sound in A as (l1 & kb & sg & l2 & k & -> & F1 & F2 & DK & V & _ & _).
    unfold Model.tls_accept, Model.tls_verify. rewrite (tls_scan_ok_complete l1 kb sg l2 k F1 F2 DK).
    destruct (verify k (TLS_PREFIX ++ spki) sg) eqn:V2.
    - pose proof (SM _ _ _ _ V V2) as E. apply app_inv_head in E. congruence.
    - destruct e; reflexivity.
  Qed.

  (* ---------------- every caller, and the manager behind them ---------------- *)
  Notation authentic := (authentic on_curve verify).

  Lemma transport_verdict_sound t e ev p :
    transport_verdict on_curve verify t e ev = Some (Accept p) ->
    authentic ev p /\ (t = TWebRtc \/ e = None \/ e = Some p).
  Proof.
    destruct t, ev as [pb rs|l spki]; cbn [transport_verdict]; try discriminate; intros [= A].
    - apply accept_sound in A as (pl & kb & sg & k & A). split; [exists pl, kb, sg, k; tauto|tauto].
    - apply accept_sound in A as (pl & kb & sg & k & A). split; [exists pl, kb, sg, k; tauto|tauto].
    - apply tls_accept_sound in A as (l1 & kb & sg & l2 & k & A). split; [exists l1, kb, sg, l2, k; tauto|tauto].
    - apply accept_sound in A as (pl & kb & sg & k & A). split; [exists pl, kb, sg, k; tauto|auto].
  Qed.

  (* every dial, on every transport: an accepted connection is to the dialed peer and rests on
     authentic evidence — by the transport's comparison or, failing that, by the manager's *)
  Lemma every_dial_checked t addr_peer dialed ev p :
    dial_outcome on_curve verify t addr_peer dialed ev = Some (Accept p) ->
    p = dialed /\ authentic ev p.
  Proof.
    unfold dial_outcome. destruct (dial_setup t addr_peer) as [|e]; [discriminate|].
    destruct (transport_verdict on_curve verify t e ev) as [r|] eqn:TV; [|discriminate].
    cbn [omap]. intros [= M]. unfold manager_check in M.
    apply check_dialed_accept in M as [-> [D|D]]; [discriminate|]. injection D as ->.
    split; [reflexivity|]. exact (proj1 (transport_verdict_sound _ _ _ _ TV)).
  Qed.

  (* when the address handed to the transport names the dialed peer (the manager only dials such
     addresses) the transport's own comparison already decides: the manager's changes nothing *)
  Lemma transport_check_suffices t dialed ev :
    t <> TWebRtc ->
    dial_outcome on_curve verify t (Some dialed) dialed ev =
    transport_verdict on_curve verify t (Some dialed) ev.
  Proof.
    intros NW. unfold dial_outcome.
    assert (S : dial_setup t (Some dialed) = DialWith (Some dialed)) by (destruct t; try reflexivity; contradiction).
    rewrite S. destruct (transport_verdict on_curve verify t (Some dialed) ev) as [[p|e]|] eqn:TV; cbn [omap]; try reflexivity.
    - destruct (transport_verdict_sound _ _ _ _ TV) as [_ [W|[W|W]]]; try contradiction; try discriminate.
      injection W as <-. unfold manager_check. cbn [check_dialed]. rewrite pid_eqb_refl. reflexivity.
  Qed.

  (* TCP dialed through an address WITHOUT /p2p: the transport compares nothing, the manager does *)
  Lemma tcp_without_p2p_caught_by_manager pb rs p dialed :
    verify_identity pb rs = Accept p -> dialed <> p ->
    transport_verdict on_curve verify TTcp None (EvNoise pb rs) = Some (Accept p) /\
    dial_outcome on_curve verify TTcp None dialed (EvNoise pb rs) = Some (Reject EMismatch).
  Proof.
    intros A N. unfold dial_outcome. cbn [dial_setup transport_verdict omap]. unfold Model.accept. rewrite A.
    cbn [check_dialed]. split; [reflexivity|]. unfold manager_check. cbn [check_dialed].
    rewrite (pid_eqb_neq _ _ N). reflexivity.
  Qed.

  (* where no dial path exists there is no outcome: WebRTC, and WebSocket / QUIC without /p2p *)
  Lemma no_dial_without_expectation t addr_peer dialed ev r :
    dial_outcome on_curve verify t addr_peer dialed ev = Some r ->
    t = TTcp \/ (addr_peer <> None /\ (t = TWebSocket \/ t = TQuic)).
  Proof.
    unfold dial_outcome. destruct t, addr_peer; cbn [dial_setup]; try discriminate; intros _; auto;
      right; split; auto; discriminate.
  Qed.

  (* inbound connections: whoever is reported presented authentic evidence (no expectation) *)
  Lemma inbound_authentic t ev p :
    inbound_outcome on_curve verify t ev = Some (Accept p) -> authentic ev p.
  Proof.
    unfold inbound_outcome. destruct (transport_verdict on_curve verify t None ev) as [r|] eqn:TV; [|discriminate].
    cbn [omap]. unfold manager_check. intros [= M]. apply check_dialed_accept in M as [-> _].
    exact (proj1 (transport_verdict_sound _ _ _ _ TV)).
  Qed.

  (* ---------------- binding to the session's static key ---------------- *)
  Section Binding.
    (* the unforgeability idealisation: a signature is valid for one message only.  This is
       NOT a fact about ed25519 (see binding_needs_hypothesis below); it is named in the
       trusted base. *)
    Hypothesis single_message :
      forall pk m m' sg, verify pk m sg = true -> verify pk m' sg = true -> m = m'.

    Lemma binding pb rs rs' d' p' :
      accept pb rs' d' = Accept p' -> rs <> rs' ->
      forall d, accept pb rs d = Reject ESigBad.
    Proof.
      intros A N d.
      apply accept_sound in A as (pl & kb & sg & k & P & K & S & DK & V & _ & _).
      apply (reject_bad_signature pb rs d pl kb k sg P K DK S).
      destruct (verify k (DOMAIN ++ rs) sg) eqn:V2; [|reflexivity].
      pose proof (single_message _ _ _ _ V V2) as E. apply app_inv_head in E. congruence.
    Qed.
  End Binding.
End Decision.

(* without the hypothesis the binding fails: a verifier that accepts one signature for every
   message (as non-strict ed25519 does for the small-order key 01 00 .. 00) lets one payload
   authenticate under two different static keys *)
Definition weak_key : bytes := 1 :: repeat 0 31.
Definition weak_sig : bytes := weak_key ++ repeat 0 32.
Definition weak_verify (pk _ sg : bytes) : bool := beq pk weak_key && beq sg weak_sig.
Definition weak_payload : bytes := encode_payload (V.C18.Model.encode_ed25519 weak_key) weak_sig.

Lemma binding_needs_hypothesis :
  exists rs rs' p,
    rs <> rs' /\
    accept (fun _ => true) weak_verify weak_payload rs None = Accept p /\
    accept (fun _ => true) weak_verify weak_payload rs' None = Accept p.
Proof.
  exists [1], [2], (peer_id_of_key weak_key). split; [discriminate|].
  split; vm_compute; reflexivity.
Qed.

(* ------------------------------------------------------------------ the canonical encoding is accepted *)
Lemma pvarint_small b r : b < 128 -> pvarint (b :: r) = Some (b, r).
Proof.
  intros Hb. unfold pvarint. cbn [take_varint].
  destruct (b <? 128) eqn:E; [|lia]. cbn [length Nat.eqb andb value].
  rewrite N.mod_small by lia. f_equal. f_equal. lia.
Qed.

Lemma pchunk_app n b r :
  n < 128 -> length b = N.to_nat n -> pchunk (n :: b ++ r) = Some (b, r).
Proof.
  intros Hn L. unfold pchunk. rewrite (pvarint_small n _ Hn).
  destruct (len (b ++ r) <? n) eqn:E.
  - unfold len in E. rewrite app_length in E. lia.
  - rewrite <- L. rewrite firstn_app, Nat.sub_diag, firstn_all. cbn [firstn].
    rewrite app_nil_r. rewrite skipn_app, Nat.sub_diag, skipn_all. reflexivity.
Qed.

Lemma pchunk_all n b :
  n < 128 -> length b = N.to_nat n -> pchunk (n :: b) = Some (b, []).
Proof. intros Hn L. rewrite <- (app_nil_r b) at 1. apply pchunk_app; assumption. Qed.

Lemma pkey_small b r :
  8 <= b -> b < 128 -> b mod 8 <= 5 -> pkey (b :: r) = Some (b / 8, b mod 8, r).
Proof.
  intros H1 H2 H3. unfold pkey. rewrite (pvarint_small b r H2).
  destruct (4294967295 <? b) eqn:E1; [lia|].
  destruct (5 <? b mod 8) eqn:E2; [lia|].
  destruct (b / 8 =? 0) eqn:E3; [|reflexivity].
  assert (b / 8 = 0) as Z by lia. apply N.div_small_iff in Z; lia.
Qed.

Lemma dec_keymsg_step f sf acc b r :
  dec_keymsg (S f) sf acc (b :: r) =
  match pkey (b :: r) with
  | None => None
  | Some (tag, wt, r0) =>
      if tag =? 1 then
        if wt =? 0 then
          match pvarint r0 with
          | Some (v, r') => dec_keymsg f sf (mkKeyMsg (v mod 4294967296) (k_data acc)) r'
          | None => None
          end
        else None
      else if tag =? 2 then
        if wt =? 2 then
          match pchunk r0 with
          | Some (b0, r') => dec_keymsg f sf (mkKeyMsg (k_type acc) b0) r'
          | None => None
          end
        else None
      else
        match skip sf RECURSION_LIMIT wt tag r0 with
        | Some r' => dec_keymsg f sf acc r'
        | None => None
        end
  end.
Proof. reflexivity. Qed.

Lemma dec_keymsg_nil f sf acc : dec_keymsg f sf acc [] = Some acc.
Proof. destruct f; reflexivity. Qed.

Lemma dec_payload_step f sf acc b r :
  dec_payload (S f) sf acc (b :: r) =
  match pkey (b :: r) with
  | None => None
  | Some (tag, wt, r0) =>
      if tag =? 1 then
        if wt =? 2 then
          match pchunk r0 with
          | Some (b0, r') => dec_payload f sf (mkPayload (Some b0) (p_sig acc)) r'
          | None => None
          end
        else None
      else if tag =? 2 then
        if wt =? 2 then
          match pchunk r0 with
          | Some (b0, r') => dec_payload f sf (mkPayload (p_key acc) (Some b0)) r'
          | None => None
          end
        else None
      else if tag =? 4 then
        if wt =? 2 then
          match pchunk r0 with
          | Some (b0, r') => if ext_ok sf sf b0 then dec_payload f sf acc r' else None
          | None => None
          end
        else None
      else
        match skip sf RECURSION_LIMIT wt tag r0 with
        | Some r' => dec_payload f sf acc r'
        | None => None
        end
  end.
Proof. reflexivity. Qed.

Lemma dec_payload_nil f sf acc : dec_payload f sf acc [] = Some acc.
Proof. destruct f; reflexivity. Qed.

Lemma pkey_8 r : pkey (8 :: r) = Some (1, 0, r).
Proof. rewrite pkey_small; [reflexivity | lia | lia | vm_compute; discriminate]. Qed.
Lemma pkey_10 r : pkey (10 :: r) = Some (1, 2, r).
Proof. rewrite pkey_small; [reflexivity | lia | lia | vm_compute; discriminate]. Qed.
Lemma pkey_18 r : pkey (18 :: r) = Some (2, 2, r).
Proof. rewrite pkey_small; [reflexivity | lia | lia | vm_compute; discriminate]. Qed.

Lemma decode_keymsg_canonical k :
  length k = 32%nat -> decode_keymsg (V.C18.Model.encode_ed25519 k) = Some (mkKeyMsg 1 k).
Proof.
  intros L. unfold decode_keymsg, V.C18.Model.encode_ed25519.
  generalize (fuel_for ([8; 1; 18; 32] ++ k)) at 2. intros sf.
  assert (F : exists f, fuel_for ([8; 1; 18; 32] ++ k) = S (S f)).
  { unfold fuel_for. eexists. rewrite Nat.add_comm. cbn [Nat.add]. reflexivity. }
  destruct F as [f ->]. cbn [app].
  rewrite dec_keymsg_step, pkey_8.
  change (1 =? 1) with true. change (0 =? 0) with true. cbn iota.
  rewrite (pvarint_small 1) by reflexivity.
  change (1 mod 4294967296) with 1. cbn [k_data].
  rewrite dec_keymsg_step, pkey_18.
  change (2 =? 1) with false. change (2 =? 2) with true. cbn iota.
  rewrite (pchunk_all 32 k) by (try reflexivity; exact L).
  rewrite dec_keymsg_nil. reflexivity.
Qed.

Lemma decode_payload_canonical key sg :
  len key < 128 -> len sg < 128 ->
  decode_payload (encode_payload key sg) = Some (mkPayload (Some key) (Some sg)).
Proof.
  intros Lk Ls. unfold decode_payload, encode_payload.
  set (l := [10; len key] ++ key ++ [18; len sg] ++ sg).
  generalize (fuel_for l) at 2. intros sf.
  assert (F : exists f, fuel_for l = S (S f)).
  { unfold fuel_for. eexists. rewrite Nat.add_comm. cbn [Nat.add]. reflexivity. }
  destruct F as [f ->]. subst l. cbn [app].
  rewrite dec_payload_step, pkey_10.
  change (1 =? 1) with true. change (2 =? 2) with true. cbn iota.
  rewrite (pchunk_app (len key) key) by (try exact Lk; unfold len; lia).
  cbn [p_sig].
  rewrite dec_payload_step, pkey_18.
  change (2 =? 1) with false. change (2 =? 2) with true. cbn iota.
  rewrite (pchunk_all (len sg) sg) by (try exact Ls; unfold len; lia).
  cbn [p_key]. rewrite dec_payload_nil. reflexivity.
Qed.

(* duplicate fields: the last one wins (prost replaces an optional bytes field) *)
Lemma decode_payload_last_key_wins k1 k2 sg :
  len k1 < 128 -> len k2 < 128 -> len sg < 128 ->
  decode_payload ([10; len k1] ++ k1 ++ [10; len k2] ++ k2 ++ [18; len sg] ++ sg)
  = Some (mkPayload (Some k2) (Some sg)).
Proof.
  intros L1 L2 Ls. unfold decode_payload.
  set (l := [10; len k1] ++ k1 ++ [10; len k2] ++ k2 ++ [18; len sg] ++ sg).
  generalize (fuel_for l) at 2. intros sf.
  assert (F : exists f, fuel_for l = S (S (S f))).
  { unfold fuel_for. subst l. cbn [app length].
    match goal with |- context [S (S (length ?x))] => generalize (length x) end.
    intros n. exists (2 * n + 3)%nat. lia. }
  destruct F as [f ->]. subst l. cbn [app].
  rewrite dec_payload_step, pkey_10.
  change (1 =? 1) with true. change (2 =? 2) with true. cbn iota.
  rewrite (pchunk_app (len k1) k1) by (try exact L1; unfold len; lia). cbn [p_sig app].
  rewrite dec_payload_step, pkey_10.
  change (1 =? 1) with true. change (2 =? 2) with true. cbn iota.
  rewrite (pchunk_app (len k2) k2) by (try exact L2; unfold len; lia). cbn [p_sig app].
  rewrite dec_payload_step, pkey_18.
  change (2 =? 1) with false. change (2 =? 2) with true. cbn iota.
  rewrite (pchunk_all (len sg) sg) by (try exact Ls; unfold len; lia).
  cbn [p_key]. rewrite dec_payload_nil. reflexivity.
Qed.

(* an unknown varint field (here tag 3) between the two known ones is skipped *)
Lemma decode_payload_unknown_field_skipped key v sg :
  len key < 128 -> v < 128 -> len sg < 128 ->
  decode_payload ([10; len key] ++ key ++ [24; v] ++ [18; len sg] ++ sg)
  = Some (mkPayload (Some key) (Some sg)).
Proof.
  intros Lk Lv Ls. unfold decode_payload.
  set (l := [10; len key] ++ key ++ [24; v] ++ [18; len sg] ++ sg).
  assert (F : exists f, fuel_for l = S (S (S f))).
  { unfold fuel_for. subst l. cbn [app length].
    match goal with |- context [S (S (length ?x))] => generalize (length x) end.
    intros n. exists (2 * n + 3)%nat. lia. }
  destruct F as [f F]. rewrite F at 1. rewrite F. subst l. cbn [app].
  rewrite dec_payload_step, pkey_10.
  change (1 =? 1) with true. change (2 =? 2) with true. cbn iota.
  rewrite (pchunk_app (len key) key) by (try exact Lk; unfold len; lia). cbn [p_sig app].
  rewrite dec_payload_step.
  rewrite (pkey_small 24) by (try lia; vm_compute; discriminate).
  change (24 / 8) with 3. change (24 mod 8) with 0.
  change (3 =? 1) with false. change (3 =? 2) with false. change (3 =? 4) with false. cbn iota.
  cbn [skip RECURSION_LIMIT]. rewrite (pvarint_small v) by exact Lv.
  rewrite dec_payload_step, pkey_18.
  change (2 =? 1) with false. change (2 =? 2) with true. cbn iota.
  rewrite (pchunk_all (len sg) sg) by (try exact Ls; unfold len; lia).
  cbn [p_key]. rewrite dec_payload_nil. reflexivity.
Qed.

Lemma honest_accept on_curve verify k sg rs :
  length k = 32%nat -> on_curve k = true -> len sg < 128 ->
  verify k (DOMAIN ++ rs) sg = true ->
  accept on_curve verify (encode_payload (V.C18.Model.encode_ed25519 k) sg) rs None
  = Accept (peer_id_of_key k).
Proof.
  intros L C Ls V.
  assert (Lk : len (V.C18.Model.encode_ed25519 k) < 128).
  { unfold len, V.C18.Model.encode_ed25519. rewrite app_length, L. cbn [length Nat.add]. lia. }
  apply (accept_complete on_curve verify _ rs None
           (mkPayload (Some (V.C18.Model.encode_ed25519 k)) (Some sg))
           (V.C18.Model.encode_ed25519 k) sg k).
  - apply decode_payload_canonical; assumption.
  - reflexivity.
  - reflexivity.
  - unfold decode_pubkey. rewrite (decode_keymsg_canonical k L). cbn [k_type k_data].
    change (1 =? 1) with true. cbn iota. unfold len. rewrite L, C. reflexivity.
  - exact V.
  - left. reflexivity.
Qed.

(* ------------------------------------------------------------------ the decoders' fuel never runs out *)
(* ---- every primitive consumes input ---- *)
Lemma take_varint_len fuel : forall l p r,
  take_varint fuel l = Some (p, r) -> (length l = length p + length r /\ 1 <= length p)%nat.
Proof.
  induction fuel as [|f IH]; intros l p r; [destruct l; discriminate|].
  destruct l as [|b t]; cbn [take_varint]; [discriminate|].
  destruct (b <? 128).
  - intros [= <- <-]. cbn [length]. lia.
  - destruct (take_varint f t) as [[p' r']|] eqn:T; [|discriminate].
    intros [= <- <-]. destruct (IH _ _ _ T) as [L1 L2]. cbn [length]. lia.
Qed.

Lemma pvarint_len l v r : pvarint l = Some (v, r) -> (length r < length l)%nat.
Proof.
  unfold pvarint. destruct (take_varint 10 l) as [[p r']|] eqn:T; [|discriminate].
  destruct (Nat.eqb (length p) 10 && (2 <=? last p 0)); [discriminate|].
  intros [= _ <-]. destruct (take_varint_len _ _ _ _ T). lia.
Qed.

Lemma pkey_len l tag wt r : pkey l = Some (tag, wt, r) -> (length r < length l)%nat.
Proof.
  unfold pkey. destruct (pvarint l) as [[k r']|] eqn:P; [|discriminate].
  destruct (4294967295 <? k); [discriminate|]. destruct (5 <? k mod 8); [discriminate|].
  destruct (k / 8 =? 0); [discriminate|]. intros [= _ _ <-]. eapply pvarint_len; eauto.
Qed.

Lemma pchunk_len l b r : pchunk l = Some (b, r) -> (length b + length r < length l)%nat.
Proof.
  unfold pchunk. destruct (pvarint l) as [[n r']|] eqn:P; [|discriminate].
  destruct (len r' <? n) eqn:E; [discriminate|]. intros [= <- <-].
  apply pvarint_len in P. rewrite firstn_length, skipn_length. lia.
Qed.

Lemma padvance_len n l r : padvance n l = Some r -> (length r <= length l)%nat.
Proof.
  unfold padvance. destruct (length l <? n)%nat; [discriminate|]. intros [= <-].
  rewrite skipn_length. lia.
Qed.

(* ---- skip_field: 2n+1 units of fuel suffice for an input of n bytes, 2n for the group loop ---- *)
Definition skip_leaf (wt : N) (l : bytes) : option bytes :=
  match wt with
  | 0 => match pvarint l with Some (_, r) => Some r | None => None end
  | 1 => padvance 8 l
  | 2 => match pchunk l with Some (_, r) => Some r | None => None end
  | 5 => padvance 4 l
  | _ => None
  end.

Lemma skip_unfold f d wt tag l :
  skip (S f) (S d) wt tag l = if wt =? 3 then skip_group f d tag l else skip_leaf wt l.
Proof.
  destruct wt as [|[[q|q|]|[q|q|]|]]; try reflexivity; destruct q; reflexivity.
Qed.

Lemma skip_leaf_len wt l r : skip_leaf wt l = Some r -> (length r <= length l)%nat.
Proof.
  destruct wt as [|[[q|q|]|[q|q|]|]]; cbn [skip_leaf]; try discriminate.
  - destruct (pvarint l) as [[v r']|] eqn:P; [|discriminate]. intros [= <-]. apply pvarint_len in P. lia.
  - destruct q; try discriminate. apply padvance_len.
  - destruct (pchunk l) as [[b r']|] eqn:P; [|discriminate]. intros [= <-]. apply pchunk_len in P. lia.
  - apply padvance_len.
Qed.

Lemma skip_fuel n :
  (forall f1 f2 d wt tag l, (length l <= n)%nat -> (2 * n + 1 <= f1)%nat -> (2 * n + 1 <= f2)%nat ->
     skip f1 d wt tag l = skip f2 d wt tag l /\
     (forall r, skip f1 d wt tag l = Some r -> (length r <= length l)%nat)) /\
  (forall f1 f2 d tag l, (length l <= n)%nat -> (2 * n <= f1)%nat -> (2 * n <= f2)%nat ->
     skip_group f1 d tag l = skip_group f2 d tag l /\
     (forall r, skip_group f1 d tag l = Some r -> (length r <= length l)%nat)).
Proof.
  assert (LEAF : forall n,
    (forall f1 f2 d tag l, (length l <= n)%nat -> (2 * n <= f1)%nat -> (2 * n <= f2)%nat ->
       skip_group f1 d tag l = skip_group f2 d tag l /\
       (forall r, skip_group f1 d tag l = Some r -> (length r <= length l)%nat)) ->
    (forall f1 f2 d wt tag l, (length l <= n)%nat -> (2 * n + 1 <= f1)%nat -> (2 * n + 1 <= f2)%nat ->
       skip f1 d wt tag l = skip f2 d wt tag l /\
       (forall r, skip f1 d wt tag l = Some r -> (length r <= length l)%nat))).
  { intros m G f1 f2 d wt tag l L F1 F2.
    destruct f1 as [|f1]; [lia|]. destruct f2 as [|f2]; [lia|].
    destruct d as [|d]; [split; [reflexivity|discriminate]|].
    rewrite !skip_unfold. destruct (wt =? 3).
    - apply G; lia.
    - split; [reflexivity|apply skip_leaf_len]. }
  induction n as [|n [IHs IHg]].
  - assert (G : forall f1 f2 d tag l, (length l <= 0)%nat -> (2 * 0 <= f1)%nat -> (2 * 0 <= f2)%nat ->
       skip_group f1 d tag l = skip_group f2 d tag l /\
       (forall r, skip_group f1 d tag l = Some r -> (length r <= length l)%nat)).
    { intros f1 f2 d tag l L _ _. destruct l; [|cbn in L; lia].
      split; [destruct f1, f2; reflexivity | destruct f1; discriminate]. }
    split; [apply LEAF; exact G | exact G].
  - assert (G : forall f1 f2 d tag l, (length l <= S n)%nat -> (2 * S n <= f1)%nat -> (2 * S n <= f2)%nat ->
       skip_group f1 d tag l = skip_group f2 d tag l /\
       (forall r, skip_group f1 d tag l = Some r -> (length r <= length l)%nat)).
    { intros f1 f2 d tag l L F1 F2. destruct f1 as [|f1]; [lia|]. destruct f2 as [|f2]; [lia|].
      cbn [skip_group]. destruct (pkey l) as [[[itag iwt] r]|] eqn:K; [|split; [reflexivity|discriminate]].
      pose proof (pkey_len _ _ _ _ K) as Lr.
      destruct (iwt =? 4).
      - split; [reflexivity|]. destruct (itag =? tag); [|discriminate]. intros r0 [= <-]. lia.
      - destruct (IHs f1 f2 d iwt itag r) as [E S]; [lia|lia|lia|]. rewrite <- E.
        destruct (skip f1 d iwt itag r) as [r'|] eqn:SK; [|split; [reflexivity|discriminate]].
        pose proof (S _ eq_refl) as Lr'.
        destruct (IHg f1 f2 d tag r') as [E2 S2]; [lia|lia|lia|].
        split; [exact E2|]. intros r0 R0. apply S2 in R0. lia. }
    split; [apply LEAF; exact G | exact G].
Qed.

Lemma skip_fuel_eq f1 f2 d wt tag l :
  (2 * length l + 1 <= f1)%nat -> (2 * length l + 1 <= f2)%nat ->
  skip f1 d wt tag l = skip f2 d wt tag l.
Proof.
  intros F1 F2. destruct (skip_fuel (length l)) as [S _].
  destruct (S f1 f2 d wt tag l) as [E _]; auto.
Qed.

Lemma skip_len f d wt tag l r :
  (2 * length l + 1 <= f)%nat -> skip f d wt tag l = Some r -> (length r <= length l)%nat.
Proof.
  intros F. destruct (skip_fuel (length l)) as [S _].
  destruct (S f f d wt tag l) as [_ L]; auto.
Qed.

(* ---- the decoding loops: n+1 rounds suffice for n bytes ---- *)
Lemma ext_ok_fuel n : forall l f1 f2 s1 s2,
  (length l <= n)%nat -> (n <= f1)%nat -> (n <= f2)%nat ->
  (2 * n + 1 <= s1)%nat -> (2 * n + 1 <= s2)%nat ->
  ext_ok f1 s1 l = ext_ok f2 s2 l.
Proof.
  induction n as [|n IH]; intros l f1 f2 s1 s2 L F1 F2 S1 S2.
  - destruct l; [|cbn in L; lia]. destruct f1, f2; reflexivity.
  - destruct l as [|b t]; [destruct f1, f2; reflexivity|].
    destruct f1 as [|f1]; [lia|]. destruct f2 as [|f2]; [lia|].
    cbn [ext_ok]. destruct (pkey (b :: t)) as [[[tag wt] r]|] eqn:K; [|reflexivity].
    pose proof (pkey_len _ _ _ _ K) as Lr.
    destruct (tag =? 1).
    + destruct (wt =? 2); [|reflexivity].
      destruct (pchunk r) as [[c r']|] eqn:P; [|reflexivity].
      apply pchunk_len in P. apply IH; lia.
    + destruct (tag =? 2).
      * destruct (wt =? 2); [|reflexivity].
        destruct (pchunk r) as [[c r']|] eqn:P; [|reflexivity].
        apply pchunk_len in P. f_equal. apply IH; lia.
      * rewrite (skip_fuel_eq s1 s2) by lia.
        destruct (skip s2 (RECURSION_LIMIT - 1) wt tag r) as [r'|] eqn:SK; [|reflexivity].
        apply skip_len in SK; [|lia]. apply IH; lia.
Qed.

Lemma dec_payload_fuel n : forall l acc f1 f2 s1 s2,
  (length l <= n)%nat -> (n <= f1)%nat -> (n <= f2)%nat ->
  (2 * n + 1 <= s1)%nat -> (2 * n + 1 <= s2)%nat ->
  dec_payload f1 s1 acc l = dec_payload f2 s2 acc l.
Proof.
  induction n as [|n IH]; intros l acc f1 f2 s1 s2 L F1 F2 S1 S2.
  - destruct l; [|cbn in L; lia]. destruct f1, f2; reflexivity.
  - destruct l as [|b t]; [destruct f1, f2; reflexivity|].
    destruct f1 as [|f1]; [lia|]. destruct f2 as [|f2]; [lia|].
    cbn [dec_payload]. destruct (pkey (b :: t)) as [[[tag wt] r]|] eqn:K; [|reflexivity].
    pose proof (pkey_len _ _ _ _ K) as Lr.
    destruct (tag =? 1).
    + destruct (wt =? 2); [|reflexivity].
      destruct (pchunk r) as [[c r']|] eqn:P; [|reflexivity].
      apply pchunk_len in P. apply IH; lia.
    + destruct (tag =? 2).
      * destruct (wt =? 2); [|reflexivity].
        destruct (pchunk r) as [[c r']|] eqn:P; [|reflexivity].
        apply pchunk_len in P. apply IH; lia.
      * destruct (tag =? 4).
        -- destruct (wt =? 2); [|reflexivity].
           destruct (pchunk r) as [[c r']|] eqn:P; [|reflexivity].
           apply pchunk_len in P.
           rewrite (ext_ok_fuel (length c) c s1 s2 s1 s2) by lia.
           destruct (ext_ok s2 s2 c); [|reflexivity]. apply IH; lia.
        -- rewrite (skip_fuel_eq s1 s2) by lia.
           destruct (skip s2 RECURSION_LIMIT wt tag r) as [r'|] eqn:SK; [|reflexivity].
           apply skip_len in SK; [|lia]. apply IH; lia.
Qed.

Lemma dec_keymsg_fuel n : forall l acc f1 f2 s1 s2,
  (length l <= n)%nat -> (n <= f1)%nat -> (n <= f2)%nat ->
  (2 * n + 1 <= s1)%nat -> (2 * n + 1 <= s2)%nat ->
  dec_keymsg f1 s1 acc l = dec_keymsg f2 s2 acc l.
Proof.
  induction n as [|n IH]; intros l acc f1 f2 s1 s2 L F1 F2 S1 S2.
  - destruct l; [|cbn in L; lia]. destruct f1, f2; reflexivity.
  - destruct l as [|b t]; [destruct f1, f2; reflexivity|].
    destruct f1 as [|f1]; [lia|]. destruct f2 as [|f2]; [lia|].
    cbn [dec_keymsg]. destruct (pkey (b :: t)) as [[[tag wt] r]|] eqn:K; [|reflexivity].
    pose proof (pkey_len _ _ _ _ K) as Lr.
    destruct (tag =? 1).
    + destruct (wt =? 0); [|reflexivity].
      destruct (pvarint r) as [[v r']|] eqn:P; [|reflexivity].
      apply pvarint_len in P. apply IH; lia.
    + destruct (tag =? 2).
      * destruct (wt =? 2); [|reflexivity].
        destruct (pchunk r) as [[c r']|] eqn:P; [|reflexivity].
        apply pchunk_len in P. apply IH; lia.
      * rewrite (skip_fuel_eq s1 s2) by lia.
        destruct (skip s2 RECURSION_LIMIT wt tag r) as [r'|] eqn:SK; [|reflexivity].
        apply skip_len in SK; [|lia]. apply IH; lia.
Qed.

(* the fuel of the model never runs out: any larger fuel gives the same result *)
Lemma decode_payload_fuel l f s :
  (fuel_for l <= f)%nat -> (fuel_for l <= s)%nat ->
  dec_payload f s (mkPayload None None) l = decode_payload l.
Proof.
  unfold decode_payload, fuel_for. intros F S. apply (dec_payload_fuel (length l)); lia.
Qed.

Lemma decode_keymsg_fuel l f s :
  (fuel_for l <= f)%nat -> (fuel_for l <= s)%nat ->
  dec_keymsg f s (mkKeyMsg 0 []) l = decode_keymsg l.
Proof.
  unfold decode_keymsg, fuel_for. intros F S. apply (dec_keymsg_fuel (length l)); lia.
Qed.

(* ------------------------------------------------------------------ transcript layer *)
Lemma dec_some k h c pt : dec k h c = Some pt -> c = Ct k h pt.
Proof.
  destruct c as [k' h' pt'|b]; cbn [dec]; [|discriminate].
  destruct (beq k k' && beq h h') eqn:E; [|discriminate]. intros [= <-].
  apply andb_prop in E as [E1 E2]. apply beq_eq in E1. apply beq_eq in E2. congruence.
Qed.

Lemma dec_ct k h pt : dec k h (Ct k h pt) = Some pt.
Proof. cbn [dec]. rewrite !beq_refl. reflexivity. Qed.

Section Transcript.
  Variable on_curve : bytes -> bool.
  Variable verify : bytes -> bytes -> bytes -> bool.
  Variable H : list item -> bytes.
  Variable KDF : list bytes -> bytes.
  Variable pubk : N -> bytes.
  Variable dh : N -> bytes -> bytes.

  (* the handshake hash is collision free *)
  Hypothesis H_inj : forall a b, H a = H b -> a = b.

  Notation lcs2 := (l_cs2 H KDF pubk dh).
  Notation lcp2 := (l_cp2 H KDF pubk dh).
  Notation ltr1 := (l_tr1 pubk).
  Notation ltr2 := (l_tr2 H KDF pubk dh).
  Notation ltr3 := (l_tr3 H KDF pubk dh).
  Notation ltr4 := (l_tr4 H KDF pubk dh).
  Notation lks2 := (l_ks2 dh).
  Notation lks3 := (l_ks3 dh).
  Notation lmsg2 := (l_msg2 H KDF pubk dh).
  Notation dmsg1 := (d_msg1 pubk).
  Notation dtr1 := (d_tr1 pubk).
  Notation dtr2 := (d_tr2 pubk).
  Notation dtr3 := (d_tr3 pubk).
  Notation dtr4 := (d_tr4 H KDF pubk dh).
  Notation dks1 := (d_ks1 dh).
  Notation dks2 := (d_ks2 dh).
  Notation dcs3 := (d_cs3 H KDF pubk dh).
  Notation dcp3 := (d_cp3 H KDF pubk dh).
  Notation drun := (d_run on_curve verify H KDF pubk dh).
  Notation rund := (run_d on_curve verify H KDF pubk dh).
  Notation runl := (run_l on_curve verify H KDF pubk dh).
  Notation videntity := (verify_identity on_curve verify).

  (* the ciphertexts the two honest parties produce in this session *)
  Definition l_cts (L : party) (a : attack) : list ct :=
    match a1 a with DMsg d1 => [lcs2 L d1; lcp2 L d1] | _ => [] end.
  Definition d_cts (D : party) (a : attack) : list ct :=
    match fst (rund D a) with Some m3 => [m3_s m3; m3_p m3] | None => [] end.

  (* AEAD idealisation for a session between two honest parties whose four DH secrets the
     attacker does not know: a delivered ciphertext that is bound to a handshake hash its reader
     will use was produced by the reader's honest peer in this very session.  (An attacker who
     runs its own Noise session with a party is the rogue peer of the decision layer.) *)
  Definition no_forgery (D L : party) (a : attack) : Prop :=
    (forall m c k h pt, a2 a = DMsg m -> c = m2_s m \/ c = m2_p m -> c = Ct k h pt ->
       h = H (dtr1 D m) \/ h = H (dtr2 D m) -> In c (l_cts L a)) /\
    (forall d1 m c k h pt, a1 a = DMsg d1 -> a3 a = DMsg m -> c = m3_s m \/ c = m3_p m ->
       c = Ct k h pt -> h = H (ltr3 L d1) \/ h = H (ltr4 L d1 m) -> In c (d_cts D a)).

  Lemma H_len a b : H a = H b -> length a = length b.
  Proof. intros E. apply H_inj in E. congruence. Qed.

  (* what the dialer manages to decrypt is the listener's genuine message 2, computed on the
     dialer's genuine message 1 *)
  Lemma dialer_reads_authentic D L a m s pl :
    no_forgery D L a -> a2 a = DMsg m ->
    dec (KDF (dks1 D m)) (H (dtr1 D m)) (m2_s m) = Some s ->
    dec (KDF (dks2 D m s)) (H (dtr2 D m)) (m2_p m) = Some pl ->
    a1 a = DMsg (dmsg1 D) /\ m = lmsg2 L (dmsg1 D) /\ s = pubk (sta L) /\ pl = pay L /\
    pro D = pro L.
  Proof.
    intros [NF _] A2 D1 D2. apply dec_some in D1. apply dec_some in D2.
    pose proof (NF m (m2_s m) _ _ _ A2 (or_introl eq_refl) D1 (or_introl eq_refl)) as I1.
    pose proof (NF m (m2_p m) _ _ _ A2 (or_intror eq_refl) D2 (or_intror eq_refl)) as I2.
    unfold l_cts in I1, I2. destruct (a1 a) as [d1| |] eqn:A1; try contradiction.
    destruct d1 as [e1 pl1]. destruct m as [e cs cp]. cbn [m2_e m2_s m2_p] in *.
    (* first ciphertext *)
    assert (S1 : e1 = pubk (eph D) /\ pl1 = [] /\ e = pubk (eph L) /\ s = pubk (sta L) /\
                 cs = lcs2 L (mkM1 e1 pl1) /\ pro D = pro L).
    { destruct I1 as [I|[I|[]]]; pose proof D1 as E; rewrite <- I in E at 1.
      - unfold l_cs2 in E. injection E as _ Eh Es.
        apply H_inj in Eh. unfold l_tr1, d_tr1 in Eh. cbn [m1_e m1_pl m2_e] in Eh.
        injection Eh as E0 E1 E2 E3. repeat split; auto.
      - unfold l_cp2 in E. injection E as _ Eh _. apply H_len in Eh.
        unfold l_tr2, l_tr1, d_tr1 in Eh. rewrite app_length in Eh. cbn [length] in Eh. lia. }
    destruct S1 as (-> & -> & -> & -> & Ecs & Epro).
    assert (S2 : pl = pay L /\ cp = lcp2 L (mkM1 (pubk (eph D)) [])).
    { destruct I2 as [I|[I|[]]]; pose proof D2 as E; rewrite <- I in E at 1.
      - unfold l_cs2 in E. injection E as _ Eh _. apply H_len in Eh.
        unfold d_tr2, l_tr1, d_tr1 in Eh. rewrite app_length in Eh. cbn [length] in Eh. lia.
      - unfold l_cp2 in E. injection E as _ _ Ep. split; [symmetry; exact Ep | symmetry; exact I]. }
    destruct S2 as (-> & Ecp).
    repeat split; auto. unfold d_msg1, l_msg2. rewrite Ecs, Ecp. reflexivity.
  Qed.

  (* the dialer's message 3, when it is sent at all, is the genuine one *)
  Lemma dialer_sent3 D L a m3 :
    no_forgery D L a -> fst (rund D a) = Some m3 ->
    a1 a = DMsg (dmsg1 D) /\ a2 a = DMsg (lmsg2 L (dmsg1 D)) /\
    m3 = mkM3 (dcs3 D (lmsg2 L (dmsg1 D)) (pubk (sta L))) (dcp3 D (lmsg2 L (dmsg1 D)) (pubk (sta L))) /\
    pro D = pro L.
  Proof.
    intros NF. unfold run_d, d_run. destruct (a2 a) as [m| |] eqn:A2; try discriminate.
    destruct (dec (KDF (dks1 D m)) (H (dtr1 D m)) (m2_s m)) as [s|] eqn:D1; [|discriminate].
    destruct (dec (KDF (dks2 D m s)) (H (dtr2 D m)) (m2_p m)) as [pl|] eqn:D2; [|discriminate].
    destruct (dialer_reads_authentic D L a m s pl NF A2 D1 D2) as (A1 & -> & -> & -> & Epro).
    destruct (decode_payload (pay L)); [|discriminate]. cbn [fst]. intros [= <-]. auto.
  Qed.

  (* dialer: accepting means that messages 1 and 2 were delivered untouched and that the verdict
     is the decision layer's verdict on the listener's genuine payload and static key *)
  Lemma dialer_verdict D L a p :
    no_forgery D L a -> snd (rund D a) = OAccept p ->
    a1 a = DMsg (dmsg1 D) /\ a2 a = DMsg (lmsg2 L (dmsg1 D)) /\
    check_dialed (dialed_of D) (videntity (pay L) (pubk (sta L))) = Accept p.
  Proof.
    intros NF. unfold run_d, d_run. destruct (a2 a) as [m| |] eqn:A2; try discriminate.
    destruct (dec (KDF (dks1 D m)) (H (dtr1 D m)) (m2_s m)) as [s|] eqn:D1; [|discriminate].
    destruct (dec (KDF (dks2 D m s)) (H (dtr2 D m)) (m2_p m)) as [pl|] eqn:D2; [|discriminate].
    destruct (dialer_reads_authentic D L a m s pl NF A2 D1 D2) as (A1 & -> & -> & -> & _).
    unfold Model.verify_identity. destruct (decode_payload (pay L)) as [pp|]; [|discriminate].
    cbn [snd]. intros O. repeat split; auto.
    destruct (check_dialed (dialed_of D) (verify_payload on_curve verify pp (pubk (sta L)))); cbn [outcome_of] in O;
      [congruence|discriminate].
  Qed.

  (* ... and that both sides used the same prologue *)
  Lemma dialer_prologue D L a p :
    no_forgery D L a -> snd (rund D a) = OAccept p -> pro D = pro L.
  Proof.
    intros NF. unfold run_d, d_run. destruct (a2 a) as [m| |] eqn:A2; try discriminate.
    destruct (dec (KDF (dks1 D m)) (H (dtr1 D m)) (m2_s m)) as [s|] eqn:D1; [|discriminate].
    destruct (dec (KDF (dks2 D m s)) (H (dtr2 D m)) (m2_p m)) as [pl|] eqn:D2; [|discriminate].
    destruct (dialer_reads_authentic D L a m s pl NF A2 D1 D2) as (_ & _ & _ & _ & E). intros _. exact E.
  Qed.

  Lemma ltr3_dtr3 D L :
    pro D = pro L -> ltr3 L (dmsg1 D) = dtr3 D (lmsg2 L (dmsg1 D)).
  Proof.
    intros E. unfold l_tr3, l_tr2, l_tr1, d_tr3, d_tr2, d_tr1. cbn [m1_e m1_pl d_msg1 m2_e m2_s m2_p l_msg2].
    rewrite E. reflexivity.
  Qed.

  (* listener: accepting means that all three messages were delivered untouched and that the
     verdict is the decision layer's verdict on the dialer's genuine payload and static key *)
  Lemma listener_verdict D L a p :
    no_forgery D L a -> runl L a = OAccept p ->
    a1 a = DMsg (dmsg1 D) /\ a2 a = DMsg (lmsg2 L (dmsg1 D)) /\
    a3 a = DMsg (mkM3 (dcs3 D (lmsg2 L (dmsg1 D)) (pubk (sta L)))
                      (dcp3 D (lmsg2 L (dmsg1 D)) (pubk (sta L)))) /\
    check_dialed (dialed_of L) (videntity (pay D) (pubk (sta D))) = Accept p.
  Proof.
    intros NF. unfold run_l, l_run2.
    destruct (a1 a) as [d1| |] eqn:A1; try discriminate.
    destruct (a3 a) as [m| |] eqn:A3; try discriminate.
    destruct (dec (KDF (lks2 L d1)) (H (ltr3 L d1)) (m3_s m)) as [s|] eqn:D1; [|discriminate].
    destruct (dec (KDF (lks3 L d1 s)) (H (ltr4 L d1 m)) (m3_p m)) as [pl|] eqn:D2; [|discriminate].
    apply dec_some in D1. apply dec_some in D2. pose proof NF as [_ NF2].
    pose proof (NF2 d1 m (m3_s m) _ _ _ A1 A3 (or_introl eq_refl) D1 (or_introl eq_refl)) as I1.
    pose proof (NF2 d1 m (m3_p m) _ _ _ A1 A3 (or_intror eq_refl) D2 (or_intror eq_refl)) as I2.
    unfold d_cts in I1, I2. destruct (fst (rund D a)) as [m3|] eqn:S3; try contradiction.
    destruct (dialer_sent3 D L a m3 NF S3) as (A1' & A2 & -> & Epro).
    rewrite A1 in A1'. injection A1' as ->. cbn [m3_s m3_p] in I1, I2.
    set (m2 := lmsg2 L (dmsg1 D)) in *. set (sL := pubk (sta L)) in *.
    destruct m as [cs cp]. cbn [m3_s m3_p] in *.
    assert (S1 : s = pubk (sta D) /\ cs = dcs3 D m2 sL).
    { destruct I1 as [I|[I|[]]]; pose proof D1 as E; rewrite <- I in E at 1.
      - unfold d_cs3 in E. split; [congruence | symmetry; exact I].
      - unfold d_cp3 in E. injection E as _ Eh _. apply H_len in Eh.
        unfold d_tr4 in Eh. rewrite app_length in Eh. subst m2. rewrite <- (ltr3_dtr3 D L Epro) in Eh.
        cbn [length] in Eh. lia. }
    destruct S1 as (-> & ->).
    assert (S2 : pl = pay D /\ cp = dcp3 D m2 sL).
    { destruct I2 as [I|[I|[]]]; pose proof D2 as E; rewrite <- I in E at 1.
      - unfold d_cs3 in E. injection E as _ Eh _. apply H_len in Eh.
        unfold l_tr4 in Eh. rewrite app_length in Eh. subst m2. rewrite <- (ltr3_dtr3 D L Epro) in Eh.
        cbn [length] in Eh. lia.
      - unfold d_cp3 in E. split; [congruence | symmetry; exact I]. }
    destruct S2 as (-> & ->).
    intros O. repeat split; auto.
    destruct (check_dialed (dialed_of L) (videntity (pay D) (pubk (sta D)))); cbn [outcome_of] in O;
      [congruence|discriminate].
  Qed.

  (* the two layers composed: whoever is accepted presented, in its genuine payload, a key that
     verifies a signature over STATIC_KEY_DOMAIN ++ its genuine static key of this session *)
  Lemma dialer_identity D L a p :
    no_forgery D L a -> snd (rund D a) = OAccept p ->
    exists pl kb sg k,
      decode_payload (pay L) = Some pl /\ p_key pl = Some kb /\ p_sig pl = Some sg /\
      decode_pubkey on_curve kb = KeyOk k /\ verify k (DOMAIN ++ pubk (sta L)) sg = true /\
      p = peer_id_of_key k /\ (dialed_of D = None \/ dialed_of D = Some p).
  Proof.
    intros NF O. destruct (dialer_verdict D L a p NF O) as (_ & _ & A).
    exact (accept_sound on_curve verify (pay L) (pubk (sta L)) (dialed_of D) p A).
  Qed.

  Lemma listener_identity D L a p :
    no_forgery D L a -> runl L a = OAccept p ->
    exists pl kb sg k,
      decode_payload (pay D) = Some pl /\ p_key pl = Some kb /\ p_sig pl = Some sg /\
      decode_pubkey on_curve kb = KeyOk k /\ verify k (DOMAIN ++ pubk (sta D)) sg = true /\
      p = peer_id_of_key k /\ (dialed_of L = None \/ dialed_of L = Some p).
  Proof.
    intros NF O. destruct (listener_verdict D L a p NF O) as (_ & _ & _ & A).
    exact (accept_sound on_curve verify (pay D) (pubk (sta D)) (dialed_of L) p A).
  Qed.

  (* a replaced message means no connection: the reader of message 2 refuses when message 1 or
     2 was replaced; the reader of message 3, who finishes last, refuses when any was replaced *)
  Lemma tampered_dialer_refuses D L a :
    no_forgery D L a ->
    a1 a <> DMsg (dmsg1 D) \/ a2 a <> DMsg (lmsg2 L (dmsg1 D)) ->
    forall p, snd (rund D a) <> OAccept p.
  Proof.
    intros NF T p O. destruct (dialer_verdict D L a p NF O) as (A1 & A2 & _). tauto.
  Qed.

  Lemma tampered_listener_refuses D L a :
    no_forgery D L a ->
    a1 a <> DMsg (dmsg1 D) \/ a2 a <> DMsg (lmsg2 L (dmsg1 D)) \/
    a3 a <> DMsg (mkM3 (dcs3 D (lmsg2 L (dmsg1 D)) (pubk (sta L)))
                       (dcp3 D (lmsg2 L (dmsg1 D)) (pubk (sta L)))) ->
    forall p, runl L a <> OAccept p.
  Proof.
    intros NF T p O. destruct (listener_verdict D L a p NF O) as (A1 & A2 & A3 & _). tauto.
  Qed.

  (* ---------------- the honest run ---------------- *)
  Hypothesis dh_comm : forall x y, dh x (pubk y) = dh y (pubk x).

  Definition forward (D L : party) : attack :=
    let m2 := lmsg2 L (dmsg1 D) in
    mkAttack (DMsg (dmsg1 D)) (DMsg m2)
             (match fst (drun D (DMsg m2)) with Some m3 => DMsg m3 | None => DShort end).

  Lemma tr1_agree D L : pro D = pro L -> dtr1 D (lmsg2 L (dmsg1 D)) = ltr1 L (dmsg1 D).
  Proof.
    intros E. unfold d_tr1, l_tr1. cbn [m1_e m1_pl d_msg1 m2_e l_msg2]. rewrite E. reflexivity.
  Qed.

  Lemma tr2_agree D L : pro D = pro L -> dtr2 D (lmsg2 L (dmsg1 D)) = ltr2 L (dmsg1 D).
  Proof. intros E. unfold d_tr2, l_tr2. rewrite (tr1_agree D L E). reflexivity. Qed.

  Lemma honest_dialer D L :
    pro D = pro L ->
    snd (rund D (forward D L)) =
    outcome_of (check_dialed (dialed_of D) (videntity (pay L) (pubk (sta L)))).
  Proof.
    intros EP. pose proof (tr1_agree D L EP) as T1. pose proof (tr2_agree D L EP) as T2.
    unfold run_d, forward. cbn [a2]. unfold d_run.
    set (m2 := lmsg2 L (dmsg1 D)) in *.
    assert (K1 : KDF (dks1 D m2) = KDF (l_ks1 dh L (dmsg1 D))).
    { unfold d_ks1, l_ks1. subst m2. cbn [m2_e l_msg2 m1_e d_msg1]. rewrite dh_comm. reflexivity. }
    assert (E1 : m2_s m2 = Ct (KDF (dks1 D m2)) (H (dtr1 D m2)) (pubk (sta L))).
    { rewrite K1, T1. reflexivity. }
    rewrite E1 at 1. rewrite dec_ct.
    assert (K2 : KDF (dks2 D m2 (pubk (sta L))) = KDF (lks2 L (dmsg1 D))).
    { unfold d_ks2, l_ks2, d_ks1, l_ks1. subst m2. cbn [m2_e l_msg2 m1_e d_msg1].
      rewrite (dh_comm (eph D) (eph L)), (dh_comm (eph D) (sta L)). reflexivity. }
    assert (E2 : m2_p m2 = Ct (KDF (dks2 D m2 (pubk (sta L)))) (H (dtr2 D m2)) (pay L)).
    { rewrite K2, T2. reflexivity. }
    rewrite E2 at 1. rewrite dec_ct.
    unfold Model.verify_identity. destruct (decode_payload (pay L)); cbn [snd]; [reflexivity|].
    destruct (dialed_of D); reflexivity.
  Qed.

  Lemma honest_listener D L :
    pro D = pro L ->
    decode_payload (pay L) <> None ->
    runl L (forward D L) =
    outcome_of (check_dialed (dialed_of L) (videntity (pay D) (pubk (sta D)))).
  Proof.
    intros EP PL. pose proof (tr1_agree D L EP) as T1. pose proof (tr2_agree D L EP) as T2.
    pose proof (ltr3_dtr3 D L EP) as T3.
    unfold run_l, forward. cbn [a1 a3]. unfold d_run.
    set (m1 := dmsg1 D) in *. set (m2 := lmsg2 L m1) in *.
    assert (K1 : KDF (dks1 D m2) = KDF (l_ks1 dh L m1)).
    { unfold d_ks1, l_ks1. subst m2 m1. cbn [m2_e l_msg2 m1_e d_msg1]. rewrite dh_comm. reflexivity. }
    assert (E1 : m2_s m2 = Ct (KDF (dks1 D m2)) (H (dtr1 D m2)) (pubk (sta L))).
    { rewrite K1, T1. reflexivity. }
    rewrite E1 at 1. rewrite dec_ct.
    assert (K2 : KDF (dks2 D m2 (pubk (sta L))) = KDF (lks2 L m1)).
    { unfold d_ks2, l_ks2, d_ks1, l_ks1. subst m2 m1. cbn [m2_e l_msg2 m1_e d_msg1].
      rewrite (dh_comm (eph D) (eph L)), (dh_comm (eph D) (sta L)). reflexivity. }
    assert (E2 : m2_p m2 = Ct (KDF (dks2 D m2 (pubk (sta L)))) (H (dtr2 D m2)) (pay L)).
    { rewrite K2, T2. reflexivity. }
    rewrite E2 at 1. rewrite dec_ct.
    destruct (decode_payload (pay L)) as [pp|]; [|congruence]. cbn [fst].
    unfold l_run2. cbn [m3_s m3_p].
    assert (E3 : dcs3 D m2 (pubk (sta L)) = Ct (KDF (lks2 L m1)) (H (ltr3 L m1)) (pubk (sta D))).
    { unfold d_cs3. rewrite K2, T3. reflexivity. }
    rewrite E3 at 1. rewrite dec_ct.
    assert (K3 : KDF (d_ks3 dh D m2 (pubk (sta L))) = KDF (lks3 L m1 (pubk (sta D)))).
    { unfold d_ks3, l_ks3, d_ks2, l_ks2, d_ks1, l_ks1. subst m2 m1. cbn [m2_e l_msg2 m1_e d_msg1].
      rewrite (dh_comm (eph D) (eph L)), (dh_comm (eph D) (sta L)), (dh_comm (sta D) (eph L)).
      reflexivity. }
    set (h4 := H (ltr4 L m1 (mkM3 (dcs3 D m2 (pubk (sta L))) (dcp3 D m2 (pubk (sta L)))))).
    assert (E4 : dcp3 D m2 (pubk (sta L)) = Ct (KDF (lks3 L m1 (pubk (sta D)))) h4 (pay D)).
    { unfold d_cp3. rewrite K3. subst h4. unfold l_tr4, d_tr4. rewrite T3. reflexivity. }
    rewrite E4. rewrite dec_ct. reflexivity.
  Qed.

  (* ---------------- the order of events in XX ---------------- *)
  (* the dialer finishes first: with message 3 withheld it has already accepted (it returns from
     handshake() after WRITING message 3) while the listener ends with an I/O error *)
  Definition withhold3 (D L : party) : attack :=
    mkAttack (DMsg (dmsg1 D)) (DMsg (lmsg2 L (dmsg1 D))) DShort.

  Lemma dialer_finishes_first D L :
    pro D = pro L ->
    no_forgery D L (withhold3 D L) /\
    snd (rund D (withhold3 D L)) =
      outcome_of (check_dialed (dialed_of D) (videntity (pay L) (pubk (sta L)))) /\
    runl L (withhold3 D L) = OIo.
  Proof.
    intros EP. split; [|split].
    - split.
      + intros m c k h pt A2 C _ _. unfold withhold3 in A2. cbn [a2] in A2. injection A2 as <-.
        unfold l_cts, withhold3. cbn [a1 l_msg2 m2_s m2_p] in *. destruct C as [-> | ->]; cbn; auto.
      + intros d1 m c k h pt _ A3. unfold withhold3 in A3. cbn [a3] in A3. discriminate.
    - exact (honest_dialer D L EP).
    - reflexivity.
  Qed.

  (* the dialer writes message 3 — its own identity payload, readable by whoever holds the static
     key it has just been given — BEFORE it checks the listener's signature: whenever the payload
     of message 2 decodes, message 3 is sent whatever the verdict *)
  Lemma dialer_writes_3_before_verdict D m s pl pp :
    dec (KDF (dks1 D m)) (H (dtr1 D m)) (m2_s m) = Some s ->
    dec (KDF (dks2 D m s)) (H (dtr2 D m)) (m2_p m) = Some pl ->
    decode_payload pl = Some pp ->
    drun D (DMsg m) =
      (Some (mkM3 (dcs3 D m s) (dcp3 D m s)),
       outcome_of (check_dialed (dialed_of D) (verify_payload on_curve verify pp s))).
  Proof. intros D1 D2 P. unfold d_run. rewrite D1, D2, P. reflexivity. Qed.

  (* what the listener has learnt when it writes message 2: nothing about the dialer but the
     ephemeral key — its answer is the same for all dialers that sent the same message 1 *)
  Lemma listener_answer_ignores_identity D D' L :
    dmsg1 D = dmsg1 D' -> lmsg2 L (dmsg1 D) = lmsg2 L (dmsg1 D').
  Proof. intros ->. reflexivity. Qed.

  (* the listener accepts last, and only if the dialer got as far as writing message 3 *)
  Lemma listener_prologue D L a p :
    no_forgery D L a -> runl L a = OAccept p -> pro D = pro L /\ fst (rund D a) <> None.
  Proof.
    intros NF. unfold run_l, l_run2.
    destruct (a1 a) as [d1| |] eqn:A1; try discriminate.
    destruct (a3 a) as [m| |] eqn:A3; try discriminate.
    destruct (dec (KDF (lks2 L d1)) (H (ltr3 L d1)) (m3_s m)) as [s|] eqn:D1; [|discriminate].
    intros _. apply dec_some in D1. pose proof NF as [_ NF2].
    pose proof (NF2 d1 m (m3_s m) _ _ _ A1 A3 (or_introl eq_refl) D1 (or_introl eq_refl)) as I1.
    unfold d_cts in I1. destruct (fst (rund D a)) as [m3|] eqn:S3; try contradiction.
    destruct (dialer_sent3 D L a m3 NF S3) as (_ & _ & _ & Epro). split; [exact Epro|discriminate].
  Qed.

  (* the WebRTC prologue binds the handshake to the two DTLS fingerprints: with different
     prologues neither side accepts, whatever is delivered *)
  Lemma prologue_binds D L a :
    no_forgery D L a -> pro D <> pro L ->
    (forall p, snd (rund D a) <> OAccept p) /\ (forall p, runl L a <> OAccept p).
  Proof.
    intros NF NE. split; intros p O.
    - exact (NE (dialer_prologue D L a p NF O)).
    - destruct (listener_prologue D L a p NF O) as [E _]. exact (NE E).
  Qed.

  (* forwarding everything is not a forgery: the hypothesis of the theorems is satisfiable *)
  Lemma forward_no_forgery D L : no_forgery D L (forward D L).
  Proof.
    split.
    - intros m c k h pt A2 C _ _. unfold forward in A2. cbn [a2] in A2. injection A2 as <-.
      unfold l_cts, forward. cbn [a1 l_msg2 m2_s m2_p] in *. destruct C as [-> | ->]; cbn; auto.
    - intros d1 m c k h pt A1 A3 C _ _. unfold d_cts, run_d. unfold forward in A3 |- *. cbn [a2 a3] in *.
      destruct (fst (drun D (DMsg (lmsg2 L (dmsg1 D))))) as [m3|]; [|discriminate].
      injection A3 as <-. destruct C as [-> | ->]; cbn; auto.
  Qed.
End Transcript.

(* ------------------------------------------------------------------ the hash used in runs is injective *)
Lemma ser_bytes_inj a : forall b r1 r2, ser_bytes a ++ r1 = ser_bytes b ++ r2 -> a = b /\ r1 = r2.
Proof.
  unfold ser_bytes. intros b r1 r2 E. cbn [app] in E. injection E as El E.
  assert (L : length a = length b) by (unfold len in El; lia). clear El.
  revert b r1 r2 L E. induction a as [|x a IH]; intros [|y b] r1 r2 L E; cbn [length] in L; try lia.
  - cbn [app] in E. auto.
  - cbn [app] in E. injection E as -> E. destruct (IH b r1 r2) as [-> ->]; [lia|exact E|]. auto.
Qed.

Lemma ser_item_inj i : forall j r1 r2, ser_item i ++ r1 = ser_item j ++ r2 -> i = j /\ r1 = r2.
Proof.
  intros j r1 r2 E.
  destruct i as [a|[k h pt|a]], j as [b|[k' h' pt'|b]]; cbn [ser_item ser_ct app] in E;
    try (apply (f_equal (hd 9)) in E; cbn [hd] in E; discriminate E);
    apply (f_equal (@tl N)) in E; cbn [tl] in E.
  - apply ser_bytes_inj in E as [-> ->]. auto.
  - rewrite <- !app_assoc in E.
    apply ser_bytes_inj in E as [-> E]. apply ser_bytes_inj in E as [-> E].
    apply ser_bytes_inj in E as [-> ->]. auto.
  - apply ser_bytes_inj in E as [-> ->]. auto.
Qed.

Lemma H_inst_inj a : forall b, H_inst a = H_inst b -> a = b.
Proof.
  unfold H_inst. induction a as [|i a IH]; intros [|j b] E; cbn [flat_map] in E.
  - reflexivity.
  - destruct j as [x|[k h pt|x]]; discriminate E.
  - destruct i as [x|[k h pt|x]]; discriminate E.
  - apply ser_item_inj in E as [-> E]. f_equal. apply IH. exact E.
Qed.

(* ------------------------------------------------------------------ framing of handshake messages *)
(* what first_message / second_message write is read back exactly, and the rest of the stream is
   not touched: read_handshake_message never reads ahead *)
Lemma read_frame_frame b rest :
  len b < 65536 -> read_frame (frame b ++ rest) = Some (b, rest).
Proof.
  intros L. unfold frame, read_frame. cbn [app].
  assert (E : len b / 256 * 256 + len b mod 256 = len b).
  { rewrite N.mul_comm. symmetry. apply N.div_mod. discriminate. }
  rewrite E. unfold len. rewrite Nat2N.id.
  assert (Lt : (length (b ++ rest) <? length b)%nat = false).
  { apply Nat.ltb_ge. rewrite app_length. lia. }
  clear L. rewrite Lt. rewrite firstn_app, Nat.sub_diag, firstn_all, firstn_O, app_nil_r.
  rewrite skipn_app, Nat.sub_diag, skipn_all. reflexivity.
Qed.

(* conversely: a frame that was read is the length prefix, exactly that many bytes, and the rest *)
Lemma read_frame_exact s b r :
  bytes_ok s = true -> read_frame s = Some (b, r) ->
  s = frame b ++ r /\ len b < 65536.
Proof.
  destruct s as [|hi [|lo t]]; cbn [read_frame]; try discriminate.
  intros OK. cbn [bytes_ok forallb] in OK.
  apply andb_prop in OK as [Hhi OK]. apply andb_prop in OK as [Hlo _].
  unfold is_byte in Hhi, Hlo.
  destruct (length t <? N.to_nat (hi * 256 + lo))%nat eqn:Lt; [discriminate|].
  apply Nat.ltb_ge in Lt. intros [= <- <-].
  assert (Lb : length (firstn (N.to_nat (hi * 256 + lo)) t) = N.to_nat (hi * 256 + lo)).
  { apply firstn_length_le. exact Lt. }
  split; [|unfold len; rewrite Lb, N2Nat.id; lia].
  unfold frame, len. rewrite Lb, N2Nat.id.
  assert (D : (hi * 256 + lo) / 256 = hi).
  { rewrite N.div_add_l by discriminate. rewrite N.div_small by lia. lia. }
  assert (M : (hi * 256 + lo) mod 256 = lo).
  { rewrite N.add_comm, N.mod_add by discriminate. apply N.mod_small. lia. }
  rewrite D, M. cbn [app]. rewrite firstn_skipn. reflexivity.
Qed.

(* the listener's handshake takes exactly its two frames from the stream; whatever the dialer sent
   behind message 3 (early data) is left, untouched, for the NoiseSocket *)
Lemma listener_reads_exact s m1 m3 rest :
  bytes_ok s = true -> listener_reads s = Some (m1, m3, rest) ->
  s = frame m1 ++ frame m3 ++ rest.
Proof.
  intros OK. unfold listener_reads.
  destruct (read_frame s) as [[a r1]|] eqn:R1; [|discriminate].
  destruct (read_frame r1) as [[c r3]|] eqn:R3; [|discriminate].
  intros [= <- <- <-].
  destruct (read_frame_exact _ _ _ OK R1) as [E1 _].
  assert (OK1 : bytes_ok r1 = true).
  { rewrite E1 in OK. unfold bytes_ok in OK |- *. rewrite forallb_app in OK.
    apply andb_prop in OK as [_ OK]. exact OK. }
  destruct (read_frame_exact _ _ _ OK1 R3) as [E3 _].
  rewrite E1 at 1. rewrite E3 at 1. reflexivity.
Qed.

Lemma listener_reads_frames m1 m3 rest :
  len m1 < 65536 -> len m3 < 65536 ->
  listener_reads (frame m1 ++ frame m3 ++ rest) = Some (m1, m3, rest).
Proof.
  intros L1 L3. unfold listener_reads.
  rewrite (read_frame_frame m1 _ L1), (read_frame_frame m3 _ L3). reflexivity.
Qed.

(* the identity payload of an honest node has 36 + 2 + 64 + 2 = 104 bytes, so its three messages
   have 32, 200 and 168 bytes: they fit the write buffers of first_message (256) and
   second_message (2048) and the u16 length prefix *)
Lemma honest_payload_length sign idk static :
  length idk = 32%nat -> length (sign idk (DOMAIN ++ static)) = 64%nat ->
  length (honest_payload sign idk static) = 104%nat.
Proof.
  intros Lk Ls. unfold honest_payload, encode_payload, V.C18.Model.encode_ed25519.
  repeat (rewrite app_length || cbn [length]). rewrite Ls.
  cbn. rewrite ?app_length. cbn [length]. lia.
Qed.
