(* C01 — the Noise XX handshake with libp2p identity payloads in a Dolev-Yao model: any number of
   honest dialer and listener sessions of any agents, interleaved in any order with an active
   attacker who controls the network, owns any set `asec` of Diffie-Hellman secrets and knows
   the identity keys of any set `bad` of agents.  (Proof-only development: nothing here is
   extracted or run.)

   CRYPTOGRAPHIC IDEALISATIONS (the trusted base of this layer; they are the definition of `term`
   and `knows`, plus the two Section variables):
     I1 free term algebra: hash (THash, the MixHash chain), key derivation (TMix, the MixKey
        chain), signatures, encryption and pairing have no collisions and no algebraic relations;
        the only relation is the commutativity of Diffie-Hellman, built into `dh`;
     I2 every group element is g^x for a name x (TPub x); a Diffie-Hellman output can be computed
        only from one of the two secrets (k_dh) — no other way to obtain TDH;
     I3 authenticated encryption: a plaintext is obtained from TEnc k h pt only with k (k_dec), a
        ciphertext is built only from k, h and pt (k_enc); the associated data h is not
        recoverable; a reader accepts a ciphertext iff key and associated data are its own;
     I4 signatures: TSig a t is built only with the identity secret of a (k_sig); it reveals t;
     I5 honest sessions draw secrets that are fresh and not in `asec`; they never send a secret.

   litep2p specifics kept: the static key is fresh per session (NoiseContext::new), the identity
   payload (key, signature over DOMAIN ++ static key) is assembled at session creation, the
   dialer sends message 3 together with accepting, the listener reads message 3 only for the
   message 2 it wrote itself (event Answered), and every session mixes ITS OWN prologue into the
   handshake hash (`pro`, an arbitrary assignment of prologues to sessions: empty for TCP and
   WebSocket, "libp2p-webrtc-noise:" ++ fingerprints for WebRTC).

   Results: secrecy of all honest secrets and of the session keys, authentication in the standard
   form, and AGREEMENT derived from a ciphertext-origin invariant (`encok`: every ciphertext the
   attacker can ever deliver is under a key it knows or was written by an honest session as its
   message 2 or 3) — no no-forgery hypothesis: an accepting dialer talked to one listener session of
   P that answered its own ephemeral key under the same prologue; an accepting listener talked to a
   dialer session of P that completed accepting exactly this listener with the same key. *)
From Coq Require Import List NArith Bool Lia.
Import ListNotations.
Open Scope N_scope.

Module DY.

Inductive term :=
| TData (b : list N)          (* public constants: protocol name, prologue, DOMAIN, empty payload *)
| TPub (x : N)                (* g^x *)
| TDH (x y : N)               (* g^(xy), stored with x <= y *)
| TSk (x : N)                 (* the secret x itself *)
| TIdPub (a : N)              (* identity public key of agent a (its peer id is a hash of it) *)
| TIdSk (a : N)               (* identity secret of a *)
| TSig (a : N) (t : term)
| TPair (t1 t2 : term)
| TMix (k d : term)           (* MixKey *)
| THash (h t : term)          (* MixHash *)
| TEnc (k h pt : term).       (* EncryptAndHash: key, associated data, plaintext *)

Definition dh (x y : N) : term := if x <=? y then TDH x y else TDH y x.

Arguments dh : simpl never.

Lemma dh_comm x y : dh x y = dh y x.
Proof.
  unfold dh. destruct (x <=? y) eqn:A, (y <=? x) eqn:B; try reflexivity.
  - apply N.leb_le in A. apply N.leb_le in B. assert (x = y) by lia. subst. reflexivity.
  - apply N.leb_gt in A. apply N.leb_gt in B. lia.
Qed.

Inductive event :=
| Send (t : term)                               (* a message on the network *)
| NewD (a e s : N)                              (* a dialer session of agent a with secrets e, s *)
| NewL (a e s : N)                              (* a listener session *)
| Signed (a : N) (t : term)                     (* agent a signed t in an honest session *)
| Answered (a e s y : N)                        (* the listener session (a, e, s) wrote message 2 in
                                                   answer to a received g^y *)
| AcceptD (a e s : N) (P rs : N) (K : term)     (* the dialer session completed: peer P, remote
                                                   static g^rs, session key K *)
| AcceptL (a e s : N) (P rs : N) (K : term).

(* ---- the protocol's terms ---- *)
Definition ck0 : term := TData [0].
Definition DOM : term := TData [2].
Definition empty : term := TData [].

Definition signed_part (s : N) : term := TPair DOM (TPub s).
Definition payload (a s : N) : term := TPair (TIdPub a) (TSig a (signed_part s)).

(* the handshake hash starts from the protocol name and the prologue (MixHash(prologue)): empty for
   TCP and WebSocket, "libp2p-webrtc-noise:" ++ the two DTLS fingerprints for WebRTC *)
Definition h0 (p : list N) : term := THash (TData [1]) (TData p).

(* transcript hash after message 1 (-> e, empty payload) *)
Definition hm1 (p : list N) (E : term) : term := THash (THash (h0 p) E) empty.

Section DY.
  (* the prologue each session was created with, indexed by the session's ephemeral secret (every
     session has its own): an ARBITRARY assignment, so sessions may disagree about it *)
  Variable pro : N -> list N.

(* message 2 as the listener (secrets e, s) builds it for a received g^y *)
Definition l_h1 (e y : N) : term := THash (hm1 (pro e) (TPub y)) (TPub e).
Definition l_k1 (e y : N) : term := TMix ck0 (dh e y).
Definition l_c1 (e s y : N) : term := TEnc (l_k1 e y) (l_h1 e y) (TPub s).
Definition l_h2 (e s y : N) : term := THash (l_h1 e y) (l_c1 e s y).
Definition l_k2 (e s y : N) : term := TMix (l_k1 e y) (dh s y).
Definition l_c2 (a e s y : N) : term := TEnc (l_k2 e s y) (l_h2 e s y) (payload a s).
Definition l_h3 (a e s y : N) : term := THash (l_h2 e s y) (l_c2 a e s y).
Definition msg2 (a e s y : N) : term := TPair (TPub e) (TPair (l_c1 e s y) (l_c2 a e s y)).

(* message 2 as the dialer (ephemeral e) expects it: ephemeral g^y, static g^rs, identity P *)
Definition d_h1 (e y : N) : term := THash (hm1 (pro e) (TPub e)) (TPub y).
Definition d_k1 (e y : N) : term := TMix ck0 (dh e y).
Definition d_c1 (e y rs : N) : term := TEnc (d_k1 e y) (d_h1 e y) (TPub rs).
Definition d_h2 (e y rs : N) : term := THash (d_h1 e y) (d_c1 e y rs).
Definition d_k2 (e y rs : N) : term := TMix (d_k1 e y) (dh e rs).
Definition d_c2 (e y rs P : N) : term := TEnc (d_k2 e y rs) (d_h2 e y rs) (payload P rs).
Definition d_h3 (e y rs P : N) : term := THash (d_h2 e y rs) (d_c2 e y rs P).
Definition msg2_expected (e y rs P : N) : term :=
  TPair (TPub y) (TPair (d_c1 e y rs) (d_c2 e y rs P)).

(* message 3 as the dialer builds it, and its session key *)
Definition d_c3 (e s y rs P : N) : term := TEnc (d_k2 e y rs) (d_h3 e y rs P) (TPub s).
Definition d_h4 (e s y rs P : N) : term := THash (d_h3 e y rs P) (d_c3 e s y rs P).
Definition d_key (e s y rs : N) : term := TMix (d_k2 e y rs) (dh s y).
Definition d_c4 (a e s y rs P : N) : term := TEnc (d_key e s y rs) (d_h4 e s y rs P) (payload a s).
Definition msg3 (a e s y rs P : N) : term := TPair (d_c3 e s y rs P) (d_c4 a e s y rs P).

(* message 3 as the listener (agent a, secrets e, s, having answered g^y) expects it *)
Definition l_c3 (a e s y rs : N) : term := TEnc (l_k2 e s y) (l_h3 a e s y) (TPub rs).
Definition l_h4 (a e s y rs : N) : term := THash (l_h3 a e s y) (l_c3 a e s y rs).
Definition l_key (e s y rs : N) : term := TMix (l_k2 e s y) (dh e rs).
Definition l_c4 (a e s y rs P : N) : term := TEnc (l_key e s y rs) (l_h4 a e s y rs) (payload P rs).
Definition msg3_expected (a e s y rs P : N) : term := TPair (l_c3 a e s y rs) (l_c4 a e s y rs P).

  Variable asec : N -> Prop.     (* Diffie-Hellman secrets owned by the attacker *)
  Variable bad : N -> Prop.      (* agents whose identity secret the attacker knows *)

  (* attacker knowledge: a set that grows with the trace and is closed under the operations *)
  Inductive knows (tr : list event) : term -> Prop :=
  | k_sent t : In (Send t) tr -> knows tr t
  | k_data b : knows tr (TData b)
  | k_pub x : knows tr (TPub x)
  | k_idpub a : knows tr (TIdPub a)
  | k_sk x : asec x -> knows tr (TSk x)
  | k_idsk a : bad a -> knows tr (TIdSk a)
  | k_dh x y : knows tr (TSk x) -> knows tr (dh x y)
  | k_sig a t : knows tr (TIdSk a) -> knows tr t -> knows tr (TSig a t)
  | k_sig_open a t : knows tr (TSig a t) -> knows tr t
  | k_pair t1 t2 : knows tr t1 -> knows tr t2 -> knows tr (TPair t1 t2)
  | k_fst t1 t2 : knows tr (TPair t1 t2) -> knows tr t1
  | k_snd t1 t2 : knows tr (TPair t1 t2) -> knows tr t2
  | k_mix k d : knows tr k -> knows tr d -> knows tr (TMix k d)
  | k_hash h t : knows tr h -> knows tr t -> knows tr (THash h t)
  | k_enc k h pt : knows tr k -> knows tr h -> knows tr pt -> knows tr (TEnc k h pt)
  | k_dec k h pt : knows tr (TEnc k h pt) -> knows tr k -> knows tr pt.

  Definition used (tr : list event) (x : N) : Prop :=
    exists a e s, (In (NewD a e s) tr \/ In (NewL a e s) tr) /\ (x = e \/ x = s).

  Definition fresh (tr : list event) (x : N) : Prop := ~ asec x /\ ~ used tr x.

  (* all traces: any interleaving of attacker sends and steps of any honest sessions; a session
     may take its steps at any time after the steps they depend on, and more than once *)
  Inductive valid : list event -> Prop :=
  | v_nil : valid []
  | v_fake tr t : valid tr -> knows tr t -> valid (Send t :: tr)
  | v_newD tr a e s :
      valid tr -> fresh tr e -> fresh tr s -> e <> s ->
      valid (Send (TPub e) :: Signed a (signed_part s) :: NewD a e s :: tr)
  | v_newL tr a e s :
      valid tr -> fresh tr e -> fresh tr s -> e <> s ->
      valid (Signed a (signed_part s) :: NewL a e s :: tr)
  | v_L2 tr a e s y :                       (* the listener answers some received g^y *)
      valid tr -> In (NewL a e s) tr ->
      valid (Send (msg2 a e s y) :: Answered a e s y :: tr)
  | v_D3 tr a e s y rs P :                  (* the dialer reads message 2, writes 3, accepts P *)
      valid tr -> In (NewD a e s) tr -> knows tr (msg2_expected e y rs P) ->
      valid (AcceptD a e s P rs (d_key e s y rs) :: Send (msg3 a e s y rs P) :: tr)
  | v_L4 tr a e s y rs P :                  (* the listener reads message 3, accepts P *)
      valid tr -> In (NewL a e s) tr -> In (Answered a e s y) tr ->
      knows tr (msg3_expected a e s y rs P) ->
      valid (AcceptL a e s P rs (l_key e s y rs) :: tr).

  (* ---- monotonicity ---- *)
  Lemma knows_mono tr tr' t : incl tr tr' -> knows tr t -> knows tr' t.
  Proof.
    intros I K. induction K.
    - apply k_sent. apply I. assumption.
    - apply k_data.
    - apply k_pub.
    - apply k_idpub.
    - apply k_sk; assumption.
    - apply k_idsk; assumption.
    - apply k_dh; assumption.
    - apply k_sig; assumption.
    - eapply k_sig_open; eassumption.
    - apply k_pair; assumption.
    - eapply k_fst; eassumption.
    - eapply k_snd; eassumption.
    - apply k_mix; assumption.
    - apply k_hash; assumption.
    - apply k_enc; assumption.
    - eapply k_dec; eassumption.
  Qed.

  (* ---- what may ever become public ---- *)
  Fixpoint pub (t : term) : Prop :=
    match t with
    | TData _ | TPub _ | TIdPub _ => True
    | TDH x y => asec x \/ asec y
    | TSk x => asec x
    | TIdSk a => bad a
    | TSig _ t => pub t
    | TPair a b => pub a /\ pub b
    | TMix k d => pub k /\ pub d
    | THash h t => pub h /\ pub t
    | TEnc k _ pt => pub k -> pub pt
    end.

  Lemma pub_dh x y : pub (dh x y) <-> asec x \/ asec y.
  Proof. unfold dh. destruct (x <=? y); cbn [pub]; tauto. Qed.

  Lemma knows_pub tr :
    (forall t, In (Send t) tr -> pub t) -> forall t, knows tr t -> pub t.
  Proof.
    intros S t K. induction K; cbn [pub] in *; try tauto.
    - apply S. assumption.
    - apply pub_dh. left. assumption.
  Qed.

  Lemma payload_pub a s : pub (payload a s).
  Proof. cbn. tauto. Qed.

  Lemma valid_sent_pub tr : valid tr -> forall t, In (Send t) tr -> pub t.
  Proof.
    induction 1 as [|tr t V IH K|tr a e s V IH|tr a e s V IH|tr a e s y V IH I|
                    tr a e s y rs P V IH I K|tr a e s y rs P V IH I I2 K]; intros u U.
    - destruct U.
    - destruct U as [[= <-]|U]; [exact (knows_pub tr IH t K) | exact (IH u U)].
    - destruct U as [[= <-]|[U|[U|U]]]; try discriminate; [exact I | exact (IH u U)].
    - destruct U as [U|[U|U]]; try discriminate. exact (IH u U).
    - destruct U as [[= <-]|[U|U]]; try discriminate; [|exact (IH u U)].
      unfold msg2, l_c1, l_c2. cbn [pub]. pose proof (payload_pub a s). cbn [pub] in *. tauto.
    - destruct U as [U|[[= <-]|U]]; try discriminate; [|exact (IH u U)].
      unfold msg3, d_c3, d_c4. pose proof (payload_pub a s). cbn [pub] in *. tauto.
    - destruct U as [U|U]; try discriminate. exact (IH u U).
  Qed.

  Theorem knows_only_public tr t : valid tr -> knows tr t -> pub t.
  Proof. intros V. apply knows_pub. apply valid_sent_pub. exact V. Qed.

  (* ---- honest sessions own honest, session-unique secrets ---- *)
  Lemma session_secrets tr :
    valid tr -> forall a e s, In (NewD a e s) tr \/ In (NewL a e s) tr -> ~ asec e /\ ~ asec s.
  Proof.
    induction 1 as [|tr t V IH K|tr a0 e0 s0 V IH Fe Fs|tr a0 e0 s0 V IH Fe Fs|tr a0 e0 s0 y V IH I|
                    tr a0 e0 s0 y rs P V IH I K|tr a0 e0 s0 y rs P V IH I I2 K]; intros a e s U.
    - destruct U as [[]|[]].
    - apply (IH a e s). destruct U as [[U|U]|[U|U]]; try discriminate; auto.
    - destruct U as [[U|[U|[U|U]]]|[U|[U|[U|U]]]]; try discriminate; try (apply (IH a e s); auto; fail).
      injection U as <- <- <-. split; [apply Fe|apply Fs].
    - destruct U as [[U|[U|U]]|[U|[U|U]]]; try discriminate; try (apply (IH a e s); auto; fail).
      injection U as <- <- <-. split; [apply Fe|apply Fs].
    - apply (IH a e s). destruct U as [[U|[U|U]]|[U|[U|U]]]; try discriminate; auto.
    - apply (IH a e s). destruct U as [[U|[U|U]]|[U|[U|U]]]; try discriminate; auto.
    - apply (IH a e s). destruct U as [[U|U]|[U|U]]; try discriminate; auto.
  Qed.

  (* ---- signatures of uncompromised agents come from their honest sessions ---- *)
  Fixpoint sigok (tr : list event) (t : term) : Prop :=
    match t with
    | TSig a u => (bad a \/ In (Signed a u) tr) /\ sigok tr u
    | TPair a b | TMix a b | THash a b => sigok tr a /\ sigok tr b
    | TEnc k h pt => sigok tr k /\ sigok tr h /\ sigok tr pt
    | _ => True
    end.

  Lemma sigok_mono tr tr' t : incl tr tr' -> sigok tr t -> sigok tr' t.
  Proof.
    intros I. induction t; cbn [sigok]; try tauto.
    intros [[B|S] U]; (split; [|tauto]); [left; exact B | right; apply I; exact S].
  Qed.

  Lemma sigok_dh tr x y : sigok tr (dh x y).
  Proof. unfold dh. destruct (x <=? y); exact I. Qed.

  Lemma knows_sigok tr :
    (forall t, In (Send t) tr -> pub t) -> (forall t, In (Send t) tr -> sigok tr t) ->
    forall t, knows tr t -> sigok tr t.
  Proof.
    intros SP SS t K. induction K; cbn [sigok] in *; try tauto.
    - apply SS. assumption.
    - apply sigok_dh.
    - split; [|assumption]. left. exact (knows_pub tr SP _ K1).
  Qed.

  Lemma new_session_signed tr :
    valid tr -> forall a e s, In (NewD a e s) tr \/ In (NewL a e s) tr ->
    In (Signed a (signed_part s)) tr.
  Proof.
    induction 1 as [|tr t V IH K|tr a0 e0 s0 V IH Fe Fs|tr a0 e0 s0 V IH Fe Fs|tr a0 e0 s0 y V IH I|
                    tr a0 e0 s0 y rs P V IH I K|tr a0 e0 s0 y rs P V IH I I2 K]; intros a e s U.
    - destruct U as [[]|[]].
    - right. apply (IH a e s). destruct U as [[U|U]|[U|U]]; try discriminate; auto.
    - destruct U as [[U|[U|[U|U]]]|[U|[U|[U|U]]]]; try discriminate.
      + injection U as <- <- <-. right. left. reflexivity.
      + do 3 right. apply (IH a e s). auto.
      + do 3 right. apply (IH a e s). auto.
    - destruct U as [[U|[U|U]]|[U|[U|U]]]; try discriminate.
      + do 2 right. apply (IH a e s). auto.
      + injection U as <- <- <-. left. reflexivity.
      + do 2 right. apply (IH a e s). auto.
    - do 2 right. apply (IH a e s). destruct U as [[U|[U|U]]|[U|[U|U]]]; try discriminate; auto.
    - do 2 right. apply (IH a e s). destruct U as [[U|[U|U]]|[U|[U|U]]]; try discriminate; auto.
    - right. apply (IH a e s). destruct U as [[U|U]|[U|U]]; try discriminate; auto.
  Qed.

  Lemma payload_sigok tr a s : In (Signed a (signed_part s)) tr -> sigok tr (payload a s).
  Proof. intros S. cbn. tauto. Qed.

  Lemma valid_sent_sigok tr : valid tr -> forall t, In (Send t) tr -> sigok tr t.
  Proof.
    induction 1 as [|tr t V IH K|tr a e s V IH|tr a e s V IH|tr a e s y V IH I|
                    tr a e s y rs P V IH I K|tr a e s y rs P V IH I I2 K]; intros u U.
    - destruct U.
    - destruct U as [[= <-]|U].
      + apply (sigok_mono tr); [apply incl_tl, incl_refl|].
        exact (knows_sigok tr (valid_sent_pub tr V) IH t K).
      + apply (sigok_mono tr); [apply incl_tl, incl_refl|]. exact (IH u U).
    - destruct U as [[= <-]|[U|[U|U]]]; try discriminate; [exact I|].
      apply (sigok_mono tr); [do 3 apply incl_tl; apply incl_refl|]. exact (IH u U).
    - destruct U as [U|[U|U]]; try discriminate.
      apply (sigok_mono tr); [do 2 apply incl_tl; apply incl_refl|]. exact (IH u U).
    - destruct U as [[= <-]|[U|U]]; try discriminate.
      + apply (sigok_mono tr); [do 2 apply incl_tl; apply incl_refl|].
        pose proof (new_session_signed tr V a e s (or_intror I)) as S.
        pose proof (payload_sigok tr a s S) as PS.
        pose proof (sigok_dh tr e y). pose proof (sigok_dh tr s y). cbn in PS |- *. tauto.
      + apply (sigok_mono tr); [do 2 apply incl_tl; apply incl_refl|]. exact (IH u U).
    - destruct U as [U|[[= <-]|U]]; try discriminate.
      + apply (sigok_mono tr); [do 2 apply incl_tl; apply incl_refl|].
        pose proof (new_session_signed tr V a e s (or_introl I)) as S.
        pose proof (payload_sigok tr a s S) as PS.
        pose proof (knows_sigok tr (valid_sent_pub tr V) IH _ K) as M2.
        pose proof (sigok_dh tr s y). cbn in M2, PS |- *. tauto.
      + apply (sigok_mono tr); [do 2 apply incl_tl; apply incl_refl|]. exact (IH u U).
    - destruct U as [U|U]; try discriminate.
      apply (sigok_mono tr); [apply incl_tl, incl_refl|]. exact (IH u U).
  Qed.

  Lemma signed_origin tr :
    valid tr -> forall a u, In (Signed a u) tr ->
    exists e s, u = signed_part s /\ (In (NewD a e s) tr \/ In (NewL a e s) tr).
  Proof.
    induction 1 as [|tr t V IH K|tr a0 e0 s0 V IH Fe Fs|tr a0 e0 s0 V IH Fe Fs|tr a0 e0 s0 y V IH I|
                    tr a0 e0 s0 y rs P V IH I K|tr a0 e0 s0 y rs P V IH I I2 K]; intros a u U.
    - destruct U.
    - destruct U as [U|U]; try discriminate.
      destruct (IH a u U) as (e & s & E & O). exists e, s. split; [exact E|]. destruct O; [left|right]; right; assumption.
    - destruct U as [U|[U|[U|U]]]; try discriminate.
      + injection U as <- <-. exists e0, s0. split; [reflexivity|]. left. do 2 right. left. reflexivity.
      + destruct (IH a u U) as (e & s & E & O). exists e, s. split; [exact E|].
        destruct O; [left|right]; do 3 right; assumption.
    - destruct U as [U|[U|U]]; try discriminate.
      + injection U as <- <-. exists e0, s0. split; [reflexivity|]. right. right. left. reflexivity.
      + destruct (IH a u U) as (e & s & E & O). exists e, s. split; [exact E|].
        destruct O; [left|right]; do 2 right; assumption.
    - destruct U as [U|[U|U]]; try discriminate.
      destruct (IH a u U) as (e & s & E & O). exists e, s. split; [exact E|].
      destruct O; [left|right]; do 2 right; assumption.
    - destruct U as [U|[U|U]]; try discriminate.
      destruct (IH a u U) as (e & s & E & O). exists e, s. split; [exact E|].
      destruct O; [left|right]; do 2 right; assumption.
    - destruct U as [U|U]; try discriminate.
      destruct (IH a u U) as (e & s & E & O). exists e, s. split; [exact E|]. destruct O; [left|right]; right; assumption.
  Qed.

  (* an identity payload of an uncompromised agent that the attacker can deliver names the static
     key of an honest session of that agent *)
  Lemma delivered_payload tr P rs t :
    valid tr -> knows tr t -> ~ bad P ->
    (sigok tr t -> sigok tr (payload P rs)) ->
    In (Signed P (signed_part rs)) tr /\
    exists e', (In (NewD P e' rs) tr \/ In (NewL P e' rs) tr).
  Proof.
    intros V K G Sub.
    pose proof (knows_sigok tr (valid_sent_pub tr V) (valid_sent_sigok tr V) t K) as ST.
    apply Sub in ST. cbn [payload sigok] in ST. destruct ST as (_ & [B|S] & _); [contradiction|].
    split; [exact S|].
    destruct (signed_origin tr V P _ S) as (e & s & E & O).
    unfold signed_part in E. injection E as <-. exists e. exact O.
  Qed.

  (* ---- where an acceptance comes from ---- *)
  Lemma acceptD_origin tr :
    valid tr -> forall a e s P rs K, In (AcceptD a e s P rs K) tr ->
    exists tr0 y, incl tr0 tr /\ valid tr0 /\ In (NewD a e s) tr0 /\
                  knows tr0 (msg2_expected e y rs P) /\ K = d_key e s y rs /\
                  In (Send (msg3 a e s y rs P)) tr.
  Proof.
    induction 1 as [|tr t V IH K0|tr a0 e0 s0 V IH Fe Fs|tr a0 e0 s0 V IH Fe Fs|tr a0 e0 s0 y0 V IH I|
                    tr a0 e0 s0 y0 rs0 P0 V IH I K0|tr a0 e0 s0 y0 rs0 P0 V IH I I2 K0];
      intros a e s P rs K U.
    - destruct U.
    - destruct U as [U|U]; try discriminate.
      destruct (IH _ _ _ _ _ _ U) as (tr0 & y & I0 & R). exists tr0, y.
      split; [apply incl_tl; exact I0|]. destruct R as (R1 & R2 & R3 & R4 & R5). repeat split; auto. right. exact R5.
    - destruct U as [U|[U|[U|U]]]; try discriminate.
      destruct (IH _ _ _ _ _ _ U) as (tr0 & y & I0 & R). exists tr0, y.
      split; [do 3 apply incl_tl; exact I0|]. destruct R as (R1 & R2 & R3 & R4 & R5). repeat split; auto. do 3 right. exact R5.
    - destruct U as [U|[U|U]]; try discriminate.
      destruct (IH _ _ _ _ _ _ U) as (tr0 & y & I0 & R). exists tr0, y.
      split; [do 2 apply incl_tl; exact I0|]. destruct R as (R1 & R2 & R3 & R4 & R5). repeat split; auto. do 2 right. exact R5.
    - destruct U as [U|[U|U]]; try discriminate.
      destruct (IH _ _ _ _ _ _ U) as (tr0 & y & I0 & R). exists tr0, y.
      split; [do 2 apply incl_tl; exact I0|]. destruct R as (R1 & R2 & R3 & R4 & R5). repeat split; auto. do 2 right. exact R5.
    - destruct U as [U|[U|U]]; try discriminate.
      + injection U as <- <- <- <- <- <-. exists tr, y0.
        split; [do 2 apply incl_tl; apply incl_refl|]. repeat split; auto. right. left. reflexivity.
      + destruct (IH _ _ _ _ _ _ U) as (tr0 & y & I0 & R). exists tr0, y.
        split; [do 2 apply incl_tl; exact I0|]. destruct R as (R1 & R2 & R3 & R4 & R5). repeat split; auto. do 2 right. exact R5.
    - destruct U as [U|U]; try discriminate.
      destruct (IH _ _ _ _ _ _ U) as (tr0 & y & I0 & R). exists tr0, y.
      split; [apply incl_tl; exact I0|]. destruct R as (R1 & R2 & R3 & R4 & R5). repeat split; auto. right. exact R5.
  Qed.

  Lemma acceptL_origin tr :
    valid tr -> forall a e s P rs K, In (AcceptL a e s P rs K) tr ->
    exists tr0 y, incl tr0 tr /\ valid tr0 /\ In (NewL a e s) tr0 /\
                  In (Answered a e s y) tr0 /\
                  knows tr0 (msg3_expected a e s y rs P) /\ K = l_key e s y rs.
  Proof.
    induction 1 as [|tr t V IH K0|tr a0 e0 s0 V IH Fe Fs|tr a0 e0 s0 V IH Fe Fs|tr a0 e0 s0 y0 V IH I|
                    tr a0 e0 s0 y0 rs0 P0 V IH I K0|tr a0 e0 s0 y0 rs0 P0 V IH I I2 K0];
      intros a e s P rs K U.
    - destruct U.
    - destruct U as [U|U]; try discriminate.
      destruct (IH _ _ _ _ _ _ U) as (tr0 & y & I0 & R). exists tr0, y. split; [apply incl_tl; exact I0|exact R].
    - destruct U as [U|[U|[U|U]]]; try discriminate.
      destruct (IH _ _ _ _ _ _ U) as (tr0 & y & I0 & R). exists tr0, y. split; [do 3 apply incl_tl; exact I0|exact R].
    - destruct U as [U|[U|U]]; try discriminate.
      destruct (IH _ _ _ _ _ _ U) as (tr0 & y & I0 & R). exists tr0, y. split; [do 2 apply incl_tl; exact I0|exact R].
    - destruct U as [U|[U|U]]; try discriminate.
      destruct (IH _ _ _ _ _ _ U) as (tr0 & y & I0 & R). exists tr0, y. split; [do 2 apply incl_tl; exact I0|exact R].
    - destruct U as [U|[U|U]]; try discriminate.
      destruct (IH _ _ _ _ _ _ U) as (tr0 & y & I0 & R). exists tr0, y. split; [do 2 apply incl_tl; exact I0|exact R].
    - destruct U as [U|U].
      + injection U as <- <- <- <- <- <-. exists tr, y0. split; [apply incl_tl, incl_refl|]. repeat split; auto.
      + destruct (IH _ _ _ _ _ _ U) as (tr0 & y & I0 & R). exists tr0, y. split; [apply incl_tl; exact I0|exact R].
  Qed.

  (* ---- authentication and key secrecy, in the standard form ---- *)
  (* If an honest dialer session completes believing that it talks to P, then — unless P's
     identity key is compromised — P signed, in one of its honest sessions, the very static key
     g^rs that the dialer's session key is bound to, and the attacker never learns the session
     key (in this or any longer trace: the statement holds for every valid trace containing the
     acceptance), because the key mixes g^(e*rs) whose two exponents belong to the dialer's
     session and to that session of P. *)
  Theorem dialer_authenticates tr a e s P rs K :
    valid tr -> In (AcceptD a e s P rs K) tr -> ~ bad P ->
    In (Signed P (signed_part rs)) tr /\
    (exists e', In (NewD P e' rs) tr \/ In (NewL P e' rs) tr) /\
    ~ asec e /\ ~ asec rs /\
    (exists k y, K = TMix (TMix k (dh e rs)) (dh s y)) /\
    ~ knows tr K.
  Proof.
    intros V A G.
    destruct (acceptD_origin tr V _ _ _ _ _ _ A) as (tr0 & y & I0 & V0 & N0 & K0 & -> & _).
    destruct (delivered_payload tr0 P rs _ V0 K0 G) as (S & e' & O).
    { unfold msg2_expected, d_c2. cbn [sigok]. tauto. }
    assert (O' : In (NewD P e' rs) tr \/ In (NewL P e' rs) tr) by (destruct O; [left|right]; apply I0; assumption).
    destruct (session_secrets tr V P e' rs O') as [_ Hrs].
    destruct (session_secrets tr V a e s (or_introl (I0 _ N0))) as [He _].
    repeat split.
    - apply I0. exact S.
    - exists e'. exact O'.
    - exact He.
    - exact Hrs.
    - exists (d_k1 e y), y. reflexivity.
    - intros KK. apply (knows_only_public tr _ V) in KK.
      unfold d_key, d_k2 in KK. cbn [pub] in KK. destruct KK as [[_ KK] _].
      apply pub_dh in KK. tauto.
  Qed.

  Theorem listener_authenticates tr a e s P rs K :
    valid tr -> In (AcceptL a e s P rs K) tr -> ~ bad P ->
    In (Signed P (signed_part rs)) tr /\
    (exists e', In (NewD P e' rs) tr \/ In (NewL P e' rs) tr) /\
    ~ asec e /\ ~ asec rs /\
    (exists k, K = TMix k (dh e rs)) /\
    ~ knows tr K.
  Proof.
    intros V A G.
    destruct (acceptL_origin tr V _ _ _ _ _ _ A) as (tr0 & y & I0 & V0 & N0 & _ & K0 & ->).
    destruct (delivered_payload tr0 P rs _ V0 K0 G) as (S & e' & O).
    { unfold msg3_expected, l_c4. cbn [sigok]. tauto. }
    assert (O' : In (NewD P e' rs) tr \/ In (NewL P e' rs) tr) by (destruct O; [left|right]; apply I0; assumption).
    destruct (session_secrets tr V P e' rs O') as [_ Hrs].
    destruct (session_secrets tr V a e s (or_intror (I0 _ N0))) as [He _].
    repeat split.
    - apply I0. exact S.
    - exists e'. exact O'.
    - exact He.
    - exact Hrs.
    - exists (l_k2 e s y). reflexivity.
    - intros KK. apply (knows_only_public tr _ V) in KK.
      unfold l_key in KK. cbn [pub] in KK. destruct KK as [_ KK].
      apply pub_dh in KK. tauto.
  Qed.

  (* the secrets of honest sessions never leak, whatever the attacker does *)
  Theorem session_secrets_never_leak tr a e s :
    valid tr -> In (NewD a e s) tr \/ In (NewL a e s) tr ->
    ~ knows tr (TSk e) /\ ~ knows tr (TSk s).
  Proof.
    intros V U. destruct (session_secrets tr V a e s U) as [He Hs].
    split; intros K; apply (knows_only_public tr _ V) in K; cbn [pub] in K; tauto.
  Qed.

  (* the identity secret of an uncompromised agent never leaks *)
  Theorem identity_secret_never_leaks tr a : valid tr -> ~ bad a -> ~ knows tr (TIdSk a).
  Proof. intros V G K. apply (knows_only_public tr _ V) in K. exact (G K). Qed.

  (* ---- every secret belongs to exactly one session, in one role ---- *)
  Definition names (ev : event) : list N :=
    match ev with NewD _ e s | NewL _ e s => [e; s] | _ => [] end.

  Lemma used_names tr x : In x (flat_map names tr) -> used tr x.
  Proof.
    intros I. apply in_flat_map in I as (ev & E & X).
    destruct ev as [t|a e s|a e s|a t|a e s y|a e s P rs K|a e s P rs K]; cbn [names] in X; try contradiction.
    - exists a, e, s. split; [left; exact E|]. destruct X as [<-|[<-|[]]]; auto.
    - exists a, e, s. split; [right; exact E|]. destruct X as [<-|[<-|[]]]; auto.
  Qed.

  Lemma names_nodup tr : valid tr -> NoDup (flat_map names tr).
  Proof.
    induction 1 as [|tr t V IH K|tr a e s V IH Fe Fs Ne|tr a e s V IH Fe Fs Ne|tr a e s y V IH I|
                    tr a e s y rs P V IH I K|tr a e s y rs P V IH I I2 K]; cbn [flat_map names app];
      try assumption; try constructor.
    - intros [E|U]; [congruence|]. apply Fe. apply used_names. exact U.
    - constructor; [|exact IH]. intros U. apply Fs. apply used_names. exact U.
    - intros [E|U]; [congruence|]. apply Fe. apply used_names. exact U.
    - constructor; [|exact IH]. intros U. apply Fs. apply used_names. exact U.
  Qed.

  Lemma flat_map_unique (f : event -> list N) l :
    NoDup (flat_map f l) -> forall a b x, In a l -> In b l -> In x (f a) -> In x (f b) -> a = b.
  Proof.
    induction l as [|h t IH]; intros ND a b x A B XA XB; [destruct A|].
    cbn [flat_map] in ND.
    assert (NDt : NoDup (flat_map f t)).
    { clear - ND. induction (f h) as [|z r IHr]; [exact ND|]. cbn [app] in ND. inversion ND. auto. }
    assert (Disj : forall y ev, In y (f h) -> In ev t -> In y (f ev) -> False).
    { intros y ev Y E YE. clear - ND Y E YE.
      induction (f h) as [|z r IHr]; [destruct Y|]. cbn [app] in ND. inversion ND as [|? ? NI ND']. subst.
      destruct Y as [->|Y]; [|exact (IHr ND' Y)].
      apply NI. apply in_or_app. right. apply in_flat_map. exists ev. auto. }
    destruct A as [<-|A], B as [<-|B].
    - reflexivity.
    - exfalso. exact (Disj x b XA B XB).
    - exfalso. exact (Disj x a XB A XA).
    - exact (IH NDt a b x A B XA XB).
  Qed.

  Lemma owner_unique tr ev1 ev2 x :
    valid tr -> In ev1 tr -> In ev2 tr -> In x (names ev1) -> In x (names ev2) -> ev1 = ev2.
  Proof. intros V. apply flat_map_unique. apply names_nodup. exact V. Qed.

  Lemma session_distinct tr :
    valid tr -> forall a e s, In (NewD a e s) tr \/ In (NewL a e s) tr -> e <> s.
  Proof.
    induction 1 as [|tr t V IH K|tr a0 e0 s0 V IH Fe Fs Ne|tr a0 e0 s0 V IH Fe Fs Ne|tr a0 e0 s0 y V IH I|
                    tr a0 e0 s0 y rs P V IH I K|tr a0 e0 s0 y rs P V IH I I2 K]; intros a e s U.
    - destruct U as [[]|[]].
    - apply (IH a e s). destruct U as [[U|U]|[U|U]]; try discriminate; auto.
    - destruct U as [[U|[U|[U|U]]]|[U|[U|[U|U]]]]; try discriminate; try (apply (IH a e s); auto; fail).
      injection U as <- <- <-. exact Ne.
    - destruct U as [[U|[U|U]]|[U|[U|U]]]; try discriminate; try (apply (IH a e s); auto; fail).
      injection U as <- <- <-. exact Ne.
    - apply (IH a e s). destruct U as [[U|[U|U]]|[U|[U|U]]]; try discriminate; auto.
    - apply (IH a e s). destruct U as [[U|[U|U]]|[U|[U|U]]]; try discriminate; auto.
    - apply (IH a e s). destruct U as [[U|U]|[U|U]]; try discriminate; auto.
  Qed.

  Lemma dh_inj a b c d : dh a b = dh c d -> (a = c /\ b = d) \/ (a = d /\ b = c).
  Proof.
    unfold dh. destruct (a <=? b), (c <=? d); intros [= -> ->]; auto.
  Qed.

  (* the session key is shared with the holder of the authenticated static key and with nobody
     else: an honest listener session that completes with the same key as an honest dialer
     session is the session that owns the static key the dialer authenticated, it authenticated
     the dialer's static key in turn, and (for uncompromised identities) each is the agent the
     other believes in *)
  Theorem matching_sessions tr a e s P rs a' e' s' P' rs' K :
    valid tr -> In (AcceptD a e s P rs K) tr -> In (AcceptL a' e' s' P' rs' K) tr ->
    rs = s' /\ rs' = s /\ (~ bad P -> a' = P) /\ (~ bad P' -> a = P').
  Proof.
    intros V AD AL.
    destruct (acceptD_origin tr V _ _ _ _ _ _ AD) as (trD & y & ID & VD & ND & KD & EK & _).
    destruct (acceptL_origin tr V _ _ _ _ _ _ AL) as (trL & y' & IL & VL & NL & _ & KL & EK').
    apply ID in ND. apply IL in NL.
    rewrite EK in EK'. unfold d_key, l_key, d_k2, l_k2, d_k1, l_k1 in EK'.
    injection EK' as E1 E2 E3.
    assert (X : forall x z, In x [e; s] -> In z [e'; s'] -> x <> z).
    { intros x z Ix Iz Exz. subst z.
      pose proof (owner_unique tr (NewD a e s) (NewL a' e' s') x V ND NL Ix Iz). discriminate. }
    assert (Xee : e <> e') by (apply X; cbn; auto).
    assert (Xes : e <> s') by (apply X; cbn; auto).
    assert (Xse : s <> e') by (apply X; cbn; auto).
    apply dh_inj in E1 as [[E1 _]|[-> ->]]; [contradiction|].
    apply dh_inj in E2 as [[E2 _]|[_ E2]]; [congruence|].
    apply dh_inj in E3 as [[E3 _]|[E3 _]]; [congruence|].
    subst rs rs'. repeat split; auto.
    - intros G. destruct (dialer_authenticates tr _ _ _ _ _ _ V AD G) as (_ & (e2 & O) & _).
      destruct O as [O|O].
      + pose proof (owner_unique tr (NewD P e2 s') _ s' V O NL) as Q.
        cbn in Q. discriminate Q; auto.
      + pose proof (owner_unique tr (NewL P e2 s') _ s' V O NL) as Q.
        cbn in Q. injection Q; auto.
    - intros G. destruct (listener_authenticates tr _ _ _ _ _ _ V AL G) as (_ & (e2 & O) & _).
      destruct O as [O|O].
      + pose proof (owner_unique tr (NewD P' e2 s) _ s V O ND) as Q.
        cbn in Q. injection Q; auto.
      + pose proof (owner_unique tr (NewL P' e2 s) _ s V O ND) as Q.
        cbn in Q. discriminate Q; auto.
  Qed.
  (* only listener sessions answer *)
  Lemma answered_origin tr :
    valid tr -> forall a e s y, In (Answered a e s y) tr -> In (NewL a e s) tr.
  Proof.
    induction 1 as [|tr t V IH K|tr a0 e0 s0 V IH Fe Fs|tr a0 e0 s0 V IH Fe Fs|tr a0 e0 s0 y0 V IH I|
                    tr a0 e0 s0 y0 rs P V IH I K|tr a0 e0 s0 y0 rs P V IH I I2 K]; intros a e s y U.
    - destruct U.
    - right. apply (IH a e s y). destruct U as [U|U]; try discriminate; auto.
    - do 3 right. apply (IH a e s y). destruct U as [U|[U|[U|U]]]; try discriminate; auto.
    - do 2 right. apply (IH a e s y). destruct U as [U|[U|U]]; try discriminate; auto.
    - do 2 right. destruct U as [U|[U|U]]; try discriminate.
      + injection U as <- <- <- <-. exact I.
      + exact (IH a e s y U).
    - do 2 right. apply (IH a e s y). destruct U as [U|[U|U]]; try discriminate; auto.
    - right. apply (IH a e s y). destruct U as [U|U]; try discriminate; auto.
  Qed.

  (* ================================================================================ *)
  (* ---- where ciphertexts come from: transcript agreement ---- *)
  (* a ciphertext under a key the attacker cannot know was made by an honest session: by a
     listener session writing message 2, or by a dialer session writing message 3 *)
  Definition honest_enc (tr : list event) (c : term) : Prop :=
    (exists a e s y, In (Answered a e s y) tr /\ (c = l_c1 e s y \/ c = l_c2 a e s y)) \/
    (exists a e s y rs P, In (AcceptD a e s P rs (d_key e s y rs)) tr /\
                          (c = d_c3 e s y rs P \/ c = d_c4 a e s y rs P)).

  Fixpoint encok (tr : list event) (t : term) : Prop :=
    match t with
    | TEnc k h pt => (pub k \/ honest_enc tr (TEnc k h pt)) /\ encok tr k /\ encok tr h /\ encok tr pt
    | TSig _ u => encok tr u
    | TPair a b | TMix a b | THash a b => encok tr a /\ encok tr b
    | _ => True
    end.

  Lemma honest_enc_mono tr tr' c : incl tr tr' -> honest_enc tr c -> honest_enc tr' c.
  Proof.
    intros I [(a & e & s & y & N0 & E)|(a & e & s & y & rs & P & A & E)].
    - left. exists a, e, s, y. split; [apply I; exact N0|exact E].
    - right. exists a, e, s, y, rs, P. split; [apply I; exact A|exact E].
  Qed.

  Lemma encok_mono tr tr' t : incl tr tr' -> encok tr t -> encok tr' t.
  Proof.
    intros I. induction t; cbn [encok]; try tauto.
    intros [[B|Hc] R]; (split; [|tauto]); [left; exact B | right; exact (honest_enc_mono _ _ _ I Hc)].
  Qed.

  Lemma encok_dh tr x y : encok tr (dh x y).
  Proof. unfold dh. destruct (x <=? y); exact I. Qed.

  Lemma knows_encok tr :
    (forall t, In (Send t) tr -> pub t) -> (forall t, In (Send t) tr -> encok tr t) ->
    forall t, knows tr t -> encok tr t.
  Proof.
    intros SP SE t K. induction K; cbn [encok] in *; try tauto.
    - apply SE. assumption.
    - apply encok_dh.
    - split; [|tauto]. left. exact (knows_pub tr SP _ K1).
  Qed.

  Lemma payload_encok tr a s : encok tr (payload a s).
  Proof. cbn. tauto. Qed.

  Ltac atoms := repeat (cbn [encok]; first [exact I | apply encok_dh | split]).

  Lemma l_c1_encok tr a e s y : In (Answered a e s y) tr -> encok tr (l_c1 e s y).
  Proof.
    intros N0. unfold l_c1. cbn [encok]. split.
    - right. left. exists a, e, s, y. split; [exact N0|left; reflexivity].
    - unfold l_k1, l_h1, hm1, h0, ck0, empty. atoms.
  Qed.

  Lemma l_c2_encok tr a e s y : In (Answered a e s y) tr -> encok tr (l_c2 a e s y).
  Proof.
    intros N0. pose proof (l_c1_encok tr a e s y N0) as C1.
    unfold l_c2. cbn [encok]. split; [|split; [|split]].
    - right. left. exists a, e, s, y. split; [exact N0|right; reflexivity].
    - unfold l_k2, l_k1, ck0. atoms.
    - unfold l_h2. cbn [encok]. split; [|exact C1]. unfold l_h1, hm1, h0, empty. atoms.
    - apply payload_encok.
  Qed.

  Lemma d_h3_encok tr e y rs P :
    encok tr (d_c1 e y rs) -> encok tr (d_c2 e y rs P) -> encok tr (d_h3 e y rs P).
  Proof.
    intros C1 C2. unfold d_h3, d_h2. cbn [encok]. split; [split|]; [|exact C1|exact C2].
    unfold d_h1, hm1, h0, empty. atoms.
  Qed.

  Lemma d_c3_encok tr a e s y rs P :
    In (AcceptD a e s P rs (d_key e s y rs)) tr ->
    encok tr (d_c1 e y rs) -> encok tr (d_c2 e y rs P) -> encok tr (d_c3 e s y rs P).
  Proof.
    intros A C1 C2. unfold d_c3. cbn [encok]. split; [|split; [|split]].
    - right. right. exists a, e, s, y, rs, P. split; [exact A|left; reflexivity].
    - unfold d_k2, d_k1, ck0. atoms.
    - apply d_h3_encok; assumption.
    - exact I.
  Qed.

  Lemma d_c4_encok tr a e s y rs P :
    In (AcceptD a e s P rs (d_key e s y rs)) tr ->
    encok tr (d_c1 e y rs) -> encok tr (d_c2 e y rs P) -> encok tr (d_c4 a e s y rs P).
  Proof.
    intros A C1 C2. unfold d_c4. cbn [encok]. split; [|split; [|split]].
    - right. right. exists a, e, s, y, rs, P. split; [exact A|right; reflexivity].
    - unfold d_key, d_k2, d_k1, ck0. atoms.
    - unfold d_h4. cbn [encok]. split; [apply d_h3_encok; assumption|].
      exact (d_c3_encok tr a e s y rs P A C1 C2).
    - apply payload_encok.
  Qed.

  Lemma valid_sent_encok tr : valid tr -> forall t, In (Send t) tr -> encok tr t.
  Proof.
    induction 1 as [|tr t V IH K|tr a e s V IH|tr a e s V IH|tr a e s y V IH I0|
                    tr a e s y rs P V IH I0 K|tr a e s y rs P V IH I0 I2 K]; intros u U.
    - destruct U.
    - destruct U as [[= <-]|U].
      + apply (encok_mono tr); [apply incl_tl, incl_refl|].
        exact (knows_encok tr (valid_sent_pub tr V) IH t K).
      + apply (encok_mono tr); [apply incl_tl, incl_refl|]. exact (IH u U).
    - destruct U as [[= <-]|[U|[U|U]]]; try discriminate; [exact I|].
      apply (encok_mono tr); [do 3 apply incl_tl; apply incl_refl|]. exact (IH u U).
    - destruct U as [U|[U|U]]; try discriminate.
      apply (encok_mono tr); [do 2 apply incl_tl; apply incl_refl|]. exact (IH u U).
    - destruct U as [[= <-]|[U|U]]; try discriminate.
      + (* message 2 of the listener session (a, e, s) *)
        assert (A : In (Answered a e s y) (Send (msg2 a e s y) :: Answered a e s y :: tr)) by (right; left; reflexivity).
        unfold msg2. cbn [encok]. split; [exact I|]. split.
        * exact (l_c1_encok _ a e s y A).
        * exact (l_c2_encok _ a e s y A).
      + apply (encok_mono tr); [do 2 apply incl_tl; apply incl_refl|]. exact (IH u U).
    - destruct U as [U|[[= <-]|U]]; try discriminate.
      + (* message 3 of the dialer session (a, e, s): the ciphertexts it read are the attacker's *)
        set (tr' := AcceptD a e s P rs (d_key e s y rs) :: Send (msg3 a e s y rs P) :: tr).
        pose proof (knows_encok tr (valid_sent_pub tr V) IH _ K) as M2.
        apply (encok_mono tr tr') in M2; [|do 2 apply incl_tl; apply incl_refl].
        unfold msg2_expected in M2. cbn [encok] in M2. destruct M2 as (_ & M21 & M22).
        assert (A : In (AcceptD a e s P rs (d_key e s y rs)) tr') by (left; reflexivity).
        unfold msg3. cbn [encok]. split.
        * exact (d_c3_encok tr' a e s y rs P A M21 M22).
        * exact (d_c4_encok tr' a e s y rs P A M21 M22).
      + apply (encok_mono tr); [do 2 apply incl_tl; apply incl_refl|]. exact (IH u U).
    - destruct U as [U|U]; try discriminate.
      apply (encok_mono tr); [apply incl_tl, incl_refl|]. exact (IH u U).
  Qed.

  Lemma knows_encok_valid tr t : valid tr -> knows tr t -> encok tr t.
  Proof. intros V. apply knows_encok; [apply valid_sent_pub|apply valid_sent_encok]; exact V. Qed.

  Lemma h0_inj p q : h0 p = h0 q -> p = q.
  Proof. unfold h0. intros [= E]. exact E. Qed.

  (* AUTHENTICATION WITH AGREEMENT, dialer.  If an honest dialer session (ephemeral e) completes
     believing in an uncompromised P, then the ephemeral key g^y and the static key g^rs it received
     belong to ONE listener session of P — (P, y, rs) is a listener session in the trace —, that
     session HAS WRITTEN message 2 in answer to this very dialer's g^e, it was created with the same
     prologue, and the message 2 the dialer accepted is, component for component, that message. *)
  Theorem dialer_agreement tr a e s P rs K :
    valid tr -> In (AcceptD a e s P rs K) tr -> ~ bad P ->
    exists y, K = d_key e s y rs /\ In (NewL P y rs) tr /\ In (Answered P y rs e) tr /\
              pro e = pro y /\ msg2_expected e y rs P = msg2 P y rs e.
  Proof.
    intros V A G.
    destruct (acceptD_origin tr V _ _ _ _ _ _ A) as (tr0 & y & I0 & V0 & N0 & K0 & -> & _).
    destruct (delivered_payload tr0 P rs _ V0 K0 G) as (_ & e' & O).
    { unfold msg2_expected, d_c2. cbn [sigok]. tauto. }
    destruct (session_secrets tr0 V0 P e' rs O) as [_ Hrs].
    destruct (session_secrets tr0 V0 a e s (or_introl N0)) as [He _].
    pose proof (knows_encok_valid tr0 _ V0 K0) as EK.
    unfold msg2_expected in EK. cbn [encok] in EK. destruct EK as (_ & _ & EK).
    unfold d_c2 in EK. cbn [encok] in EK. destruct EK as ([PK|HE] & _).
    { exfalso. unfold d_k2 in PK. cbn [pub] in PK. destruct PK as [_ PK]. apply pub_dh in PK. tauto. }
    exists y. split; [reflexivity|].
    destruct HE as [(a' & e1 & s1 & y1 & N1 & [E|E])|(a' & e1 & s1 & y1 & rs1 & P1 & _ & [E|E])].
    - exfalso. unfold l_c1, d_k2, d_k1, l_k1, ck0 in E. discriminate E.
    - unfold l_c2, d_k2, d_k1, l_k2, l_k1, d_h2, l_h2, d_h1, l_h1, hm1, payload, signed_part in E.
      injection E. intros Es Ea _ _ Ee1 Ey1 Ep _ _ _ _ _ _. subst s1 a' e1 y1.
      assert (M : msg2_expected e y rs P = msg2 P y rs e).
      { unfold msg2_expected, msg2, d_c2, l_c2, d_h2, l_h2, d_c1, l_c1, d_h1, l_h1, d_k2, l_k2, d_k1, l_k1.
        rewrite Ep, (dh_comm e y), (dh_comm e rs). reflexivity. }
      pose proof (answered_origin tr0 V0 _ _ _ _ N1) as NL.
      repeat split; auto.
    - exfalso. unfold d_c3, payload in E. discriminate E.
    - exfalso. unfold d_c4, d_key, d_k2, d_k1, ck0 in E. discriminate E.
  Qed.

  (* AUTHENTICATION WITH AGREEMENT, listener (it finishes last).  If an honest listener session
     (agent a, secrets e, s) completes believing in an uncompromised P, then a dialer session of P
     with the ephemeral key g^y this listener answered and the static key g^rs it received has
     COMPLETED, accepting exactly this listener — agent a, static key g^s — with the very same
     session key, and was created with the same prologue. *)
  Theorem listener_agreement tr a e s P rs K :
    valid tr -> In (AcceptL a e s P rs K) tr -> ~ bad P ->
    exists y, K = l_key e s y rs /\ In (NewD P y rs) tr /\ In (AcceptD P y rs a s K) tr /\
              pro e = pro y.
  Proof.
    intros V A G.
    destruct (acceptL_origin tr V _ _ _ _ _ _ A) as (tr0 & y & I0 & V0 & N0 & _ & K0 & ->).
    destruct (delivered_payload tr0 P rs _ V0 K0 G) as (_ & e' & O).
    { unfold msg3_expected, l_c4. cbn [sigok]. tauto. }
    destruct (session_secrets tr0 V0 P e' rs O) as [_ Hrs].
    destruct (session_secrets tr0 V0 a e s (or_intror N0)) as [He _].
    pose proof (knows_encok_valid tr0 _ V0 K0) as EK.
    unfold msg3_expected in EK. cbn [encok] in EK. destruct EK as (_ & EK).
    unfold l_c4 in EK. cbn [encok] in EK. destruct EK as ([PK|HE] & _).
    { exfalso. unfold l_key in PK. cbn [pub] in PK. destruct PK as [_ PK]. apply pub_dh in PK. tauto. }
    exists y. split; [reflexivity|].
    destruct HE as [(a' & e1 & s1 & y1 & _ & [E|E])|(a' & e1 & s1 & y1 & rs1 & P1 & AD & [E|E])].
    - exfalso. unfold l_c1, l_key, l_k2, l_k1, ck0 in E. discriminate E.
    - exfalso. unfold l_c2, l_key, l_k2, l_k1, ck0 in E. discriminate E.
    - exfalso. unfold d_c3, l_key, l_k2, d_k2, d_k1, l_k1, ck0 in E. discriminate E.
    - unfold d_c4, l_c4, l_key, d_key, l_h4, d_h4, l_c3, d_c3, l_h3, d_h3, l_c2, d_c2, l_h2, d_h2,
        l_h1, d_h1, hm1, payload, signed_part in E.
      injection E. intros Es1 Ea' _ _ Ers1 EP1 _ _ Ey1 Ee1 Ep. repeat (intros _).
      subst s1 a' rs1 P1 y1 e1.
      assert (EKey : d_key y rs e s = l_key e s y rs).
      { unfold d_key, l_key, d_k2, l_k2, d_k1, l_k1.
        rewrite (dh_comm y e), (dh_comm y s), (dh_comm rs e). reflexivity. }
      rewrite EKey in AD. apply I0 in AD.
      destruct (acceptD_origin tr V _ _ _ _ _ _ AD) as (tr1 & y2 & I1 & _ & N1 & _).
      repeat split; auto.
  Qed.

End DY.

(* ---- non-vacuity: the honest run is a valid trace in which both sessions complete with the
   same key, with nobody compromised — provided the two sessions were created with the same
   prologue (with different ones the dialer would not accept message 2) ---- *)
Definition nobody (_ : N) : Prop := False.

Definition honest_trace (pro : N -> list N) : list event :=
  [AcceptL 20 3 4 10 2 (l_key 3 4 1 2);
   AcceptD 10 1 2 20 4 (d_key 1 2 3 4); Send (msg3 pro 10 1 2 3 4 20);
   Send (msg2 pro 20 3 4 1); Answered 20 3 4 1;
   Signed 20 (signed_part 4); NewL 20 3 4;
   Send (TPub 1); Signed 10 (signed_part 2); NewD 10 1 2].

Lemma honest_trace_valid pro : pro 1 = pro 3 -> valid pro nobody nobody (honest_trace pro).
Proof.
  intros EP.
  assert (F : forall tr x, (forall a e s, In (NewD a e s) tr \/ In (NewL a e s) tr -> x <> e /\ x <> s) ->
                           fresh nobody tr x).
  { intros tr x Hx. split; [intros []|]. intros (a & e & s & U & [E|E]); destruct (Hx a e s U); congruence. }
  assert (M2 : msg2_expected pro 1 3 4 20 = msg2 pro 20 3 4 1).
  { unfold msg2_expected, msg2, d_c1, l_c1, d_c2, l_c2, d_h2, l_h2, d_c1, l_c1, d_h1, l_h1, d_k2, l_k2, d_k1, l_k1.
    rewrite EP. reflexivity. }
  assert (M3 : msg3_expected pro 20 3 4 1 2 10 = msg3 pro 10 1 2 3 4 20).
  { unfold msg3_expected, msg3, l_c3, d_c3, l_c4, d_c4, l_h4, d_h4, l_c3, d_c3, l_h3, d_h3, l_key, d_key,
      d_c2, l_c2, d_h2, l_h2, d_c1, l_c1, d_h1, l_h1, d_k2, l_k2, d_k1, l_k1.
    rewrite EP. reflexivity. }
  unfold honest_trace.
  apply (v_L4 pro nobody nobody _ 20 3 4 1 2 10).
  - apply (v_D3 pro nobody nobody _ 10 1 2 3 4 20).
    + apply v_L2.
      * apply v_newL.
        -- apply v_newD; [apply v_nil| | |discriminate]; apply F; intros a e s [[]|[]].
        -- apply F. intros a e s [U|U]; cbn in U;
             repeat (destruct U as [U|U]; try discriminate); try contradiction.
           injection U as <- <- <-. split; discriminate.
        -- apply F. intros a e s [U|U]; cbn in U;
             repeat (destruct U as [U|U]; try discriminate); try contradiction.
           injection U as <- <- <-. split; discriminate.
        -- discriminate.
      * cbn. auto.
    + cbn. auto 10.
    + rewrite M2. apply k_sent. left. reflexivity.
  - cbn. auto 10.
  - cbn. auto 10.
  - rewrite M3. apply k_sent. right. left. reflexivity.
Qed.

Lemma honest_trace_keys_agree : d_key 1 2 3 4 = l_key 3 4 1 2.
Proof. reflexivity. Qed.

End DY.
