(* C01 — the Noise XX handshake with libp2p identity payloads in a Dolev-Yao model: any number of
   honest dialer and listener sessions of any agents, interleaved in any order with an active
   attacker who controls the network, owns any set `asec` of Diffie-Hellman secrets and knows
   the identity keys of any set `bad` of agents.  (Proof-only development: nothing here is
   extracted or run.)

   CRYPTOGRAPHIC IDEALISATIONS (the trusted base of this layer; they are the definition of `term`
   and `knows`, plus the two Section variables):
     I1 free term algebra: hash (THash, the MixHash chain), key derivation (TMix, the MixKey
        chain), signatures, encryption and pairing have no collisions and no algebraic relations;
        the only relation is the commutativity of Diffie-Hellman, built into `dh`;
     I2 every group element is g^x for a name x (TPub x); a Diffie-Hellman output can be computed
        only from one of the two secrets (k_dh) — no other way to obtain TDH;
     I3 authenticated encryption: a plaintext is obtained from TEnc k h pt only with k (k_dec), a
        ciphertext is built only from k, h and pt (k_enc); the associated data h is not
        recoverable; a reader accepts a ciphertext iff key and associated data are its own;
     I4 signatures: TSig a t is built only with the identity secret of a (k_sig); it reveals t;
     I5 honest sessions draw secrets that are fresh and not in `asec`; they never send a secret.

   litep2p specifics kept: the static key is fresh per session (NoiseContext::new), the identity
   payload (key, signature over DOMAIN ++ static key) is assembled at session creation, the
   dialer sends message 3 together with accepting. *)
From Coq Require Import List NArith Bool Lia.
Import ListNotations.
Open Scope N_scope.

Module DY.

Inductive term :=
| TData (b : list N)          (* public constants: protocol name, prologue, DOMAIN, empty payload *)
| TPub (x : N)                (* g^x *)
| TDH (x y : N)               (* g^(xy), stored with x <= y *)
| TSk (x : N)                 (* the secret x itself *)
| TIdPub (a : N)              (* identity public key of agent a (its peer id is a hash of it) *)
| TIdSk (a : N)               (* identity secret of a *)
| TSig (a : N) (t : term)
| TPair (t1 t2 : term)
| TMix (k d : term)           (* MixKey *)
| THash (h t : term)          (* MixHash *)
| TEnc (k h pt : term).       (* EncryptAndHash: key, associated data, plaintext *)

Definition dh (x y : N) : term := if x <=? y then TDH x y else TDH y x.

Arguments dh : simpl never.

Lemma dh_comm x y : dh x y = dh y x.
Proof.
  unfold dh. destruct (x <=? y) eqn:A, (y <=? x) eqn:B; try reflexivity.
  - apply N.leb_le in A. apply N.leb_le in B. assert (x = y) by lia. subst. reflexivity.
  - apply N.leb_gt in A. apply N.leb_gt in B. lia.
Qed.

Inductive event :=
| Send (t : term)                               (* a message on the network *)
| NewD (a e s : N)                              (* a dialer session of agent a with secrets e, s *)
| NewL (a e s : N)                              (* a listener session *)
| Signed (a : N) (t : term)                     (* agent a signed t in an honest session *)
| AcceptD (a e s : N) (P rs : N) (K : term)     (* the dialer session completed: peer P, remote
                                                   static g^rs, session key K *)
| AcceptL (a e s : N) (P rs : N) (K : term).

(* ---- the protocol's terms ---- *)
Definition ck0 : term := TData [0].
Definition h0 : term := TData [1].
Definition DOM : term := TData [2].
Definition empty : term := TData [].

Definition signed_part (s : N) : term := TPair DOM (TPub s).
Definition payload (a s : N) : term := TPair (TIdPub a) (TSig a (signed_part s)).

(* transcript hash after message 1 (-> e, empty payload) *)
Definition hm1 (E : term) : term := THash (THash h0 E) empty.

(* message 2 as the listener (secrets e, s) builds it for a received g^y *)
Definition l_h1 (e y : N) : term := THash (hm1 (TPub y)) (TPub e).
Definition l_k1 (e y : N) : term := TMix ck0 (dh e y).
Definition l_c1 (e s y : N) : term := TEnc (l_k1 e y) (l_h1 e y) (TPub s).
Definition l_h2 (e s y : N) : term := THash (l_h1 e y) (l_c1 e s y).
Definition l_k2 (e s y : N) : term := TMix (l_k1 e y) (dh s y).
Definition l_c2 (a e s y : N) : term := TEnc (l_k2 e s y) (l_h2 e s y) (payload a s).
Definition l_h3 (a e s y : N) : term := THash (l_h2 e s y) (l_c2 a e s y).
Definition msg2 (a e s y : N) : term := TPair (TPub e) (TPair (l_c1 e s y) (l_c2 a e s y)).

(* message 2 as the dialer (ephemeral e) expects it: ephemeral g^y, static g^rs, identity P *)
Definition d_h1 (e y : N) : term := THash (hm1 (TPub e)) (TPub y).
Definition d_k1 (e y : N) : term := TMix ck0 (dh e y).
Definition d_c1 (e y rs : N) : term := TEnc (d_k1 e y) (d_h1 e y) (TPub rs).
Definition d_h2 (e y rs : N) : term := THash (d_h1 e y) (d_c1 e y rs).
Definition d_k2 (e y rs : N) : term := TMix (d_k1 e y) (dh e rs).
Definition d_c2 (e y rs P : N) : term := TEnc (d_k2 e y rs) (d_h2 e y rs) (payload P rs).
Definition d_h3 (e y rs P : N) : term := THash (d_h2 e y rs) (d_c2 e y rs P).
Definition msg2_expected (e y rs P : N) : term :=
  TPair (TPub y) (TPair (d_c1 e y rs) (d_c2 e y rs P)).

(* message 3 as the dialer builds it, and its session key *)
Definition d_c3 (e s y rs P : N) : term := TEnc (d_k2 e y rs) (d_h3 e y rs P) (TPub s).
Definition d_h4 (e s y rs P : N) : term := THash (d_h3 e y rs P) (d_c3 e s y rs P).
Definition d_key (e s y rs : N) : term := TMix (d_k2 e y rs) (dh s y).
Definition d_c4 (a e s y rs P : N) : term := TEnc (d_key e s y rs) (d_h4 e s y rs P) (payload a s).
Definition msg3 (a e s y rs P : N) : term := TPair (d_c3 e s y rs P) (d_c4 a e s y rs P).

(* message 3 as the listener (agent a, secrets e, s, having answered g^y) expects it *)
Definition l_c3 (a e s y rs : N) : term := TEnc (l_k2 e s y) (l_h3 a e s y) (TPub rs).
Definition l_h4 (a e s y rs : N) : term := THash (l_h3 a e s y) (l_c3 a e s y rs).
Definition l_key (e s y rs : N) : term := TMix (l_k2 e s y) (dh e rs).
Definition l_c4 (a e s y rs P : N) : term := TEnc (l_key e s y rs) (l_h4 a e s y rs) (payload P rs).
Definition msg3_expected (a e s y rs P : N) : term := TPair (l_c3 a e s y rs) (l_c4 a e s y rs P).

Section DY.
  Variable asec : N -> Prop.     (* Diffie-Hellman secrets owned by the attacker *)
  Variable bad : N -> Prop.      (* agents whose identity secret the attacker knows *)

  (* attacker knowledge: a set that grows with the trace and is closed under the operations *)
  Inductive knows (tr : list event) : term -> Prop :=
  | k_sent t : In (Send t) tr -> knows tr t
  | k_data b : knows tr (TData b)
  | k_pub x : knows tr (TPub x)
  | k_idpub a : knows tr (TIdPub a)
  | k_sk x : asec x -> knows tr (TSk x)
  | k_idsk a : bad a -> knows tr (TIdSk a)
  | k_dh x y : knows tr (TSk x) -> knows tr (dh x y)
  | k_sig a t : knows tr (TIdSk a) -> knows tr t -> knows tr (TSig a t)
  | k_sig_open a t : knows tr (TSig a t) -> knows tr t
  | k_pair t1 t2 : knows tr t1 -> knows tr t2 -> knows tr (TPair t1 t2)
  | k_fst t1 t2 : knows tr (TPair t1 t2) -> knows tr t1
  | k_snd t1 t2 : knows tr (TPair t1 t2) -> knows tr t2
  | k_mix k d : knows tr k -> knows tr d -> knows tr (TMix k d)
  | k_hash h t : knows tr h -> knows tr t -> knows tr (THash h t)
  | k_enc k h pt : knows tr k -> knows tr h -> knows tr pt -> knows tr (TEnc k h pt)
  | k_dec k h pt : knows tr (TEnc k h pt) -> knows tr k -> knows tr pt.

  Definition used (tr : list event) (x : N) : Prop :=
    exists a e s, (In (NewD a e s) tr \/ In (NewL a e s) tr) /\ (x = e \/ x = s).

  Definition fresh (tr : list event) (x : N) : Prop := ~ asec x /\ ~ used tr x.

  (* all traces: any interleaving of attacker sends and steps of any honest sessions; a session
     may take its steps at any time after the steps they depend on, and more than once *)
  Inductive valid : list event -> Prop :=
  | v_nil : valid []
  | v_fake tr t : valid tr -> knows tr t -> valid (Send t :: tr)
  | v_newD tr a e s :
      valid tr -> fresh tr e -> fresh tr s -> e <> s ->
      valid (Send (TPub e) :: Signed a (signed_part s) :: NewD a e s :: tr)
  | v_newL tr a e s :
      valid tr -> fresh tr e -> fresh tr s -> e <> s ->
      valid (Signed a (signed_part s) :: NewL a e s :: tr)
  | v_L2 tr a e s y :                       (* the listener answers some received g^y *)
      valid tr -> In (NewL a e s) tr ->
      valid (Send (msg2 a e s y) :: tr)
  | v_D3 tr a e s y rs P :                  (* the dialer reads message 2, writes 3, accepts P *)
      valid tr -> In (NewD a e s) tr -> knows tr (msg2_expected e y rs P) ->
      valid (AcceptD a e s P rs (d_key e s y rs) :: Send (msg3 a e s y rs P) :: tr)
  | v_L4 tr a e s y rs P :                  (* the listener reads message 3, accepts P *)
      valid tr -> In (NewL a e s) tr -> In (Send (msg2 a e s y)) tr ->
      knows tr (msg3_expected a e s y rs P) ->
      valid (AcceptL a e s P rs (l_key e s y rs) :: tr).

  (* ---- monotonicity ---- *)
  Lemma knows_mono tr tr' t : incl tr tr' -> knows tr t -> knows tr' t.
  Proof.
    intros I K. induction K.
    - apply k_sent. apply I. assumption.
    - apply k_data.
    - apply k_pub.
    - apply k_idpub.
    - apply k_sk; assumption.
    - apply k_idsk; assumption.
    - apply k_dh; assumption.
    - apply k_sig; assumption.
    - eapply k_sig_open; eassumption.
    - apply k_pair; assumption.
    - eapply k_fst; eassumption.
    - eapply k_snd; eassumption.
    - apply k_mix; assumption.
    - apply k_hash; assumption.
    - apply k_enc; assumption.
    - eapply k_dec; eassumption.
  Qed.

  (* ---- what may ever become public ---- *)
  Fixpoint pub (t : term) : Prop :=
    match t with
    | TData _ | TPub _ | TIdPub _ => True
    | TDH x y => asec x \/ asec y
    | TSk x => asec x
    | TIdSk a => bad a
    | TSig _ t => pub t
    | TPair a b => pub a /\ pub b
    | TMix k d => pub k /\ pub d
    | THash h t => pub h /\ pub t
    | TEnc k _ pt => pub k -> pub pt
    end.

  Lemma pub_dh x y : pub (dh x y) <-> asec x \/ asec y.
  Proof. unfold dh. destruct (x <=? y); cbn [pub]; tauto. Qed.

  Lemma knows_pub tr :
    (forall t, In (Send t) tr -> pub t) -> forall t, knows tr t -> pub t.
  Proof.
    intros S t K. induction K; cbn [pub] in *; try tauto.
    - apply S. assumption.
    - apply pub_dh. left. assumption.
  Qed.

  Lemma payload_pub a s : pub (payload a s).
  Proof. cbn. tauto. Qed.

  Lemma valid_sent_pub tr : valid tr -> forall t, In (Send t) tr -> pub t.
  Proof.
    induction 1 as [|tr t V IH K|tr a e s V IH|tr a e s V IH|tr a e s y V IH I|
                    tr a e s y rs P V IH I K|tr a e s y rs P V IH I I2 K]; intros u U.
    - destruct U.
    - destruct U as [[= <-]|U]; [exact (knows_pub tr IH t K) | exact (IH u U)].
    - destruct U as [[= <-]|[U|[U|U]]]; try discriminate; [exact I | exact (IH u U)].
    - destruct U as [U|[U|U]]; try discriminate. exact (IH u U).
    - destruct U as [[= <-]|U]; [|exact (IH u U)].
      unfold msg2, l_c1, l_c2. cbn [pub]. pose proof (payload_pub a s). cbn [pub] in *. tauto.
    - destruct U as [U|[[= <-]|U]]; try discriminate; [|exact (IH u U)].
      unfold msg3, d_c3, d_c4. pose proof (payload_pub a s). cbn [pub] in *. tauto.
    - destruct U as [U|U]; try discriminate. exact (IH u U).
  Qed.

  Theorem knows_only_public tr t : valid tr -> knows tr t -> pub t.
  Proof. intros V. apply knows_pub. apply valid_sent_pub. exact V. Qed.

  (* ---- honest sessions own honest, session-unique secrets ---- *)
  Lemma session_secrets tr :
    valid tr -> forall a e s, In (NewD a e s) tr \/ In (NewL a e s) tr -> ~ asec e /\ ~ asec s.
  Proof.
    induction 1 as [|tr t V IH K|tr a0 e0 s0 V IH Fe Fs|tr a0 e0 s0 V IH Fe Fs|tr a0 e0 s0 y V IH I|
                    tr a0 e0 s0 y rs P V IH I K|tr a0 e0 s0 y rs P V IH I I2 K]; intros a e s U.
    - destruct U as [[]|[]].
    - apply (IH a e s). destruct U as [[U|U]|[U|U]]; try discriminate; auto.
    - destruct U as [[U|[U|[U|U]]]|[U|[U|[U|U]]]]; try discriminate; try (apply (IH a e s); auto; fail).
      injection U as <- <- <-. split; [apply Fe|apply Fs].
    - destruct U as [[U|[U|U]]|[U|[U|U]]]; try discriminate; try (apply (IH a e s); auto; fail).
      injection U as <- <- <-. split; [apply Fe|apply Fs].
    - apply (IH a e s). destruct U as [[U|U]|[U|U]]; try discriminate; auto.
    - apply (IH a e s). destruct U as [[U|[U|U]]|[U|[U|U]]]; try discriminate; auto.
    - apply (IH a e s). destruct U as [[U|U]|[U|U]]; try discriminate; auto.
  Qed.

  (* ---- signatures of uncompromised agents come from their honest sessions ---- *)
  Fixpoint sigok (tr : list event) (t : term) : Prop :=
    match t with
    | TSig a u => (bad a \/ In (Signed a u) tr) /\ sigok tr u
    | TPair a b | TMix a b | THash a b => sigok tr a /\ sigok tr b
    | TEnc k h pt => sigok tr k /\ sigok tr h /\ sigok tr pt
    | _ => True
    end.

  Lemma sigok_mono tr tr' t : incl tr tr' -> sigok tr t -> sigok tr' t.
  Proof.
    intros I. induction t; cbn [sigok]; try tauto.
    intros [[B|S] U]; (split; [|tauto]); [left; exact B | right; apply I; exact S].
  Qed.

  Lemma sigok_dh tr x y : sigok tr (dh x y).
  Proof. unfold dh. destruct (x <=? y); exact I. Qed.

  Lemma knows_sigok tr :
    (forall t, In (Send t) tr -> pub t) -> (forall t, In (Send t) tr -> sigok tr t) ->
    forall t, knows tr t -> sigok tr t.
  Proof.
    intros SP SS t K. induction K; cbn [sigok] in *; try tauto.
    - apply SS. assumption.
    - apply sigok_dh.
    - split; [|assumption]. left. exact (knows_pub tr SP _ K1).
  Qed.

  Lemma new_session_signed tr :
    valid tr -> forall a e s, In (NewD a e s) tr \/ In (NewL a e s) tr ->
    In (Signed a (signed_part s)) tr.
  Proof.
    induction 1 as [|tr t V IH K|tr a0 e0 s0 V IH Fe Fs|tr a0 e0 s0 V IH Fe Fs|tr a0 e0 s0 y V IH I|
                    tr a0 e0 s0 y rs P V IH I K|tr a0 e0 s0 y rs P V IH I I2 K]; intros a e s U.
    - destruct U as [[]|[]].
    - right. apply (IH a e s). destruct U as [[U|U]|[U|U]]; try discriminate; auto.
    - destruct U as [[U|[U|[U|U]]]|[U|[U|[U|U]]]]; try discriminate.
      + injection U as <- <- <-. right. left. reflexivity.
      + do 3 right. apply (IH a e s). auto.
      + do 3 right. apply (IH a e s). auto.
    - destruct U as [[U|[U|U]]|[U|[U|U]]]; try discriminate.
      + do 2 right. apply (IH a e s). auto.
      + injection U as <- <- <-. left. reflexivity.
      + do 2 right. apply (IH a e s). auto.
    - right. apply (IH a e s). destruct U as [[U|U]|[U|U]]; try discriminate; auto.
    - do 2 right. apply (IH a e s). destruct U as [[U|[U|U]]|[U|[U|U]]]; try discriminate; auto.
    - right. apply (IH a e s). destruct U as [[U|U]|[U|U]]; try discriminate; auto.
  Qed.

  Lemma payload_sigok tr a s : In (Signed a (signed_part s)) tr -> sigok tr (payload a s).
  Proof. intros S. cbn. tauto. Qed.

  Lemma valid_sent_sigok tr : valid tr -> forall t, In (Send t) tr -> sigok tr t.
  Proof.
    induction 1 as [|tr t V IH K|tr a e s V IH|tr a e s V IH|tr a e s y V IH I|
                    tr a e s y rs P V IH I K|tr a e s y rs P V IH I I2 K]; intros u U.
    - destruct U.
    - destruct U as [[= <-]|U].
      + apply (sigok_mono tr); [apply incl_tl, incl_refl|].
        exact (knows_sigok tr (valid_sent_pub tr V) IH t K).
      + apply (sigok_mono tr); [apply incl_tl, incl_refl|]. exact (IH u U).
    - destruct U as [[= <-]|[U|[U|U]]]; try discriminate; [exact I|].
      apply (sigok_mono tr); [do 3 apply incl_tl; apply incl_refl|]. exact (IH u U).
    - destruct U as [U|[U|U]]; try discriminate.
      apply (sigok_mono tr); [do 2 apply incl_tl; apply incl_refl|]. exact (IH u U).
    - destruct U as [[= <-]|U].
      + apply (sigok_mono tr); [apply incl_tl, incl_refl|].
        pose proof (new_session_signed tr V a e s (or_intror I)) as S.
        pose proof (payload_sigok tr a s S) as PS.
        pose proof (sigok_dh tr e y). pose proof (sigok_dh tr s y). cbn in PS |- *. tauto.
      + apply (sigok_mono tr); [apply incl_tl, incl_refl|]. exact (IH u U).
    - destruct U as [U|[[= <-]|U]]; try discriminate.
      + apply (sigok_mono tr); [do 2 apply incl_tl; apply incl_refl|].
        pose proof (new_session_signed tr V a e s (or_introl I)) as S.
        pose proof (payload_sigok tr a s S) as PS.
        pose proof (knows_sigok tr (valid_sent_pub tr V) IH _ K) as M2.
        pose proof (sigok_dh tr s y). cbn in M2, PS |- *. tauto.
      + apply (sigok_mono tr); [do 2 apply incl_tl; apply incl_refl|]. exact (IH u U).
    - destruct U as [U|U]; try discriminate.
      apply (sigok_mono tr); [apply incl_tl, incl_refl|]. exact (IH u U).
  Qed.

  Lemma signed_origin tr :
    valid tr -> forall a u, In (Signed a u) tr ->
    exists e s, u = signed_part s /\ (In (NewD a e s) tr \/ In (NewL a e s) tr).
  Proof.
    induction 1 as [|tr t V IH K|tr a0 e0 s0 V IH Fe Fs|tr a0 e0 s0 V IH Fe Fs|tr a0 e0 s0 y V IH I|
                    tr a0 e0 s0 y rs P V IH I K|tr a0 e0 s0 y rs P V IH I I2 K]; intros a u U.
    - destruct U.
    - destruct U as [U|U]; try discriminate.
      destruct (IH a u U) as (e & s & E & O). exists e, s. split; [exact E|]. destruct O; [left|right]; right; assumption.
    - destruct U as [U|[U|[U|U]]]; try discriminate.
      + injection U as <- <-. exists e0, s0. split; [reflexivity|]. left. do 2 right. left. reflexivity.
      + destruct (IH a u U) as (e & s & E & O). exists e, s. split; [exact E|].
        destruct O; [left|right]; do 3 right; assumption.
    - destruct U as [U|[U|U]]; try discriminate.
      + injection U as <- <-. exists e0, s0. split; [reflexivity|]. right. right. left. reflexivity.
      + destruct (IH a u U) as (e & s & E & O). exists e, s. split; [exact E|].
        destruct O; [left|right]; do 2 right; assumption.
    - destruct U as [U|U]; try discriminate.
      destruct (IH a u U) as (e & s & E & O). exists e, s. split; [exact E|]. destruct O; [left|right]; right; assumption.
    - destruct U as [U|[U|U]]; try discriminate.
      destruct (IH a u U) as (e & s & E & O). exists e, s. split; [exact E|].
      destruct O; [left|right]; do 2 right; assumption.
    - destruct U as [U|U]; try discriminate.
      destruct (IH a u U) as (e & s & E & O). exists e, s. split; [exact E|]. destruct O; [left|right]; right; assumption.
  Qed.

  (* an identity payload of an uncompromised agent that the attacker can deliver names the static
     key of an honest session of that agent *)
  Lemma delivered_payload tr P rs t :
    valid tr -> knows tr t -> ~ bad P ->
    (sigok tr t -> sigok tr (payload P rs)) ->
    In (Signed P (signed_part rs)) tr /\
    exists e', (In (NewD P e' rs) tr \/ In (NewL P e' rs) tr).
  Proof.
    intros V K G Sub.
    pose proof (knows_sigok tr (valid_sent_pub tr V) (valid_sent_sigok tr V) t K) as ST.
    apply Sub in ST. cbn [payload sigok] in ST. destruct ST as (_ & [B|S] & _); [contradiction|].
    split; [exact S|].
    destruct (signed_origin tr V P _ S) as (e & s & E & O).
    unfold signed_part in E. injection E as <-. exists e. exact O.
  Qed.

  (* ---- where an acceptance comes from ---- *)
  Lemma acceptD_origin tr :
    valid tr -> forall a e s P rs K, In (AcceptD a e s P rs K) tr ->
    exists tr0 y, incl tr0 tr /\ valid tr0 /\ In (NewD a e s) tr0 /\
                  knows tr0 (msg2_expected e y rs P) /\ K = d_key e s y rs /\
                  In (Send (msg3 a e s y rs P)) tr.
  Proof.
    induction 1 as [|tr t V IH K0|tr a0 e0 s0 V IH Fe Fs|tr a0 e0 s0 V IH Fe Fs|tr a0 e0 s0 y0 V IH I|
                    tr a0 e0 s0 y0 rs0 P0 V IH I K0|tr a0 e0 s0 y0 rs0 P0 V IH I I2 K0];
      intros a e s P rs K U.
    - destruct U.
    - destruct U as [U|U]; try discriminate.
      destruct (IH _ _ _ _ _ _ U) as (tr0 & y & I0 & R). exists tr0, y.
      split; [apply incl_tl; exact I0|]. destruct R as (R1 & R2 & R3 & R4 & R5). repeat split; auto. right. exact R5.
    - destruct U as [U|[U|[U|U]]]; try discriminate.
      destruct (IH _ _ _ _ _ _ U) as (tr0 & y & I0 & R). exists tr0, y.
      split; [do 3 apply incl_tl; exact I0|]. destruct R as (R1 & R2 & R3 & R4 & R5). repeat split; auto. do 3 right. exact R5.
    - destruct U as [U|[U|U]]; try discriminate.
      destruct (IH _ _ _ _ _ _ U) as (tr0 & y & I0 & R). exists tr0, y.
      split; [do 2 apply incl_tl; exact I0|]. destruct R as (R1 & R2 & R3 & R4 & R5). repeat split; auto. do 2 right. exact R5.
    - destruct U as [U|U]; try discriminate.
      destruct (IH _ _ _ _ _ _ U) as (tr0 & y & I0 & R). exists tr0, y.
      split; [apply incl_tl; exact I0|]. destruct R as (R1 & R2 & R3 & R4 & R5). repeat split; auto. right. exact R5.
    - destruct U as [U|[U|U]]; try discriminate.
      + injection U as <- <- <- <- <- <-. exists tr, y0.
        split; [do 2 apply incl_tl; apply incl_refl|]. repeat split; auto. right. left. reflexivity.
      + destruct (IH _ _ _ _ _ _ U) as (tr0 & y & I0 & R). exists tr0, y.
        split; [do 2 apply incl_tl; exact I0|]. destruct R as (R1 & R2 & R3 & R4 & R5). repeat split; auto. do 2 right. exact R5.
    - destruct U as [U|U]; try discriminate.
      destruct (IH _ _ _ _ _ _ U) as (tr0 & y & I0 & R). exists tr0, y.
      split; [apply incl_tl; exact I0|]. destruct R as (R1 & R2 & R3 & R4 & R5). repeat split; auto. right. exact R5.
  Qed.

  Lemma acceptL_origin tr :
    valid tr -> forall a e s P rs K, In (AcceptL a e s P rs K) tr ->
    exists tr0 y, incl tr0 tr /\ valid tr0 /\ In (NewL a e s) tr0 /\
                  In (Send (msg2 a e s y)) tr0 /\
                  knows tr0 (msg3_expected a e s y rs P) /\ K = l_key e s y rs.
  Proof.
    induction 1 as [|tr t V IH K0|tr a0 e0 s0 V IH Fe Fs|tr a0 e0 s0 V IH Fe Fs|tr a0 e0 s0 y0 V IH I|
                    tr a0 e0 s0 y0 rs0 P0 V IH I K0|tr a0 e0 s0 y0 rs0 P0 V IH I I2 K0];
      intros a e s P rs K U.
    - destruct U.
    - destruct U as [U|U]; try discriminate.
      destruct (IH _ _ _ _ _ _ U) as (tr0 & y & I0 & R). exists tr0, y. split; [apply incl_tl; exact I0|exact R].
    - destruct U as [U|[U|[U|U]]]; try discriminate.
      destruct (IH _ _ _ _ _ _ U) as (tr0 & y & I0 & R). exists tr0, y. split; [do 3 apply incl_tl; exact I0|exact R].
    - destruct U as [U|[U|U]]; try discriminate.
      destruct (IH _ _ _ _ _ _ U) as (tr0 & y & I0 & R). exists tr0, y. split; [do 2 apply incl_tl; exact I0|exact R].
    - destruct U as [U|U]; try discriminate.
      destruct (IH _ _ _ _ _ _ U) as (tr0 & y & I0 & R). exists tr0, y. split; [apply incl_tl; exact I0|exact R].
    - destruct U as [U|[U|U]]; try discriminate.
      destruct (IH _ _ _ _ _ _ U) as (tr0 & y & I0 & R). exists tr0, y. split; [do 2 apply incl_tl; exact I0|exact R].
    - destruct U as [U|U].
      + injection U as <- <- <- <- <- <-. exists tr, y0. split; [apply incl_tl, incl_refl|]. repeat split; auto.
      + destruct (IH _ _ _ _ _ _ U) as (tr0 & y & I0 & R). exists tr0, y. split; [apply incl_tl; exact I0|exact R].
  Qed.

  (* ---- authentication and key secrecy, in the standard form ---- *)
  (* If an honest dialer session completes believing that it talks to P, then — unless P's
     identity key is compromised — P signed, in one of its honest sessions, the very static key
     g^rs that the dialer's session key is bound to, and the attacker never learns the session
     key (in this or any longer trace: the statement holds for every valid trace containing the
     acceptance), because the key mixes g^(e*rs) whose two exponents belong to the dialer's
     session and to that session of P. *)
  Theorem dialer_authenticates tr a e s P rs K :
    valid tr -> In (AcceptD a e s P rs K) tr -> ~ bad P ->
    In (Signed P (signed_part rs)) tr /\
    (exists e', In (NewD P e' rs) tr \/ In (NewL P e' rs) tr) /\
    ~ asec e /\ ~ asec rs /\
    (exists k y, K = TMix (TMix k (dh e rs)) (dh s y)) /\
    ~ knows tr K.
  Proof.
    intros V A G.
    destruct (acceptD_origin tr V _ _ _ _ _ _ A) as (tr0 & y & I0 & V0 & N0 & K0 & -> & _).
    destruct (delivered_payload tr0 P rs _ V0 K0 G) as (S & e' & O).
    { unfold msg2_expected, d_c2. cbn [sigok]. tauto. }
    assert (O' : In (NewD P e' rs) tr \/ In (NewL P e' rs) tr) by (destruct O; [left|right]; apply I0; assumption).
    destruct (session_secrets tr V P e' rs O') as [_ Hrs].
    destruct (session_secrets tr V a e s (or_introl (I0 _ N0))) as [He _].
    repeat split.
    - apply I0. exact S.
    - exists e'. exact O'.
    - exact He.
    - exact Hrs.
    - exists (d_k1 e y), y. reflexivity.
    - intros KK. apply (knows_only_public tr _ V) in KK.
      unfold d_key, d_k2 in KK. cbn [pub] in KK. destruct KK as [[_ KK] _].
      apply pub_dh in KK. tauto.
  Qed.

  Theorem listener_authenticates tr a e s P rs K :
    valid tr -> In (AcceptL a e s P rs K) tr -> ~ bad P ->
    In (Signed P (signed_part rs)) tr /\
    (exists e', In (NewD P e' rs) tr \/ In (NewL P e' rs) tr) /\
    ~ asec e /\ ~ asec rs /\
    (exists k, K = TMix k (dh e rs)) /\
    ~ knows tr K.
  Proof.
    intros V A G.
    destruct (acceptL_origin tr V _ _ _ _ _ _ A) as (tr0 & y & I0 & V0 & N0 & _ & K0 & ->).
    destruct (delivered_payload tr0 P rs _ V0 K0 G) as (S & e' & O).
    { unfold msg3_expected, l_c4. cbn [sigok]. tauto. }
    assert (O' : In (NewD P e' rs) tr \/ In (NewL P e' rs) tr) by (destruct O; [left|right]; apply I0; assumption).
    destruct (session_secrets tr V P e' rs O') as [_ Hrs].
    destruct (session_secrets tr V a e s (or_intror (I0 _ N0))) as [He _].
    repeat split.
    - apply I0. exact S.
    - exists e'. exact O'.
    - exact He.
    - exact Hrs.
    - exists (l_k2 e s y). reflexivity.
    - intros KK. apply (knows_only_public tr _ V) in KK.
      unfold l_key in KK. cbn [pub] in KK. destruct KK as [_ KK].
      apply pub_dh in KK. tauto.
  Qed.

  (* the secrets of honest sessions never leak, whatever the attacker does *)
  Theorem session_secrets_never_leak tr a e s :
    valid tr -> In (NewD a e s) tr \/ In (NewL a e s) tr ->
    ~ knows tr (TSk e) /\ ~ knows tr (TSk s).
  Proof.
    intros V U. destruct (session_secrets tr V a e s U) as [He Hs].
    split; intros K; apply (knows_only_public tr _ V) in K; cbn [pub] in K; tauto.
  Qed.

  (* the identity secret of an uncompromised agent never leaks *)
  Theorem identity_secret_never_leaks tr a : valid tr -> ~ bad a -> ~ knows tr (TIdSk a).
  Proof. intros V G K. apply (knows_only_public tr _ V) in K. exact (G K). Qed.

  (* ---- every secret belongs to exactly one session, in one role ---- *)
  Definition names (ev : event) : list N :=
    match ev with NewD _ e s | NewL _ e s => [e; s] | _ => [] end.

  Lemma used_names tr x : In x (flat_map names tr) -> used tr x.
  Proof.
    intros I. apply in_flat_map in I as (ev & E & X).
    destruct ev as [t|a e s|a e s|a t|a e s P rs K|a e s P rs K]; cbn [names] in X; try contradiction.
    - exists a, e, s. split; [left; exact E|]. destruct X as [<-|[<-|[]]]; auto.
    - exists a, e, s. split; [right; exact E|]. destruct X as [<-|[<-|[]]]; auto.
  Qed.

  Lemma names_nodup tr : valid tr -> NoDup (flat_map names tr).
  Proof.
    induction 1 as [|tr t V IH K|tr a e s V IH Fe Fs Ne|tr a e s V IH Fe Fs Ne|tr a e s y V IH I|
                    tr a e s y rs P V IH I K|tr a e s y rs P V IH I I2 K]; cbn [flat_map names app];
      try assumption; try constructor.
    - intros [E|U]; [congruence|]. apply Fe. apply used_names. exact U.
    - constructor; [|exact IH]. intros U. apply Fs. apply used_names. exact U.
    - intros [E|U]; [congruence|]. apply Fe. apply used_names. exact U.
    - constructor; [|exact IH]. intros U. apply Fs. apply used_names. exact U.
  Qed.

  Lemma flat_map_unique (f : event -> list N) l :
    NoDup (flat_map f l) -> forall a b x, In a l -> In b l -> In x (f a) -> In x (f b) -> a = b.
  Proof.
    induction l as [|h t IH]; intros ND a b x A B XA XB; [destruct A|].
    cbn [flat_map] in ND.
    assert (NDt : NoDup (flat_map f t)).
    { clear - ND. induction (f h) as [|z r IHr]; [exact ND|]. cbn [app] in ND. inversion ND. auto. }
    assert (Disj : forall y ev, In y (f h) -> In ev t -> In y (f ev) -> False).
    { intros y ev Y E YE. clear - ND Y E YE.
      induction (f h) as [|z r IHr]; [destruct Y|]. cbn [app] in ND. inversion ND as [|? ? NI ND']. subst.
      destruct Y as [->|Y]; [|exact (IHr ND' Y)].
      apply NI. apply in_or_app. right. apply in_flat_map. exists ev. auto. }
    destruct A as [<-|A], B as [<-|B].
    - reflexivity.
    - exfalso. exact (Disj x b XA B XB).
    - exfalso. exact (Disj x a XB A XA).
    - exact (IH NDt a b x A B XA XB).
  Qed.

  Lemma owner_unique tr ev1 ev2 x :
    valid tr -> In ev1 tr -> In ev2 tr -> In x (names ev1) -> In x (names ev2) -> ev1 = ev2.
  Proof. intros V. apply flat_map_unique. apply names_nodup. exact V. Qed.

  Lemma session_distinct tr :
    valid tr -> forall a e s, In (NewD a e s) tr \/ In (NewL a e s) tr -> e <> s.
  Proof.
    induction 1 as [|tr t V IH K|tr a0 e0 s0 V IH Fe Fs Ne|tr a0 e0 s0 V IH Fe Fs Ne|tr a0 e0 s0 y V IH I|
                    tr a0 e0 s0 y rs P V IH I K|tr a0 e0 s0 y rs P V IH I I2 K]; intros a e s U.
    - destruct U as [[]|[]].
    - apply (IH a e s). destruct U as [[U|U]|[U|U]]; try discriminate; auto.
    - destruct U as [[U|[U|[U|U]]]|[U|[U|[U|U]]]]; try discriminate; try (apply (IH a e s); auto; fail).
      injection U as <- <- <-. exact Ne.
    - destruct U as [[U|[U|U]]|[U|[U|U]]]; try discriminate; try (apply (IH a e s); auto; fail).
      injection U as <- <- <-. exact Ne.
    - apply (IH a e s). destruct U as [[U|U]|[U|U]]; try discriminate; auto.
    - apply (IH a e s). destruct U as [[U|[U|U]]|[U|[U|U]]]; try discriminate; auto.
    - apply (IH a e s). destruct U as [[U|U]|[U|U]]; try discriminate; auto.
  Qed.

  Lemma dh_inj a b c d : dh a b = dh c d -> (a = c /\ b = d) \/ (a = d /\ b = c).
  Proof.
    unfold dh. destruct (a <=? b), (c <=? d); intros [= -> ->]; auto.
  Qed.

  (* the session key is shared with the holder of the authenticated static key and with nobody
     else: an honest listener session that completes with the same key as an honest dialer
     session is the session that owns the static key the dialer authenticated, it authenticated
     the dialer's static key in turn, and (for uncompromised identities) each is the agent the
     other believes in *)
  Theorem matching_sessions tr a e s P rs a' e' s' P' rs' K :
    valid tr -> In (AcceptD a e s P rs K) tr -> In (AcceptL a' e' s' P' rs' K) tr ->
    rs = s' /\ rs' = s /\ (~ bad P -> a' = P) /\ (~ bad P' -> a = P').
  Proof.
    intros V AD AL.
    destruct (acceptD_origin tr V _ _ _ _ _ _ AD) as (trD & y & ID & VD & ND & KD & EK & _).
    destruct (acceptL_origin tr V _ _ _ _ _ _ AL) as (trL & y' & IL & VL & NL & _ & KL & EK').
    apply ID in ND. apply IL in NL.
    rewrite EK in EK'. unfold d_key, l_key, d_k2, l_k2, d_k1, l_k1 in EK'.
    injection EK' as E1 E2 E3.
    assert (X : forall x z, In x [e; s] -> In z [e'; s'] -> x <> z).
    { intros x z Ix Iz Exz. subst z.
      pose proof (owner_unique tr (NewD a e s) (NewL a' e' s') x V ND NL Ix Iz). discriminate. }
    assert (Xee : e <> e') by (apply X; cbn; auto).
    assert (Xes : e <> s') by (apply X; cbn; auto).
    assert (Xse : s <> e') by (apply X; cbn; auto).
    apply dh_inj in E1 as [[E1 _]|[-> ->]]; [contradiction|].
    apply dh_inj in E2 as [[E2 _]|[_ E2]]; [congruence|].
    apply dh_inj in E3 as [[E3 _]|[E3 _]]; [congruence|].
    subst rs rs'. repeat split; auto.
    - intros G. destruct (dialer_authenticates tr _ _ _ _ _ _ V AD G) as (_ & (e2 & O) & _).
      destruct O as [O|O].
      + pose proof (owner_unique tr (NewD P e2 s') _ s' V O NL) as Q.
        cbn in Q. discriminate Q; auto.
      + pose proof (owner_unique tr (NewL P e2 s') _ s' V O NL) as Q.
        cbn in Q. injection Q; auto.
    - intros G. destruct (listener_authenticates tr _ _ _ _ _ _ V AL G) as (_ & (e2 & O) & _).
      destruct O as [O|O].
      + pose proof (owner_unique tr (NewD P' e2 s) _ s V O ND) as Q.
        cbn in Q. injection Q; auto.
      + pose proof (owner_unique tr (NewL P' e2 s) _ s V O ND) as Q.
        cbn in Q. discriminate Q; auto.
  Qed.
End DY.

(* ---- non-vacuity: the honest run is a valid trace in which both sessions complete with the
   same key, with nobody compromised ---- *)
Definition nobody (_ : N) : Prop := False.

Definition honest_trace : list event :=
  [AcceptL 20 3 4 10 2 (l_key 3 4 1 2);
   AcceptD 10 1 2 20 4 (d_key 1 2 3 4); Send (msg3 10 1 2 3 4 20);
   Send (msg2 20 3 4 1);
   Signed 20 (signed_part 4); NewL 20 3 4;
   Send (TPub 1); Signed 10 (signed_part 2); NewD 10 1 2].

Lemma honest_trace_valid : valid nobody nobody honest_trace.
Proof.
  assert (F : forall tr x, (forall a e s, In (NewD a e s) tr \/ In (NewL a e s) tr -> x <> e /\ x <> s) ->
                           fresh nobody tr x).
  { intros tr x Hx. split; [intros []|]. intros (a & e & s & U & [E|E]); destruct (Hx a e s U); congruence. }
  unfold honest_trace.
  apply (v_L4 nobody nobody _ 20 3 4 1 2 10).
  - apply (v_D3 nobody nobody _ 10 1 2 3 4 20).
    + apply v_L2.
      * apply v_newL.
        -- apply v_newD; [apply v_nil| | |discriminate]; apply F; intros a e s [[]|[]].
        -- apply F. intros a e s [U|U]; cbn in U;
             repeat (destruct U as [U|U]; try discriminate); try contradiction.
           injection U as <- <- <-. split; discriminate.
        -- apply F. intros a e s [U|U]; cbn in U;
             repeat (destruct U as [U|U]; try discriminate); try contradiction.
           injection U as <- <- <-. split; discriminate.
        -- discriminate.
      * cbn. auto.
    + cbn. auto 10.
    + apply k_sent. left. reflexivity.
  - cbn. auto 10.
  - cbn. auto 10.
  - apply k_sent. right. left. reflexivity.
Qed.

Lemma honest_trace_keys_agree : d_key 1 2 3 4 = l_key 3 4 1 2.
Proof. reflexivity. Qed.

End DY.
