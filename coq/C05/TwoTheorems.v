(* C05 — manager ⊗ TCP model ⊗ WebSocket model (coq/C05/TwoCompose.v), every history of outside
   inputs: the event history the manager is handed satisfies the transport contract `feas`
   (sys_feasible), hence the ledger theorems of coq/Mgr/LedgerInv.v hold for the three models
   together with no assumption about the transports; what is left to the network is explicit
   (sys_quiescent, sys_owed_is_pending, sys_progress); what the two bookkeeping models inside the
   composed system stand for (side_real); a complete history as non-vacuity example. *)
From Coq Require Import List Arith NArith Bool Lia.
From Coq Require Import ZifyBool ZifyNat ZifyN.
From V.C10 Require Model.
From V.Mgr Require Import DialShape Model Caps Ledger LedgerInv Calls.
From V.Tcp Require Model Proofs Theorems Variants VariantTheorems.
From V.C05 Require TcpSide TrCompose.
From V.C05 Require Import TwoCompose TwoEvents TwoCmd.
Import ListNotations.
Open Scope N_scope.

Arguments N.add : simpl never.
Arguments N.sub : simpl never.
Arguments N.eqb : simpl never.
Arguments N.leb : simpl never.
Arguments N.ltb : simpl never.
Arguments N.of_nat : simpl never.
Arguments N.to_nat : simpl never.
Arguments TM.put : simpl never.
Arguments TM.lookup : simpl never.
Arguments TM.delk : simpl never.
Arguments TM.add : simpl never.
Arguments TM.del : simpl never.
Arguments TM.mem : simpl never.

Section Compose.
Variable L : limits.
Hypothesis both : installed L TCP = true /\ installed L WS = true.

(* a poll / a network event on transport t: the events the model of t emits are feasible in its own
   ledger; the other transport is not touched *)
Lemma net_binv st t n :
  Inv L st -> tagged t -> TM.polls n = true -> BInv L (after_net t st n) t (net_events t st n).
Proof.
  intros (I & Hs & G) Ht Hp.
  exists (fun u => t_g (side st u)).
  destruct (after_net_mgr t st n) as [Em Eg]. rewrite Em, Eg.
  split; [exact I|]. split; [|exact G].
  intros u Hu. destruct (Hs u Hu) as [R C]. split; [|exact C].
  destruct (tagged_dec u t Hu Ht) as [-> | Hut].
  - rewrite rs_same. unfold after_net. rewrite side_set_same by exact Ht. unfold net_events, TIn. cbn [t_s t_g].
    set (s := t_s (side st t)) in *. set (tg := t_g (side st t)) in *.
    split; [apply TT.reachS; [exact R | now apply TS.polls_caller]|].
    split; [rewrite (TS.polls_gstep n _ tg Hp); apply TS.fold_events|].
    split.
    { rewrite <- TS.audit_events. destruct (TT.reach_inv _ _ R) as [U Cc].
      destruct (TP.stepC s tg n U Cc (TS.polls_caller tg n Hp)) as (_ & A & _).
      rewrite (TS.polls_gcall n _ tg Hp) in A. exact A. }
    split; [intros c q l Hin; apply TS.step_established_pending_open with (q := q) (l := l); now apply TS.in_events|].
    apply TS.step_last_only.
  - rewrite (rs_other _ _ _ Hut). unfold after_net. rewrite side_set_other by assumption. now apply tin_nil.
Qed.

Lemma tevs_inv t ts : tagged t -> forall st,
  BInv L st t ts -> feasible L (s_m st) (s_g st) (tevs_trace L t st ts) /\ Inv L (fold_left (deliver_tev L t) ts st).
Proof.
  intros Ht. induction ts as [|te r IH]; intros st B; cbn [tevs_trace fold_left].
  - split; [exact Logic.I | exact (binv_inv L st t B)].
  - destruct (deliver_tev_inv L both st t te r Ht B) as [F B']. destruct (IH _ B') as [F' I'].
    split; [|exact I']. apply TR.feasible_app; [exact F|].
    rewrite <- (fold_deliver_mgr L (Some t) k0 (mevs t st te) st). cbn [fst snd]. exact F'.
Qed.

Lemma inv0 : Inv L sys0.
Proof.
  split; [apply linv_init|]. split.
  - intros u Hu. assert (E : side sys0 u = side0) by (destruct Hu as [-> | ->]; reflexivity). rewrite E.
    split; [constructor|]. repeat split; cbn; tauto.
  - repeat split; try (intros u v c Hu Hv _ H; destruct Hu as [-> | ->]; destruct H).
    intros c [].
Qed.

(* T — one input from outside: the manager is handed a feasible piece of history *)
Theorem sys_step_inv st x :
  Inv L st -> xok L st x -> feasible L (s_m st) (s_g st) (sys_evs L st x) /\ Inv L (sys_step L st x).
Proof.
  intros Hi Hx. destruct x as [e k|t n]; cbn [xok sys_evs sys_step] in *.
  - destruct Hx as [Hc Hf]. split; [cbn [feasible]; split; [exact Hf | exact I] | now apply deliver_cmd].
  - destruct Hx as [Ht Hp]. pose proof (net_binv st t n Hi Ht Hp) as B.
    destruct (tevs_inv t _ Ht _ B) as [F Hi']. split; [|exact Hi'].
    destruct (after_net_mgr t st n) as [Em Eg]. rewrite Em, Eg in F. exact F.
Qed.

Theorem sys_feasible xs : forall st,
  Inv L st -> xfeasible L st xs ->
  feasible L (s_m st) (s_g st) (sys_trace L st xs) /\ Inv L (sys_run L st xs).
Proof.
  induction xs as [|x r IH]; intros st Hi Hx; cbn [sys_trace sys_run xfeasible] in *; [split; [exact I | exact Hi]|].
  destruct Hx as [H1 H2]. destruct (sys_step_inv st x Hi H1) as [F Hi'].
  destruct (IH _ Hi' H2) as [F' Hi'']. split; [|exact Hi''].
  apply TR.feasible_app; [exact F|]. rewrite <- (sys_step_mgr L st x). cbn [fst snd]. exact F'.
Qed.

(* ---------- the ledger theorems for manager + TCP + WebSocket together ---------- *)
Theorem sys_feasible0 xs :
  xfeasible L sys0 xs ->
  feasible L init g0 (sys_trace L sys0 xs) /\
  (s_m (sys_run L sys0 xs), s_g (sys_run L sys0 xs)) = lrun L init g0 (sys_trace L sys0 xs).
Proof.
  intros H. split; [exact (proj1 (sys_feasible xs sys0 inv0 H)) | exact (sys_run_mgr L xs sys0)].
Qed.

Theorem sys_at_most_one_outcome xs :
  xfeasible L sys0 xs -> NoDup (terminals L init (sys_trace L sys0 xs)).
Proof. intros H. apply at_most_one_outcome. exact (proj1 (sys_feasible xs sys0 inv0 H)). Qed.

Theorem sys_no_silence xs :
  xfeasible L sys0 xs ->
  let st := sys_run L sys0 xs in
  quiescent (s_m st) (s_g st) ->
  forall c p, lookup c (g_att (s_g st)) = Some p ->
    In c (g_done (s_g st)) \/ (In c (g_super (s_g st)) /\ In p (g_rep (s_g st))) \/ In c (g_limrej (s_g st)).
Proof.
  intros H st. pose proof (no_silence L (sys_trace L sys0 xs) (proj1 (sys_feasible xs sys0 inv0 H))) as T.
  pose proof (sys_run_mgr L xs sys0) as E. cbn [sys0 s_m s_g] in E. rewrite <- E in T. exact T.
Qed.

Theorem sys_no_wedge xs :
  xfeasible L sys0 xs ->
  let st := sys_run L sys0 xs in
  quiescent (s_m st) (s_g st) -> forall p, settled (state_of (s_m st) p).
Proof.
  intros H st. pose proof (no_wedge L (sys_trace L sys0 xs) (proj1 (sys_feasible xs sys0 inv0 H))) as T.
  pose proof (sys_run_mgr L xs sys0) as E. cbn [sys0 s_m s_g] in E. rewrite <- E in T. exact T.
Qed.

Lemma xfeasible_last xs x : forall st,
  xfeasible L st (xs ++ [x]) -> Inv L st -> Inv L (sys_run L st xs) /\ xok L (sys_run L st xs) x.
Proof.
  induction xs as [|y r IH]; intros st Hf Hi; cbn [app xfeasible sys_run] in *; [tauto|].
  destruct Hf as [H1 H2]. apply IH; [exact H2 | exact (proj2 (sys_step_inv st y Hi H1))].
Qed.

Theorem sys_no_stuck xs x s :
  xfeasible L sys0 (xs ++ [x]) ->
  forall e m g es2, sys_evs L (sys_run L sys0 xs) x = e :: es2 ->
  (m, g) = (s_m (sys_run L sys0 xs), s_g (sys_run L sys0 xs)) ->
  ~ In (Stuck s) (snd (step L m e)).
Proof.
  intros H e m g es2 He [= -> ->].
  destruct (xfeasible_last xs x sys0 H inv0) as [Hi Hok].
  destruct (sys_step_inv _ x Hi Hok) as [F _]. rewrite He in F. cbn [feasible] in F. destruct F as [F _].
  destruct Hi as (I & _). exact (no_stuck_feasible L _ _ e s I F).
Qed.

(* ---------- what is left to the network ---------- *)
(* quiescence, read off the two transport models' own ledgers *)
Theorem sys_quiescent st :
  Inv L st ->
  (quiescent (s_m st) (s_g st) <->
   (forall u, tagged u -> TM.g_open (t_g (side st u)) = [] /\ TM.g_neg (t_g (side st u)) = []) /\
   accepting (s_m st) = []).
Proof.
  intros (I & Hs & (G1 & G2 & G3)). unfold quiescent. split.
  - intros (Ho & Hn & Ha). split; [|exact Ha]. intros u Hu. destruct (Hs u Hu) as [_ (C1 & C2 & _)].
    rewrite !TR.nil_iff. split.
    + intros c Hc. apply C1 in Hc. rewrite Ho in Hc. destruct Hc.
    + intros c Hc. apply C2 in Hc. rewrite Hn in Hc. destruct Hc.
  - intros (Hq & Ha). split; [|split; [|exact Ha]]; apply TR.nil_iff.
    + intros [c t] Hin. pose proof (li_open_inst _ _ _ I c t Hin) as Hi. apply installed_lt in Hi.
      destruct (Hs t Hi) as [_ (C1 & _)]. apply C1 in Hin. rewrite (proj1 (Hq t Hi)) in Hin. destruct Hin.
    + intros c Hin. destruct (G3 c Hin) as (u & Hu & Hc). cbv beta in Hc. rewrite (proj2 (Hq u Hu)) in Hc. destruct Hc.
Qed.

(* whatever the manager waits for is backed by a pending un-cancelled future of one of the two
   transport models *)
Definition backed (x : tside) (c : conn) : Prop :=
  (exists f rem, TM.lookup f (TM.praw (t_s x)) = Some c /\ TM.lookup f (TM.attempts (t_s x)) = Some rem /\
                 ~ In f (TM.aborted (t_s x))) \/
  (exists f k, TM.lookup f (TM.pconn (t_s x)) = Some (c, k) /\ TM.is_inb k = false).

Lemma owed_side st c :
  Inv L st -> owed (s_g st) c ->
  exists u, tagged u /\ (In c (TM.g_open (t_g (side st u))) \/ In c (TM.g_neg (t_g (side st u)))).
Proof.
  intros (I & Hs & (G1 & G2 & G3)) [[t Ht]|Hn].
  - pose proof (li_open_inst _ _ _ I c t Ht) as Hi. apply installed_lt in Hi. exists t. split; [exact Hi|].
    left. destruct (Hs t Hi) as [_ (C1 & _)]. now apply C1.
  - destruct (G3 c Hn) as (u & Hu & Hc). exists u. split; [exact Hu | now right].
Qed.

Theorem sys_owed_is_pending st c :
  Inv L st -> owed (s_g st) c -> exists u, tagged u /\ backed (side st u) c.
Proof.
  intros Hi Ho. destruct (owed_side st c Hi Ho) as (u & Hu & H). exists u. split; [exact Hu|].
  destruct Hi as (_ & Hs & _). destruct (Hs u Hu) as [R _].
  destruct (TT.tcp_owed_is_pending _ _ c R) as [T1 T2].
  destruct H as [H|H]; [left; exact (T1 H) | right; exact (T2 H)].
Qed.

(* an event of transport t reaches the manager *)
Lemma tevs_trace_in t te ts : forall st, In te ts -> exists st', forall e, In e (mevs t st' te) -> In e (tevs_trace L t st ts).
Proof.
  induction ts as [|t0 r IH]; intros st H; [destruct H|]. cbn [tevs_trace]. destruct H as [->|H].
  - exists st. intros e He. apply in_or_app. now left.
  - destruct (IH (deliver_tev L t st t0) H) as [st' Hs]. exists st'. intros e He. apply in_or_app. right. now apply Hs.
Qed.

(* ... and the network can always complete it: for everything the manager waits for there is a
   network / runtime input on one of the two transports (the deadline of the open fires, the dial
   attempt ends, the transport is polled) whose handling hands the manager an answer for that
   connection id *)
Theorem sys_progress st c :
  Inv L st -> owed (s_g st) c ->
  exists u n, tagged u /\ TM.polls n = true /\ exists e, In e (sys_evs L st (XNet u n)) /\ TR.answers c e.
Proof.
  intros Hi Ho. destruct (owed_side st c Hi Ho) as (u & Hu & Hown).
  pose proof Hi as (I & Hs & _). destruct (Hs u Hu) as [R _].
  set (s := t_s (side st u)) in *. set (tg := t_g (side st u)) in *.
  assert (Hdel : forall n te, In (TM.OEv te) (snd (TM.step s n)) ->
            (forall st', exists e, In e (mevs u st' te) /\ TR.answers c e) ->
            exists e, In e (sys_evs L st (XNet u n)) /\ TR.answers c e).
  { intros n te Hin Hm. apply TS.in_events in Hin.
    destruct (tevs_trace_in u te _ (after_net u st n) Hin) as [st' Hst].
    destruct (Hm st') as (e & He & Ha). exists e. split; [cbn [sys_evs]; now apply Hst | exact Ha]. }
  destruct (TT.tcp_owed_is_pending _ _ c R) as [T1 T2].
  destruct (TT.reach_inv _ _ R) as [U Cc].
  assert (Hcase : In c (TM.g_open tg) \/ (~ In c (TM.g_open tg) /\ In c (TM.g_neg tg))).
  { destruct Hown as [H|H]; [now left|]. right. split; [|exact H]. intros Hop.
    destruct (T1 Hop) as (f & rem & Hf & _). destruct (TP.c_neg_backed _ _ Cc c H) as (f' & k' & Hf' & _).
    exact (TP.c_raw_nconn _ _ Cc f c f' k' (TP.lookup_in _ _ _ Hf) Hf'). }
  destruct Hcase as [Hop|[_ Hng]].
  - (* an open: the deadline *)
    destruct (T1 Hop) as (f & rem & Hf & Ha & Hab).
    exists u, (TM.EExpire f). split; [exact Hu|]. split; [reflexivity|].
    apply (Hdel (TM.EExpire f) (TM.TOpenFailure c)).
    + destruct rem as [|x r].
      * apply (TT.tcp_progress_open_no_address _ _ f c (TM.EExpire f) R Hf Hop Ha eq_refl).
      * apply (TT.tcp_progress_open_expire _ _ f c (x :: r) R Hf Hop Ha). discriminate.
    + intros st'. eexists. split; [cbn [mevs]; left; reflexivity | reflexivity].
  - destruct (T2 Hng) as (f & k & Hf & Hk). destruct k; try discriminate.
    + (* a dial: the attempt ends *)
      exists u, (TM.EAns f 0 None). split; [exact Hu|]. split; [reflexivity|].
      destruct (TT.tcp_progress_dial _ _ f c 0 None R Hf) as (ex & _ & Hin).
      apply (Hdel _ _ Hin). intros st'. eexists. split; [cbn [mevs]; left; reflexivity | reflexivity].
    + (* a negotiate: the next poll *)
      exists u, TM.EPoll. split; [exact Hu|]. split; [reflexivity|].
      destruct (TT.tcp_progress_negotiate _ _ f c TM.EPoll R Hf eq_refl) as [q Hin].
      apply (Hdel _ _ Hin). intros st'. eexists. split; [cbn [mevs]; left; reflexivity | reflexivity].
Qed.

(* ---------- the same, stated for the states reachable from the initial one ---------- *)
Theorem sys_quiescent0 xs :
  xfeasible L sys0 xs ->
  let st := sys_run L sys0 xs in
  quiescent (s_m st) (s_g st) <->
  (forall u, tagged u -> TM.g_open (t_g (side st u)) = [] /\ TM.g_neg (t_g (side st u)) = []) /\
  accepting (s_m st) = [].
Proof. intros H. apply sys_quiescent. exact (proj2 (sys_feasible xs sys0 inv0 H)). Qed.

Theorem sys_owed_is_pending0 xs c :
  xfeasible L sys0 xs ->
  let st := sys_run L sys0 xs in
  owed (s_g st) c -> exists u, tagged u /\ backed (side st u) c.
Proof. intros H. apply sys_owed_is_pending. exact (proj2 (sys_feasible xs sys0 inv0 H)). Qed.

Lemma xfeasible_snoc xs x : forall st,
  xfeasible L st xs -> xok L (sys_run L st xs) x -> xfeasible L st (xs ++ [x]).
Proof.
  induction xs as [|y r IH]; intros st H Hx; cbn [app xfeasible sys_run] in *; [tauto|].
  destruct H as [H1 H2]. split; [exact H1 | now apply IH].
Qed.

Theorem sys_progress0 xs c :
  xfeasible L sys0 xs ->
  let st := sys_run L sys0 xs in
  owed (s_g st) c ->
  exists u n, tagged u /\ TM.polls n = true /\ xfeasible L sys0 (xs ++ [XNet u n]) /\
              exists e, In e (sys_evs L st (XNet u n)) /\ TR.answers c e.
Proof.
  intros H st Ho. destruct (sys_progress st c (proj2 (sys_feasible xs sys0 inv0 H)) Ho) as (u & n & Hu & Hp & He).
  exists u, n. split; [exact Hu|]. split; [exact Hp|]. split; [|exact He].
  apply xfeasible_snoc; [exact H | split; assumption].
Qed.

(* the three copies of the shared connection-id counter agree in every reachable state, and the
   two transports never owe an answer of the negotiate phase / an inbound answer for the same id *)
Theorem sys_counters0 xs :
  xfeasible L sys0 xs ->
  let st := sys_run L sys0 xs in
  (forall u, tagged u -> TM.ctr (t_s (side st u)) = next_conn (s_m st)) /\
  (forall c, In c (TM.g_neg (t_g (side st TCP))) -> ~ In c (TM.g_neg (t_g (side st WS)))) /\
  (forall c, In c (TM.g_inb (t_g (side st TCP))) -> ~ In c (TM.g_inb (t_g (side st WS)))).
Proof.
  intros H st. destruct (proj2 (sys_feasible xs sys0 inv0 H)) as (_ & Hs & (G1 & G2 & _)). fold st in Hs, G1, G2.
  split; [|split].
  - intros u Hu. destruct (Hs u Hu) as [R (_ & _ & _ & _ & C5)].
    destruct (TT.reach_inv _ _ R) as [U _]. rewrite <- (TP.u_ctr _ _ U). exact C5.
  - intros c. apply (G1 TCP WS c); [now left | now right | discriminate].
  - intros c. apply (G2 TCP WS c); [now left | now right | discriminate].
Qed.

End Compose.

(* ====================================================================================== *)
(* What the two bookkeeping models inside the composed system stand for                    *)
(* ====================================================================================== *)
Module TV := V.Tcp.Variants.

(* running the model of a transport on real trait calls (TrCompose.xrun), on one side *)
Definition xexec (tv : TV.transport) (x : tside) (ks : list TV.tcall) : tside :=
  mkT (fst (TR.xrun tv (t_s x) (t_g x) ks)) (snd (TR.xrun tv (t_s x) (t_g x) ks)).

(* the REAL trait calls transport u sees in the step that handles e: draws of the shared counter
   and the calls with the canonical addresses of the dialled peer for that transport *)
Definition real_calls (L : limits) (src : option tr) (k : tr -> nat) (u : tr) (m : mgr) (e : ev) : list TV.tcall :=
  map TV.XEv (repeat TM.EDraw (ndraws src u e m (fst (step L m e)))) ++
  flat_map (TR.fwdX u (TR.tgt e) (k u)) (snd (step L m e)).

(* when the manager handles an event, side u of the composed system is the model of transport
   `transport_of u` (TcpTransport for TCP, WebSocketTransport for WS; coq/Tcp/Variants.v) run on
   the real trait calls *)
Theorem side_real L src k st e u :
  tagged u ->
  side (deliver L src k st e) u = xexec (TR.transport_of u) (side st u) (real_calls L src k u (s_m st) e).
Proof.
  intros Hu. rewrite side_deliver by exact Hu. unfold exec, xexec, calls_to, real_calls.
  rewrite TR.xrun_trun, map_app, map_map.
  assert (E1 : forall n, map (fun x => TV.ev_of (TR.transport_of u) (TV.XEv x)) (repeat TM.EDraw n) = repeat TM.EDraw n).
  { induction n as [|n IH]; [reflexivity|]. cbn [repeat map]. rewrite IH. reflexivity. }
  rewrite E1.
  assert (E2 : forall os, map (TV.ev_of (TR.transport_of u)) (flat_map (TR.fwdX u (TR.tgt e) (k u)) os) =
                          flat_map (TR.fwd u (TR.tgt e) (k u)) os).
  { induction os as [|o r IH]; [reflexivity|]. cbn [flat_map]. rewrite map_app, IH, <- (TR.fwd_real u _ _ _ Hu). reflexivity. }
  rewrite E2. reflexivity.
Qed.

(* a network input on transport t is one step of the model of that transport *)
Theorem after_net_real t st n :
  tagged t ->
  side (after_net t st n) t =
  mkT (fst (TV.tstep (TR.transport_of t) (t_s (side st t)) (TV.XEv n)))
      (TM.gstep (TV.ev_of (TR.transport_of t) (TV.XEv n))
                (snd (TV.tstep (TR.transport_of t) (t_s (side st t)) (TV.XEv n))) (t_g (side st t))).
Proof. intros Ht. unfold after_net. rewrite side_set_same by exact Ht. reflexivity. Qed.

(* ---------- TCP and WebSocket both installed (non-vacuity) ---------- *)
Definition L_both : limits := mkLimits None None [TCP; WS].

Lemma L_both_installed : installed L_both TCP = true /\ installed L_both WS = true.
Proof. split; reflexivity. Qed.

(* Both transports installed. A tcp and a /ws address of peer 5 are added and the peer is dialled:
   ONE connection id (0) is opened on both transports. WebSocket answers first, with another
   identity (9): OpenFailure from WS, silent for the manager (TCP is still owed). TCP completes
   with peer 5: ConnectionOpened, cancel on what is left of the set, negotiate on TCP; the next
   poll of TCP reports the connection, the protocols accept it. A socket arrives at the WebSocket
   listener: WS draws id 1 (the counters of the manager and of TCP follow), it is accepted and
   authenticates as peer 7. A dial_address through the handle to a tcp address of peer 6 gets id 2
   on TCP; its attempt fails: DialFailure. Then peer 8 (a tcp and two /ws addresses) is dialled
   through the handle: id 3 on both transports; TCP wins while WS is still trying: cancel(3) on
   TCP AND on WS, negotiate on TCP; the poll of WS drops the aborted future without an event, the
   poll of TCP reports the connection. Nothing is owed at the end; the three counters agree. *)
Definition history2 : list xev :=
  [XCmd (CmdAddAddr 5 TCP) k0; XCmd (CmdAddAddr 5 WS) k0; XCmd (CmdDialPeer 5 [TCP; WS] []) k0;
   XNet WS (TM.EAns 0 0 (Some 9)); XNet TCP (TM.EAns 0 0 (Some 5)); XNet TCP TM.EPoll;
   XCmd (AcceptDone 0 true) k0;
   XNet WS TM.EInbound; XNet WS (TM.EAns 1 0 (Some 7)); XCmd (AcceptDone 1 true) k0;
   XCmd (HDialAddr (canon 6 TCP) false) k0; XNet TCP (TM.EAns 2 0 None);
   XCmd (CmdAddAddr 8 TCP) k0; XCmd (CmdAddAddr 8 WS) k0;
   XCmd (HDialPeer 8 [TCP; WS] [] false) (fun u => if u =? WS then 1%nat else 0%nat);
   XNet TCP (TM.EAns 3 0 (Some 8)); XNet WS TM.EPoll; XNet TCP TM.EPoll; XCmd (AcceptDone 3 true) k0].

Lemma history2_ok :
  xfeasible L_both sys0 history2 /\
  sys_trace L_both sys0 history2 =
    [CmdAddAddr 5 TCP; CmdAddAddr 5 WS; CmdDialPeer 5 [TCP; WS] [];
     TrOpenFailure 0 WS 5; TrOpened 0 TCP false; TrEstablished 5 0 TCP false false; AcceptDone 0 true;
     AllocConn; TrPendingInbound 1 WS; TrEstablished 7 1 WS true false; AcceptDone 1 true;
     HDialAddr (canon 6 TCP) false; TrDialFailure 2 TCP 6;
     CmdAddAddr 8 TCP; CmdAddAddr 8 WS; HDialPeer 8 [TCP; WS] [] false;
     TrOpened 3 TCP false; TrEstablished 8 3 TCP false false; AcceptDone 3 true] /\
  snd (run L_both init (sys_trace L_both sys0 history2)) =
    [[]; []; [CallOpen 0 TCP; CallOpen 0 WS; Ret RET_OK]; [];
     [CallCancel 0 TCP; CallNegotiate 0 TCP]; [CallAccept 0 TCP]; [EvEstablished 5 0];
     [Ret (RET_ALLOC + 1)]; [CallAcceptPending 1 WS]; [CallAccept 1 WS]; [EvEstablished 7 1];
     [Ret RET_OK; CallDial 2 TCP; Logged RET_OK]; [ProtoDialFailure 6; EvDialFailure 2 6];
     []; []; [Ret RET_OK; CallOpen 3 TCP; CallOpen 3 WS; Logged RET_OK];
     [CallCancel 3 TCP; CallCancel 3 WS; CallNegotiate 3 TCP]; [CallAccept 3 TCP]; [EvEstablished 8 3]] /\
  (let st := sys_run L_both sys0 history2 in
   quiescent (s_m st) (s_g st) /\
   TM.praw (t_s (side st WS)) = [] /\
   (TM.ctr (t_s (side st TCP)), TM.ctr (t_s (side st WS)), next_conn (s_m st)) = (4, 4, 4)).
Proof. vm_compute. repeat split; auto. Qed.
