(* C05 — the manager model (coq/Mgr) composed with TWO transport models at once: one instance of
   the bookkeeping model of coq/Tcp for TCP and one for WebSocket, both installed.

   coq/C05/TcpCompose.v and coq/C05/TrCompose.v plug the manager model into ONE transport model
   (the only installed transport). Here the manager runs in the configuration it actually runs in:
   dial(peer) draws one connection id and calls open(id, ..) on EVERY transport the chosen
   addresses span (PeerState::Opening with a transport set), ConnectionOpened from one transport
   cancels the id on all of them and negotiates on the winner, an inbound connection cancels on
   all of them.

   The composed system: the manager model + its ledger, and per transport tag (TCP, WS) a state of
   the transport model + the ghost state of that transport's contract. The connection-id counter
   (`next_connection_id`, one AtomicUsize shared by the manager and every transport) exists three
   times in the models and is kept in step: an id drawn by the manager is a draw (`EDraw`) on both
   transports, an id drawn by one transport for an inbound socket is the manager's `AllocConn`
   and a draw on the other transport.
     - XCmd e k: the user / protocol side; the manager handles e, each call `Call.. c t` is
       executed by the model of transport t (k t: how many addresses beyond the first the address
       store handed out for transport t);
     - XNet t n: the network / runtime on transport t (an attempt of a pending future ends, a
       deadline fires, a socket arrives, a poll); the events the model of t emits are handled by
       the manager one after the other, its calls (on BOTH transports) executed before the next
       event is handled.

   This file: the system, the coupling invariant and the lemmas about the transport side
   (`TIn`). coq/C05/TwoEvents.v: one delivered event at a time. coq/C05/TwoTheorems.v: every
   history. Nothing in coq/Mgr, coq/Tcp, TcpCompose.v, TrCompose.v is changed; the definitions of
   TrCompose.v that do not depend on the transport being the only one (`fwd`, `tgt`, `named_peer`,
   `is_cmd`, `answers`, ...) are reused. *)
From Coq Require Import List Arith NArith Bool Lia.
From Coq Require Import ZifyBool ZifyNat ZifyN.
From V.C10 Require Model.
From V.Mgr Require Import DialShape Model Caps Ledger LedgerInv Calls.
From V.Tcp Require Model Proofs Theorems Variants VariantTheorems.
From V.C05 Require TcpSide TrCompose.
Import ListNotations.
Open Scope N_scope.

Module TM := V.Tcp.Model.
Module TP := V.Tcp.Proofs.
Module TT := V.Tcp.Theorems.
Module TS := V.C05.TcpSide.
Module TR := V.C05.TrCompose.

Arguments N.add : simpl never.
Arguments N.sub : simpl never.
Arguments N.eqb : simpl never.
Arguments N.leb : simpl never.
Arguments N.ltb : simpl never.
Arguments N.of_nat : simpl never.
Arguments N.to_nat : simpl never.
Arguments TM.put : simpl never.
Arguments TM.lookup : simpl never.
Arguments TM.delk : simpl never.
Arguments TM.add : simpl never.
Arguments TM.del : simpl never.
Arguments TM.mem : simpl never.

(* ====================================================================================== *)
(* The composed system                                                                     *)
(* ====================================================================================== *)
(* the two installed transports *)
Definition tagged (u : tr) : Prop := u = TCP \/ u = WS.

(* one transport: the state of its model and the ghost state of its contract *)
Record tside := mkT { t_s : TM.tcp; t_g : TM.ghost }.
Definition side0 : tside := mkT TM.init TM.g0.

Record sys := mkSys {
  s_m : mgr; s_g : ghost;      (* the manager model and its ledger *)
  s_a : tside;                 (* the TCP model *)
  s_b : tside                  (* the WebSocket model *)
}.

Definition sys0 : sys := mkSys init g0 side0 side0.

Definition side (st : sys) (u : tr) : tside := if u =? WS then s_b st else s_a st.
Definition set_side (st : sys) (u : tr) (x : tside) : sys :=
  if u =? WS then mkSys (s_m st) (s_g st) (s_a st) x else mkSys (s_m st) (s_g st) x (s_b st).

(* a transport executes a list of calls *)
Definition exec (x : tside) (cs : list TM.ev) : tside :=
  mkT (fst (TS.trun (t_s x) (t_g x) cs)) (snd (TS.trun (t_s x) (t_g x) cs)).

Lemma exec_exec x a b : exec (exec x a) b = exec x (a ++ b).
Proof. unfold exec. cbn [t_s t_g]. rewrite TS.trun_app. reflexivity. Qed.

Lemma side_set_same st t x : tagged t -> side (set_side st t x) t = x.
Proof. intros [-> | ->]; reflexivity. Qed.

Lemma side_set_other st t u x : tagged t -> tagged u -> u <> t -> side (set_side st t x) u = side st u.
Proof. intros [-> | ->] [-> | ->] H; try reflexivity; congruence. Qed.

Lemma set_side_mgr st t x : s_m (set_side st t x) = s_m st /\ s_g (set_side st t x) = s_g st.
Proof. unfold set_side. destruct (t =? WS); split; reflexivity. Qed.

Lemma tagged_dec u t : tagged u -> tagged t -> u = t \/ u <> t.
Proof. intros [-> | ->] [-> | ->]; auto; right; discriminate. Qed.

Definition other (t : tr) : tr := if t =? WS then TCP else WS.
Lemma other_tagged t : tagged t -> tagged (other t) /\ other t <> t.
Proof. intros [-> | ->]; (split; [|discriminate]); [right | left]; reflexivity. Qed.

(* ---------- which calls of the manager reach transport u (TrCompose.fwd, any tag) ---------- *)
Ltac fwd_inv u H :=
  match type of H with
  | In _ (TR.fwd _ _ _ ?o) =>
      destruct o; cbn [TR.fwd] in H; try contradiction;
      match type of H with
      | In _ (if ?t =? u then _ else _) =>
          let E := fresh "E" in destruct (t =? u) eqn:E; cbn [In] in H; try contradiction;
          destruct H as [H|[]]; try discriminate; apply N.eqb_eq in E; subst t
      end
  end.

Lemma in_fwd_cancel u p k os y : In (TM.ECancel y) (flat_map (TR.fwd u p k) os) <-> In (CallCancel y u) os.
Proof.
  rewrite in_flat_map. split.
  - intros (o & Ho & H). fwd_inv u H. injection H as <-. exact Ho.
  - intros H. exists (CallCancel y u). split; [exact H | cbn [TR.fwd]; rewrite N.eqb_refl; now left].
Qed.

Lemma in_fwd_accept u p k os y : In (TM.EAccept y) (flat_map (TR.fwd u p k) os) <-> In (CallAccept y u) os.
Proof.
  rewrite in_flat_map. split.
  - intros (o & Ho & H). fwd_inv u H. injection H as <-. exact Ho.
  - intros H. exists (CallAccept y u). split; [exact H | cbn [TR.fwd]; rewrite N.eqb_refl; now left].
Qed.

Lemma in_fwd_reject u p k os y : In (TM.EReject y) (flat_map (TR.fwd u p k) os) <-> In (CallReject y u) os.
Proof.
  rewrite in_flat_map. split.
  - intros (o & Ho & H). fwd_inv u H. injection H as <-. exact Ho.
  - intros H. exists (CallReject y u). split; [exact H | cbn [TR.fwd]; rewrite N.eqb_refl; now left].
Qed.

Lemma fwd_cancels u p k c ts :
  let cs := flat_map (TR.fwd u p k) (map (CallCancel c) ts) in
  forallb TS.passive cs = true /\ (forall y, In (TM.ECancel y) cs -> y = c) /\
  (forall y, ~ In (TM.EAccept y) cs) /\ (forall y, ~ In (TM.EReject y) cs).
Proof.
  cbn zeta. split; [|split; [|split]].
  - apply TR.calm_passive. apply Forall_forall. intros o Ho. apply in_map_iff in Ho. destruct Ho as (t & <- & _). exact I.
  - intros y H. apply in_fwd_cancel in H. apply in_map_iff in H. destruct H as (t & [= <- _] & _). reflexivity.
  - intros y H. apply in_fwd_accept in H. apply in_map_iff in H. destruct H as (t & E & _). discriminate.
  - intros y H. apply in_fwd_reject in H. apply in_map_iff in H. destruct H as (t & E & _). discriminate.
Qed.

Section Compose.
Variable L : limits.

(* ids drawn from the shared counter in the step that handles e, seen from transport u: the ids the
   manager draws (`next_connection_id()`) are draws for every transport; the id of an inbound
   socket (AllocConn) was drawn by transport `src` itself and is a draw for the other one *)
Definition ndraws (src : option tr) (u : tr) (e : ev) (m m' : mgr) : nat :=
  match e with
  | AllocConn => match src with Some s => if u =? s then 0%nat else 1%nat | None => 1%nat end
  | _ => N.to_nat (next_conn m' - next_conn m)
  end.

(* what transport u sees of the step that handles e *)
Definition calls_to (src : option tr) (k : tr -> nat) (u : tr) (m : mgr) (e : ev) : list TM.ev :=
  repeat TM.EDraw (ndraws src u e m (fst (step L m e))) ++
  flat_map (TR.fwd u (TR.tgt e) (k u)) (snd (step L m e)).

(* the manager handles one event; the ids it draws and the calls it makes go to the two models *)
Definition deliver (src : option tr) (k : tr -> nat) (st : sys) (e : ev) : sys :=
  mkSys (fst (step L (s_m st) e)) (gstep e (snd (step L (s_m st) e)) (s_g st))
        (exec (s_a st) (calls_to src k TCP (s_m st) e))
        (exec (s_b st) (calls_to src k WS (s_m st) e)).

Lemma side_deliver src k st e u :
  tagged u -> side (deliver src k st e) u = exec (side st u) (calls_to src k u (s_m st) e).
Proof. intros [-> | ->]; reflexivity. Qed.

(* a TransportEvent of transport t as the manager sees it (cf. TrCompose.mevs) *)
Definition mevs (t : tr) (st : sys) (te : TM.tev) : list ev :=
  let x := side st t in
  match te with
  | TM.TPendingInbound c => [AllocConn; TrPendingInbound c t]
  | TM.TOpened c => [TrOpened c t (negb (TM.mem c (TM.opened (t_s x))))]
  | TM.TOpenFailure c => [TrOpenFailure c t (TR.named_peer (t_g x) c)]
  | TM.TEstablished c q l => [TrEstablished q c t l (negb (TM.mem c (TM.pending_open (t_s x))))]
  | TM.TDialFailure c => [TrDialFailure c t (TR.named_peer (t_g x) c)]
  end.

Definition k0 : tr -> nat := fun _ => 0%nat.

Definition deliver_tev (t : tr) (st : sys) (te : TM.tev) : sys :=
  fold_left (deliver (Some t) k0) (mevs t st te) st.

Fixpoint tevs_trace (t : tr) (st : sys) (ts : list TM.tev) : list ev :=
  match ts with
  | [] => []
  | te :: r => mevs t st te ++ tevs_trace t (deliver_tev t st te) r
  end.

(* inputs from outside the three models *)
Inductive xev :=
| XCmd (e : ev) (k : tr -> nat)   (* the user / protocol side *)
| XNet (t : tr) (n : TM.ev).      (* the network / the runtime, on transport t *)

Definition after_net (t : tr) (st : sys) (n : TM.ev) : sys :=
  let x := side st t in
  set_side st t (mkT (fst (TM.step (t_s x) n)) (TM.gstep n (snd (TM.step (t_s x) n)) (t_g x))).

Definition net_events (t : tr) (st : sys) (n : TM.ev) : list TM.tev :=
  TM.events (snd (TM.step (t_s (side st t)) n)).

Definition sys_step (st : sys) (x : xev) : sys :=
  match x with
  | XCmd e k => deliver None k st e
  | XNet t n => fold_left (deliver_tev t) (net_events t st n) (after_net t st n)
  end.

(* the events the manager handles in that step *)
Definition sys_evs (st : sys) (x : xev) : list ev :=
  match x with
  | XCmd e _ => [e]
  | XNet t n => tevs_trace t (after_net t st n) (net_events t st n)
  end.

Fixpoint sys_run (st : sys) (xs : list xev) : sys :=
  match xs with [] => st | x :: r => sys_run (sys_step st x) r end.

Fixpoint sys_trace (st : sys) (xs : list xev) : list ev :=
  match xs with [] => [] | x :: r => sys_evs st x ++ sys_trace (sys_step st x) r end.

(* what is still assumed: the inputs from outside are of the right kind (a command of the user /
   protocol side; a network / runtime event on one of the two transports), and satisfy the clauses
   of `feas` that speak about the address store (`choice_ok`), the calls that cannot fail in the
   transport models (open, dial of a well-formed address) and the protocols (accept futures
   succeed). Nothing is assumed about the transports. *)
Definition xok (st : sys) (x : xev) : Prop :=
  match x with
  | XCmd e _ => TR.is_cmd e = true /\ feas L (s_m st) (s_g st) e
  | XNet t n => tagged t /\ TM.polls n = true
  end.

Fixpoint xfeasible (st : sys) (xs : list xev) : Prop :=
  match xs with [] => True | x :: r => xok st x /\ xfeasible (sys_step st x) r end.

(* ---------- the manager part of the composed run is the manager model run on the trace ---------- *)
Lemma deliver_mgr src k st e :
  (s_m (deliver src k st e), s_g (deliver src k st e)) = lrun L (s_m st) (s_g st) [e].
Proof. reflexivity. Qed.

Lemma fold_deliver_mgr src k es : forall st,
  (s_m (fold_left (deliver src k) es st), s_g (fold_left (deliver src k) es st)) = lrun L (s_m st) (s_g st) es.
Proof.
  induction es as [|e r IH]; intros st; cbn [fold_left lrun]; [reflexivity|]. rewrite IH. reflexivity.
Qed.

Lemma tevs_mgr t ts : forall st,
  (s_m (fold_left (deliver_tev t) ts st), s_g (fold_left (deliver_tev t) ts st)) =
  lrun L (s_m st) (s_g st) (tevs_trace t st ts).
Proof.
  induction ts as [|te r IH]; intros st; cbn [fold_left tevs_trace]; [reflexivity|].
  rewrite IH, (TR.lrun_app L). unfold deliver_tev at 1 2.
  rewrite <- (fold_deliver_mgr (Some t) k0 (mevs t st te) st). reflexivity.
Qed.

Lemma after_net_mgr t st n : s_m (after_net t st n) = s_m st /\ s_g (after_net t st n) = s_g st.
Proof. unfold after_net. apply set_side_mgr. Qed.

Lemma sys_step_mgr st x :
  (s_m (sys_step st x), s_g (sys_step st x)) = lrun L (s_m st) (s_g st) (sys_evs st x).
Proof.
  destruct x as [e k|t n]; cbn [sys_step sys_evs]; [reflexivity|].
  rewrite (tevs_mgr t _ (after_net t st n)). destruct (after_net_mgr t st n) as [-> ->]. reflexivity.
Qed.

Theorem sys_run_mgr xs : forall st,
  (s_m (sys_run st xs), s_g (sys_run st xs)) = lrun L (s_m st) (s_g st) (sys_trace st xs).
Proof.
  induction xs as [|x r IH]; intros st; cbn [sys_run sys_trace]; [reflexivity|].
  rewrite IH, (TR.lrun_app L), <- (sys_step_mgr st x). reflexivity.
Qed.

(* ====================================================================================== *)
(* The coupling between the three ledgers                                                  *)
(* ====================================================================================== *)
(* The transport side. `rest`: the events the model has emitted (its ghost t_g has accounted for
   them) and the manager has not seen yet; `vg`: the transport's ledger as the manager has seen
   it. Only the transport that is being polled has rest <> []. *)
Definition TIn (x : tside) (vg : TM.ghost) (rest : list TM.tev) : Prop :=
  TT.reach (t_s x) (t_g x) /\
  t_g x = fold_left TM.gout (map TM.OEv rest) vg /\
  TM.audit vg (map TM.OEv rest) = true /\
  (forall c q l, In (TM.TEstablished c q l) rest -> In c (TM.pending_open (t_s x))) /\
  TS.last_only rest.

(* Transport u against the manager. The open ledger of the manager is split by transport and
   agrees with u's; the negotiate ledger of the manager is NOT split by transport: what u owes is
   owed in the manager (`Glob` below says that the two transports never owe the same id and
   that together they cover the manager's set); an attempt of the manager that u owes an answer for is
   a dial / open call u saw, naming the same peer; all sides agree on the id counter. *)
Definition Cpl (u : tr) (m : mgr) (g : ghost) (vg : TM.ghost) : Prop :=
  (forall c, In (c, u) (g_open g) <-> In c (TM.g_open vg)) /\
  (forall c, In c (TM.g_neg vg) -> In c (g_neg g)) /\
  (forall c, In c (TM.g_inb vg) -> In c (g_inb g)) /\
  (forall c p, lookup c (g_att g) = Some p -> In c (TM.g_open vg) \/ In c (TM.g_neg vg) ->
     exists es, TM.lookup c (TM.g_att vg) = Some es /\ es <> [] /\ forall x, In x es -> x = Some p) /\
  TM.g_ctr vg = next_conn m.

Definition Glob (g : ghost) (vgs : tr -> TM.ghost) : Prop :=
  (forall u v c, tagged u -> tagged v -> u <> v -> In c (TM.g_neg (vgs u)) -> ~ In c (TM.g_neg (vgs v))) /\
  (forall u v c, tagged u -> tagged v -> u <> v -> In c (TM.g_inb (vgs u)) -> ~ In c (TM.g_inb (vgs v))) /\
  (forall c, In c (g_neg g) -> exists u, tagged u /\ In c (TM.g_neg (vgs u))).

(* the undelivered events: only at the transport that is being polled *)
Definition rs (t : tr) (rest : list TM.tev) (u : tr) : list TM.tev := if u =? t then rest else [].

Lemma rs_same t rest : rs t rest t = rest.
Proof. unfold rs. assert (t =? t = true) as -> by lia. reflexivity. Qed.
Lemma rs_other t rest u : u <> t -> rs t rest u = [].
Proof. intros H. unfold rs. assert (u =? t = false) as -> by lia. reflexivity. Qed.
Lemma rs_nil t u : rs t [] u = [].
Proof. unfold rs. destruct (u =? t); reflexivity. Qed.

(* The invariant while the events of one poll of transport t are being handled. *)
Definition BInv (st : sys) (t : tr) (rest : list TM.tev) : Prop :=
  exists vgs : tr -> TM.ghost,
    LInv L (s_m st) (s_g st) /\
    (forall u, tagged u -> TIn (side st u) (vgs u) (rs t rest u) /\ Cpl u (s_m st) (s_g st) (vgs u)) /\
    Glob (s_g st) vgs.

(* between two inputs *)
Definition Inv (st : sys) : Prop :=
  LInv L (s_m st) (s_g st) /\
  (forall u, tagged u -> TT.reach (t_s (side st u)) (t_g (side st u)) /\
                         Cpl u (s_m st) (s_g st) (t_g (side st u))) /\
  Glob (s_g st) (fun u => t_g (side st u)).

Lemma tin_nil x : TT.reach (t_s x) (t_g x) -> TIn x (t_g x) [].
Proof.
  intros R. split; [exact R|]. split; [reflexivity|]. split; [reflexivity|].
  split; [intros c q l []|exact TS.last_only_nil].
Qed.

Lemma tin_nil_inv x vg : TIn x vg [] -> TT.reach (t_s x) (t_g x) /\ vg = t_g x.
Proof. intros (R & E & _). cbn [map fold_left] in E. split; [exact R | now symmetry]. Qed.

Lemma glob_ext g v1 v2 : (forall u, tagged u -> v1 u = v2 u) -> Glob g v1 -> Glob g v2.
Proof.
  intros E (G1 & G2 & G3). split; [|split].
  - intros u v c Hu Hv Hne. rewrite <- (E u Hu), <- (E v Hv). now apply G1.
  - intros u v c Hu Hv Hne. rewrite <- (E u Hu), <- (E v Hv). now apply G2.
  - intros c Hc. destruct (G3 c Hc) as (u & Hu & H). exists u. split; [exact Hu|]. now rewrite <- (E u Hu).
Qed.

Lemma inv_binv st t : Inv st -> BInv st t [].
Proof.
  intros (I & Hs & G). exists (fun u => t_g (side st u)). split; [exact I|]. split; [|exact G].
  intros u Hu. destruct (Hs u Hu) as [R C]. rewrite rs_nil. split; [now apply tin_nil | exact C].
Qed.

Lemma binv_inv st t : BInv st t [] -> Inv st.
Proof.
  intros (vgs & I & Hs & G). split; [exact I|].
  assert (E : forall u, tagged u -> vgs u = t_g (side st u)).
  { intros u Hu. destruct (Hs u Hu) as [T _]. rewrite rs_nil in T. exact (proj2 (tin_nil_inv _ _ T)). }
  split.
  - intros u Hu. destruct (Hs u Hu) as [T C]. rewrite rs_nil in T. destruct (tin_nil_inv _ _ T) as [R Ev].
    split; [exact R|]. rewrite <- Ev. exact C.
  - exact (glob_ext _ _ _ E G).
Qed.

(* ====================================================================================== *)
(* The transport side under the calls of the manager                                       *)
(* ====================================================================================== *)
(* the head of the undelivered events is handed to the manager *)
Lemma tin_head x vg te rest :
  TIn x vg (te :: rest) -> TM.tfeas vg te = true /\ TIn x (TM.gev te vg) rest.
Proof.
  intros (R & E & A & PO & LO). cbn [map TM.audit TM.audit_by] in A. apply andb_prop in A.
  destruct A as [A1 A2]. split; [exact A1|].
  split; [exact R|]. split; [exact E|]. split; [exact A2|].
  split; [intros c q l H; apply (PO c q l); now right | exact (TS.last_only_tail _ _ LO)].
Qed.

Lemma tin_att x vg rest : TIn x vg rest -> TM.g_att (t_g x) = TM.g_att vg.
Proof. intros (_ & E & _). rewrite E. apply TT.g_att_gout. Qed.

(* calls that add nothing to what the transport owes: cancel, accept, reject, reject_pending *)
Lemma tin_passive x vg rest cs :
  TIn x vg rest -> forallb TS.passive cs = true ->
  ((forall y, In (TM.ECancel y) cs -> ~ In y (TM.g_open vg)) \/ rest = []) ->
  (forall y, In (TM.EAccept y) cs \/ In (TM.EReject y) cs -> forall q l, ~ In (TM.TEstablished y q l) rest) ->
  TIn (exec x cs) (fold_left TS.pghost cs vg) rest /\ TM.opened (t_s (exec x cs)) = TM.opened (t_s x).
Proof.
  intros (R & E & A & PO & LO) Hp Hcan Hacc. unfold exec. cbn [t_s t_g].
  destruct (TS.trun_passive cs (t_s x) (t_g x) Hp) as (E1 & E2 & E3).
  destruct (TS.pfold_same cs vg) as (P1 & P2 & P3 & P4 & P5 & P6 & P7 & P8).
  split; [|exact E2].
  split; [apply TS.trun_reach; [exact R | apply TS.noid_callers, TS.passive_noid; exact Hp]|].
  split; [rewrite E1, E; apply TS.pfold_fold|].
  split.
  { destruct Hcan as [Hcan | ->]; [|reflexivity].
    apply (TS.audit_gle _ vg); [|exact A].
    repeat split; try (symmetry; assumption).
    - intros c Hc. apply TS.pfold_open. split; [exact Hc|]. intros K. exact (Hcan c K Hc).
    - intros c Hc. now rewrite P1.
    - intros c Hc. now rewrite P2. }
  split; [|exact LO].
  intros c q l Hin. apply E3. split; [exact (PO c q l Hin)|].
  split; intros K; [exact (Hacc c (or_introl K) q l Hin) | exact (Hacc c (or_intror K) q l Hin)].
Qed.

(* negotiate on a connection the transport reported as opened *)
Lemma tin_negotiate x vg rest c :
  TIn x vg rest -> In c (TM.opened (t_s x)) -> ~ In c (TM.g_open vg) -> ~ In c (TM.g_neg vg) ->
  TIn (exec x [TM.ENegotiate c]) (TS.gneg c vg) rest.
Proof.
  intros (R & E & A & PO & LO) Hop Ho Hn. unfold exec. cbn [TS.trun t_s t_g fst snd].
  destruct (TS.neg_step (t_s x) (t_g x) c Hop) as [N1 N2].
  split.
  { pose proof (TS.trun_reach [TM.ENegotiate c] (t_s x) (t_g x) R eq_refl) as R'.
    cbn [TS.trun fst snd] in R'. exact R'. }
  split; [rewrite N2, E; apply TS.gneg_fold; exact (TS.audit_noneg c _ _ A Ho Hn)|].
  split.
  { apply (TS.audit_gle _ vg); [|exact A].
    repeat split; cbn [TS.gneg TM.g_open TM.g_neg TM.g_inb TM.g_att TM.g_ctr TM.g_drawn TM.g_used TM.g_inbids]; auto.
    intros c0 Hc. now right. }
  split; [|exact LO].
  intros c0 q l Hin. apply TS.neg_state; [exact Hop|]. exact (PO c0 q l Hin).
Qed.

(* the answer of the manager to PendingInboundConnection *)
Lemma tin_pinb x c e :
  e = TM.ERejectPending c \/ e = TM.EAcceptPending c -> TT.reach (t_s x) (t_g x) ->
  let x' := exec x [e] in
  TT.reach (t_s x') (t_g x') /\ TM.g_open (t_g x') = TM.g_open (t_g x) /\ TM.g_neg (t_g x') = TM.g_neg (t_g x) /\
  (forall y, In y (TM.g_inb (t_g x')) -> y = c \/ In y (TM.g_inb (t_g x))) /\
  TM.g_att (t_g x') = TM.g_att (t_g x) /\ TM.g_ctr (t_g x') = TM.g_ctr (t_g x).
Proof. intros He R. exact (TS.pinb_call (t_s x) (t_g x) c e He R). Qed.

(* ids drawn from the shared counter *)
Lemma tin_draws x d :
  TT.reach (t_s x) (t_g x) ->
  let x' := exec x (repeat TM.EDraw d) in
  TT.reach (t_s x') (t_g x') /\ TM.g_open (t_g x') = TM.g_open (t_g x) /\ TM.g_neg (t_g x') = TM.g_neg (t_g x) /\
  TM.g_inb (t_g x') = TM.g_inb (t_g x) /\ TM.g_att (t_g x') = TM.g_att (t_g x) /\
  TM.g_ctr (t_g x') = TM.g_ctr (t_g x) + N.of_nat d.
Proof. intros R. exact (TS.draws_only d (t_s x) (t_g x) R). Qed.

End Compose.
