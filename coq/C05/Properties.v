(* C05 — pinned property theorems about the dial bookkeeping of the manager model (coq/Mgr).
   Statements, `exact`, Print Assumptions only.

   Two groups: history-level theorems (the dial ledger as an inductive invariant over every
   feasible event history: at most one outcome per attempt, no silence and no wedged peer at
   quiescence) and per-handler theorems (hold for every manager state and configuration). *)
From Coq Require Import List NArith Bool.
From V.C10 Require Import Model.
From V.Mgr Require Import DialShape DialShapeProofs Model Caps Ledger LedgerInv.
Import ListNotations.
Open Scope N_scope.


(* ---- the dial ledger over histories (coq/Mgr/LedgerInv.v) ---- *)

(* the ledger invariant is preserved by every event the transport contract allows, for every
   limit configuration *)
Theorem C05_ledger_invariant_step :
  forall L m g e, LInv m g -> feas m g e -> LInv (fst (step L m e)) (gstep e (snd (step L m e)) g).
Proof. exact linv_step. Qed.
Print Assumptions C05_ledger_invariant_step.

(* never both, never a duplicate: on any feasible history no connection id is named by two
   terminal outputs (ConnectionEstablished / DialFailure / OpenFailure) *)
Theorem C05_at_most_one_outcome :
  forall L es, feasible L init g0 es -> NoDup (terminals L init es).
Proof. exact at_most_one_outcome. Qed.
Print Assumptions C05_at_most_one_outcome.

(* never silence: at quiescence every accepted attempt was named by a terminal output, or was
   superseded by a reported connection with the same peer, or is the recorded finding
   (outbound connection rejected by the connection limit at establishment) *)
Theorem C05_no_silence :
  forall L es, feasible L init g0 es ->
  let '(m, g) := lrun L init g0 es in
  quiescent m g ->
  forall c p, lookup c (g_att g) = Some p ->
    In c (g_done g) \/ (In c (g_super g) /\ In p (g_rep g)) \/ In c (g_limrej g).
Proof. exact no_silence. Qed.
Print Assumptions C05_no_silence.

(* never a stuck peer: at quiescence every peer is connected or fully disconnected *)
Theorem C05_no_wedge :
  forall L es, feasible L init g0 es ->
  let '(m, g) := lrun L init g0 es in
  quiescent m g -> forall p, settled (state_of m p).
Proof. exact no_wedge. Qed.
Print Assumptions C05_no_wedge.

(* at every point of every feasible history a peer that waits for an attempt is owed an answer *)
Theorem C05_pending_is_owed :
  forall L es, feasible L init g0 es ->
  let '(m, g) := lrun L init g0 es in
  forall p c, dial_record (state_of m p) = Some c -> owed g c.
Proof. exact pending_is_owed. Qed.
Print Assumptions C05_pending_is_owed.

(* non-vacuity: a feasible history with an outbound dial raced by an inbound connection, a
   failed dial and a re-dial; it ends quiescent with three attempts, two of them reported *)
Example C05_feasible_history :
  let L := mkLimits (Some 2) (Some 2) in
  let es := [CmdAddAddr 1; CmdDialPeer 1 false; AllocConn; TrEstablished 1 1 true false;
             AcceptDone 1 true; CmdDialAddr 2 false; TrDialFailure 2 2; CmdDialAddr 2 false;
             TrEstablished 2 3 false false; AcceptDone 3 true] in
  feasible L init g0 es /\
  (let '(m, g) := lrun L init g0 es in
   quiescent m g /\ map fst (g_att g) = [3; 2; 0] /\ g_done g = [3; 2; 1] /\ g_super g = [0]).
Proof. vm_compute. repeat split; auto. Qed.

(* ---- malformed or adversarial addresses handed to dial_address (coq/Mgr/DialShape*.v) ---- *)

(* an address is dialled through TCP for peer q only if it is exactly host/tcp/p2p(q), and then
   the TCP transport's own parser (C10 model) resolves it to the same peer q *)
Theorem C05_dial_address_tcp_sound :
  forall listen a q, dial_shape listen a = SvTcp q ->
  exists h port ho, a = [h; Tcp port; P2p q] /\ is_host h = true /\
                    parse TTcp a = Some (ho, port, Some q).
Proof. exact dial_shape_tcp_sound. Qed.
Print Assumptions C05_dial_address_tcp_sound.

Theorem C05_dial_address_ws_sound :
  forall listen a q, dial_shape listen a = SvWs q ->
  exists h port w ho, a = [h; Tcp port; w; P2p q] /\ is_host h = true /\ (w = Ws \/ w = Wss) /\
                      parse TWs a = Some (ho, port, Some q).
Proof. exact dial_shape_ws_sound. Qed.
Print Assumptions C05_dial_address_ws_sound.

(* every other address is refused with one of three error classes ... *)
Theorem C05_dial_address_refusals :
  forall listen a code, dial_shape listen a = SvRefuse code ->
  code = RET_PEER_ID_MISSING \/ code = RET_SELF' \/ code = RET_NOT_SUPPORTED.
Proof. exact dial_shape_refusals. Qed.
Print Assumptions C05_dial_address_refusals.

(* ... and a refused address changes nothing and calls nothing: no stuck peer *)
Theorem C05_refused_address_unchanged :
  forall L m a, (forall p, dial_shape LISTEN a <> SvTcp p) ->
  exists code, do_dial_shape L m a = (m, [Ret code]).
Proof.
  intros L m a H. unfold do_dial_shape. destruct (limit_reached _ _); [eexists; reflexivity|].
  destruct (dial_shape LISTEN a) as [code|p|p]; [eexists; reflexivity | exfalso; eapply H; reflexivity | eexists; reflexivity].
Qed.
Print Assumptions C05_refused_address_unchanged.

(* the check before the `fix:` commit accepted an address for one peer that the TCP transport
   dials as another peer (reproduced on the real code: debug_assert!(false), or a peer stuck in
   Dialing in release builds) *)
Theorem C05_dial_address_unfixed_refuted :
  exists a q q', dial_shape_unfixed [] a = SvTcp q /\
                 (exists ho port, parse TTcp a = Some (ho, port, Some q')) /\ q <> q'.
Proof. exact dial_shape_unfixed_refuted. Qed.
Print Assumptions C05_dial_address_unfixed_refuted.

(* ---- per-handler theorems ---- *)

(* once a peer has no open connection and no owed attempt, a dial is actually attempted *)
Theorem C05_redial_attempted :
  forall L m p,
  state_of m p = Disconnected None -> mem p (known m) = true -> p <> LOCAL ->
  limit_reached (max_out L) (outs m) = false ->
  let '(m', os) := do_dial_peer L m p false in
  os = [CallOpen (next_conn m); Ret RET_OK] /\
  state_of m' p = Opening (next_conn m) /\
  lookup (next_conn m) (pending m') = Some p /\
  next_conn m' = next_conn m + 1.
Proof. exact redial_attempted. Qed.
Print Assumptions C05_redial_attempted.

Theorem C05_redial_addr_attempted :
  forall L m p,
  state_of m p = Disconnected None ->
  limit_reached (max_out L) (outs m) = false ->
  let '(m', os) := do_dial_addr L m p false in
  os = [CallDial (next_conn m); Ret RET_OK] /\
  state_of m' p = Dialing (next_conn m) /\
  lookup (next_conn m) (pending m') = Some p.
Proof. exact redial_addr_attempted. Qed.
Print Assumptions C05_redial_addr_attempted.

(* a refused dial request (already connected / in progress / limit / self) changes nothing *)
Theorem C05_refused_unchanged :
  forall L m p f, can_dial (state_of m p) <> GateOk -> fst (do_dial_peer L m p f) = m.
Proof. exact dial_peer_refused_unchanged. Qed.
Print Assumptions C05_refused_unchanged.

(* never a duplicate failure: a failure report consumes the pending attempt it names *)
Theorem C05_dial_failure_consumes :
  forall m c pa,
  In (EvDialFailure c pa) (snd (do_dial_failure m c pa)) ->
  lookup c (pending (fst (do_dial_failure m c pa))) = None /\ lookup c (pending m) <> None.
Proof. exact dial_failure_consumes. Qed.
Print Assumptions C05_dial_failure_consumes.

Theorem C05_open_failure_consumes :
  forall m c pa,
  In (EvOpenFailure c) (snd (do_open_failure m c pa)) ->
  lookup c (pending (fst (do_open_failure m c pa))) = None /\ lookup c (pending m) <> None.
Proof. exact open_failure_consumes. Qed.
Print Assumptions C05_open_failure_consumes.

(* a failed dial produces exactly one report to the protocols and one to the application, and
   leaves the peer without dial record (it can be dialled again) *)
Theorem C05_dial_failure_clears :
  forall m c p,
  lookup c (pending m) = Some p -> dial_record (state_of m p) = Some c ->
  state_of m p <> Opening c ->
  let '(m', os) := do_dial_failure m c p in
  os = [ProtoDialFailure p; EvDialFailure c p] /\ settled (state_of m' p).
Proof. exact dial_failure_clears. Qed.
Print Assumptions C05_dial_failure_clears.

(* F-C05a repaired: an outbound connection rejected by the connection limit no longer wedges
   the peer in a dialing state *)
Theorem C05_limit_reject_settles :
  forall L m1 p c f,
  limit_reached (max_out L) (outs m1) = true ->
  dial_record (state_of m1 p) = Some c -> state_of m1 p <> Opening c ->
  existsb (fun kp : N * pstate => fst kp =? p) (peers m1) = true ->
  settled (state_of (fst (do_established_checked L m1 p c false f)) p) /\
  snd (do_established_checked L m1 p c false f) = [CallReject c].
Proof. exact limit_reject_settles. Qed.
Print Assumptions C05_limit_reject_settles.

(* a settled peer is either connected or can be dialled *)
Theorem C05_settled_can_dial :
  forall s, settled s -> can_dial s = GateOk \/ can_dial s = GateConnected.
Proof. exact settled_can_dial. Qed.
Print Assumptions C05_settled_can_dial.

(* no panic: the only events that reach a debug assertion carry connection ids that contradict
   the manager's own records (which a transport never produces) *)
Theorem C05_stuck_only_on_inconsistent_ids :
  forall L m e s,
  In (Stuck s) (snd (step L m e)) ->
  (exists c f, e = TrOpened c f /\ lookup c (pending m) = None) \/
  (exists p c l f q, e = TrEstablished p c l f /\ lookup c (pending m) = Some q /\ q <> p).
Proof. exact stuck_only_on_inconsistent_ids. Qed.
Print Assumptions C05_stuck_only_on_inconsistent_ids.

(* non-vacuity and the known finding: limits (none, 1): the second outbound connection is
   rejected by the limit at establishment; the peer is settled (repaired) but no report names the
   attempt (recorded as a known finding) *)
Example C05_limit_rejection_is_silent :
  let L := mkLimits None (Some 1) in
  let es := [CmdDialAddr 1 false; CmdDialAddr 2 false; TrEstablished 1 0 false false;
             TrEstablished 2 1 false false] in
  let '(m, os) := run L init es in
  last os [] = [CallReject 1] /\ state_of m 2 = Disconnected None /\ pending m = [].
Proof. vm_compute. repeat split. Qed.
