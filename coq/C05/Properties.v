(* C05 — pinned property theorems about the dial bookkeeping of the manager model (coq/Mgr).
   Statements, `exact`, Print Assumptions only.

   Status: these are per-handler theorems (each holds for every manager state and every
   configuration). The history-level ledger ("every accepted attempt has exactly one outcome on
   every feasible event sequence, and no peer is wedged at quiescence") is decided on the
   implementation's traces by the oracle prop_ok_C05 (coq/Mgr/Glue.v) over generated and settled
   histories; its inductive proof over all histories is not finished — see DESIGN.md, C05. *)
From Coq Require Import List NArith Bool.
From V.Mgr Require Import Model Caps Ledger.
Import ListNotations.
Open Scope N_scope.

(* once a peer has no open connection and no owed attempt, a dial is actually attempted *)
Theorem C05_redial_attempted :
  forall L m p,
  state_of m p = Disconnected None -> mem p (known m) = true -> p <> LOCAL ->
  limit_reached (max_out L) (outs m) = false ->
  let '(m', os) := do_dial_peer L m p false in
  os = [CallOpen (next_conn m); Ret RET_OK] /\
  state_of m' p = Opening (next_conn m) /\
  lookup (next_conn m) (pending m') = Some p /\
  next_conn m' = next_conn m + 1.
Proof. exact redial_attempted. Qed.
Print Assumptions C05_redial_attempted.

Theorem C05_redial_addr_attempted :
  forall L m p,
  state_of m p = Disconnected None ->
  limit_reached (max_out L) (outs m) = false ->
  let '(m', os) := do_dial_addr L m p false in
  os = [CallDial (next_conn m); Ret RET_OK] /\
  state_of m' p = Dialing (next_conn m) /\
  lookup (next_conn m) (pending m') = Some p.
Proof. exact redial_addr_attempted. Qed.
Print Assumptions C05_redial_addr_attempted.

(* a refused dial request (already connected / in progress / limit / self) changes nothing *)
Theorem C05_refused_unchanged :
  forall L m p f, can_dial (state_of m p) <> GateOk -> fst (do_dial_peer L m p f) = m.
Proof. exact dial_peer_refused_unchanged. Qed.
Print Assumptions C05_refused_unchanged.

(* never a duplicate failure: a failure report consumes the pending attempt it names *)
Theorem C05_dial_failure_consumes :
  forall m c pa,
  In (EvDialFailure c pa) (snd (do_dial_failure m c pa)) ->
  lookup c (pending (fst (do_dial_failure m c pa))) = None /\ lookup c (pending m) <> None.
Proof. exact dial_failure_consumes. Qed.
Print Assumptions C05_dial_failure_consumes.

Theorem C05_open_failure_consumes :
  forall m c pa,
  In (EvOpenFailure c) (snd (do_open_failure m c pa)) ->
  lookup c (pending (fst (do_open_failure m c pa))) = None /\ lookup c (pending m) <> None.
Proof. exact open_failure_consumes. Qed.
Print Assumptions C05_open_failure_consumes.

(* a failed dial produces exactly one report to the protocols and one to the application, and
   leaves the peer without dial record (it can be dialled again) *)
Theorem C05_dial_failure_clears :
  forall m c p,
  lookup c (pending m) = Some p -> dial_record (state_of m p) = Some c ->
  state_of m p <> Opening c ->
  let '(m', os) := do_dial_failure m c p in
  os = [ProtoDialFailure p; EvDialFailure c p] /\ settled (state_of m' p).
Proof. exact dial_failure_clears. Qed.
Print Assumptions C05_dial_failure_clears.

(* F-C05a repaired: an outbound connection rejected by the connection limit no longer wedges
   the peer in a dialing state *)
Theorem C05_limit_reject_settles :
  forall L m1 p c f,
  limit_reached (max_out L) (outs m1) = true ->
  dial_record (state_of m1 p) = Some c -> state_of m1 p <> Opening c ->
  existsb (fun kp : N * pstate => fst kp =? p) (peers m1) = true ->
  settled (state_of (fst (do_established_checked L m1 p c false f)) p) /\
  snd (do_established_checked L m1 p c false f) = [CallReject c].
Proof. exact limit_reject_settles. Qed.
Print Assumptions C05_limit_reject_settles.

(* a settled peer is either connected or can be dialled *)
Theorem C05_settled_can_dial :
  forall s, settled s -> can_dial s = GateOk \/ can_dial s = GateConnected.
Proof. exact settled_can_dial. Qed.
Print Assumptions C05_settled_can_dial.

(* no panic: the only events that reach a debug assertion carry connection ids that contradict
   the manager's own records (which a transport never produces) *)
Theorem C05_stuck_only_on_inconsistent_ids :
  forall L m e s,
  In (Stuck s) (snd (step L m e)) ->
  (exists c f, e = TrOpened c f /\ lookup c (pending m) = None) \/
  (exists p c l f q, e = TrEstablished p c l f /\ lookup c (pending m) = Some q /\ q <> p).
Proof. exact stuck_only_on_inconsistent_ids. Qed.
Print Assumptions C05_stuck_only_on_inconsistent_ids.

(* non-vacuity and the known finding: limits (none, 1): the second outbound connection is
   rejected by the limit at establishment; the peer is settled (repaired) but no report names the
   attempt (recorded as a known finding) *)
Example C05_limit_rejection_is_silent :
  let L := mkLimits None (Some 1) in
  let es := [CmdDialAddr 1 false; CmdDialAddr 2 false; TrEstablished 1 0 false false;
             TrEstablished 2 1 false false] in
  let '(m, os) := run L init es in
  last os [] = [CallReject 1] /\ state_of m 2 = Disconnected None /\ pending m = [].
Proof. vm_compute. repeat split. Qed.
