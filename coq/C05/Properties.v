(* C05 — pinned property theorems about the dial bookkeeping of the manager model (coq/Mgr).
   Statements, `exact`, Print Assumptions only.

   Two groups: history-level theorems (the dial ledger as an inductive invariant over every
   feasible event history: at most one outcome per attempt, no silence and no wedged peer at
   quiescence) and per-handler theorems (hold for every manager state and configuration). *)
From Coq Require Import List NArith Bool.
From V.C10 Require Import Model.
From V.Mgr Require Import DialShape DialShapeProofs Model Caps Ledger LedgerInv.
From V.Tcp Require Model Proofs Theorems.
Import ListNotations.
Open Scope N_scope.


(* ---- the dial ledger over histories (coq/Mgr/LedgerInv.v) ---- *)

(* the ledger invariant is preserved by every event the transport contract allows, for every
   limit configuration *)
Theorem C05_ledger_invariant_step :
  forall L m g e, LInv m g -> feas m g e -> LInv (fst (step L m e)) (gstep e (snd (step L m e)) g).
Proof. exact linv_step. Qed.
Print Assumptions C05_ledger_invariant_step.

(* never both, never a duplicate: on any feasible history no connection id is named by two
   terminal outputs (ConnectionEstablished / DialFailure / OpenFailure) *)
Theorem C05_at_most_one_outcome :
  forall L es, feasible L init g0 es -> NoDup (terminals L init es).
Proof. exact at_most_one_outcome. Qed.
Print Assumptions C05_at_most_one_outcome.

(* never silence: at quiescence every accepted attempt was named by a terminal output, or was
   superseded by a reported connection with the same peer, or is the recorded finding
   (outbound connection rejected by the connection limit at establishment) *)
Theorem C05_no_silence :
  forall L es, feasible L init g0 es ->
  let '(m, g) := lrun L init g0 es in
  quiescent m g ->
  forall c p, lookup c (g_att g) = Some p ->
    In c (g_done g) \/ (In c (g_super g) /\ In p (g_rep g)) \/ In c (g_limrej g).
Proof. exact no_silence. Qed.
Print Assumptions C05_no_silence.

(* never a stuck peer: at quiescence every peer is connected or fully disconnected *)
Theorem C05_no_wedge :
  forall L es, feasible L init g0 es ->
  let '(m, g) := lrun L init g0 es in
  quiescent m g -> forall p, settled (state_of m p).
Proof. exact no_wedge. Qed.
Print Assumptions C05_no_wedge.

(* at every point of every feasible history a peer that waits for an attempt is owed an answer *)
Theorem C05_pending_is_owed :
  forall L es, feasible L init g0 es ->
  let '(m, g) := lrun L init g0 es in
  forall p c, dial_record (state_of m p) = Some c -> owed g c.
Proof. exact pending_is_owed. Qed.
Print Assumptions C05_pending_is_owed.

(* non-vacuity: a feasible history with an outbound dial raced by an inbound connection, a
   failed dial and a re-dial; it ends quiescent with three attempts, two of them reported *)
Example C05_feasible_history :
  let L := mkLimits (Some 2) (Some 2) in
  let es := [CmdAddAddr 1; CmdDialPeer 1 false; AllocConn; TrEstablished 1 1 true false;
             AcceptDone 1 true; CmdDialAddr 2 false; TrDialFailure 2 2; CmdDialAddr 2 false;
             TrEstablished 2 3 false false; AcceptDone 3 true] in
  feasible L init g0 es /\
  (let '(m, g) := lrun L init g0 es in
   quiescent m g /\ map fst (g_att g) = [3; 2; 0] /\ g_done g = [3; 2; 1] /\ g_super g = [0]).
Proof. vm_compute. repeat split; auto. Qed.

(* ---- malformed or adversarial addresses handed to dial_address (coq/Mgr/DialShape*.v) ---- *)

(* an address is dialled through TCP for peer q only if it is exactly host/tcp/p2p(q), and then
   the TCP transport's own parser (C10 model) resolves it to the same peer q *)
Theorem C05_dial_address_tcp_sound :
  forall listen a q, dial_shape listen a = SvTcp q ->
  exists h port ho, a = [h; Tcp port; P2p q] /\ is_host h = true /\
                    parse TTcp a = Some (ho, port, Some q).
Proof. exact dial_shape_tcp_sound. Qed.
Print Assumptions C05_dial_address_tcp_sound.

Theorem C05_dial_address_ws_sound :
  forall listen a q, dial_shape listen a = SvWs q ->
  exists h port w ho, a = [h; Tcp port; w; P2p q] /\ is_host h = true /\ (w = Ws \/ w = Wss) /\
                      parse TWs a = Some (ho, port, Some q).
Proof. exact dial_shape_ws_sound. Qed.
Print Assumptions C05_dial_address_ws_sound.

(* every other address is refused with one of three error classes ... *)
Theorem C05_dial_address_refusals :
  forall listen a code, dial_shape listen a = SvRefuse code ->
  code = RET_PEER_ID_MISSING \/ code = RET_SELF' \/ code = RET_NOT_SUPPORTED.
Proof. exact dial_shape_refusals. Qed.
Print Assumptions C05_dial_address_refusals.

(* ... and a refused address changes nothing and calls nothing: no stuck peer *)
Theorem C05_refused_address_unchanged :
  forall L m a, (forall p, dial_shape LISTEN a <> SvTcp p) ->
  exists code, do_dial_shape L m a = (m, [Ret code]).
Proof.
  intros L m a H. unfold do_dial_shape. destruct (limit_reached _ _); [eexists; reflexivity|].
  destruct (dial_shape LISTEN a) as [code|p|p]; [eexists; reflexivity | exfalso; eapply H; reflexivity | eexists; reflexivity].
Qed.
Print Assumptions C05_refused_address_unchanged.

(* the check before the `fix:` commit accepted an address for one peer that the TCP transport
   dials as another peer (reproduced on the real code: debug_assert!(false), or a peer stuck in
   Dialing in release builds) *)
Theorem C05_dial_address_unfixed_refuted :
  exists a q q', dial_shape_unfixed [] a = SvTcp q /\
                 (exists ho port, parse TTcp a = Some (ho, port, Some q')) /\ q <> q'.
Proof. exact dial_shape_unfixed_refuted. Qed.
Print Assumptions C05_dial_address_unfixed_refuted.

(* ---- per-handler theorems ---- *)

(* once a peer has no open connection and no owed attempt, a dial is actually attempted *)
Theorem C05_redial_attempted :
  forall L m p,
  state_of m p = Disconnected None -> mem p (known m) = true -> p <> LOCAL ->
  limit_reached (max_out L) (outs m) = false ->
  let '(m', os) := do_dial_peer L m p false in
  os = [CallOpen (next_conn m); Ret RET_OK] /\
  state_of m' p = Opening (next_conn m) /\
  lookup (next_conn m) (pending m') = Some p /\
  next_conn m' = next_conn m + 1.
Proof. exact redial_attempted. Qed.
Print Assumptions C05_redial_attempted.

Theorem C05_redial_addr_attempted :
  forall L m p,
  state_of m p = Disconnected None ->
  limit_reached (max_out L) (outs m) = false ->
  let '(m', os) := do_dial_addr L m p false in
  os = [CallDial (next_conn m); Ret RET_OK] /\
  state_of m' p = Dialing (next_conn m) /\
  lookup (next_conn m) (pending m') = Some p.
Proof. exact redial_addr_attempted. Qed.
Print Assumptions C05_redial_addr_attempted.

(* a refused dial request (already connected / in progress / limit / self) changes nothing *)
Theorem C05_refused_unchanged :
  forall L m p f, can_dial (state_of m p) <> GateOk -> fst (do_dial_peer L m p f) = m.
Proof. exact dial_peer_refused_unchanged. Qed.
Print Assumptions C05_refused_unchanged.

(* never a duplicate failure: a failure report consumes the pending attempt it names *)
Theorem C05_dial_failure_consumes :
  forall m c pa,
  In (EvDialFailure c pa) (snd (do_dial_failure m c pa)) ->
  lookup c (pending (fst (do_dial_failure m c pa))) = None /\ lookup c (pending m) <> None.
Proof. exact dial_failure_consumes. Qed.
Print Assumptions C05_dial_failure_consumes.

Theorem C05_open_failure_consumes :
  forall m c pa,
  In (EvOpenFailure c) (snd (do_open_failure m c pa)) ->
  lookup c (pending (fst (do_open_failure m c pa))) = None /\ lookup c (pending m) <> None.
Proof. exact open_failure_consumes. Qed.
Print Assumptions C05_open_failure_consumes.

(* a failed dial produces exactly one report to the protocols and one to the application, and
   leaves the peer without dial record (it can be dialled again) *)
Theorem C05_dial_failure_clears :
  forall m c p,
  lookup c (pending m) = Some p -> dial_record (state_of m p) = Some c ->
  state_of m p <> Opening c ->
  let '(m', os) := do_dial_failure m c p in
  os = [ProtoDialFailure p; EvDialFailure c p] /\ settled (state_of m' p).
Proof. exact dial_failure_clears. Qed.
Print Assumptions C05_dial_failure_clears.

(* F-C05a repaired: an outbound connection rejected by the connection limit no longer wedges
   the peer in a dialing state *)
Theorem C05_limit_reject_settles :
  forall L m1 p c f,
  limit_reached (max_out L) (outs m1) = true ->
  dial_record (state_of m1 p) = Some c -> state_of m1 p <> Opening c ->
  existsb (fun kp : N * pstate => fst kp =? p) (peers m1) = true ->
  settled (state_of (fst (do_established_checked L m1 p c false f)) p) /\
  snd (do_established_checked L m1 p c false f) = [CallReject c].
Proof. exact limit_reject_settles. Qed.
Print Assumptions C05_limit_reject_settles.

(* a settled peer is either connected or can be dialled *)
Theorem C05_settled_can_dial :
  forall s, settled s -> can_dial s = GateOk \/ can_dial s = GateConnected.
Proof. exact settled_can_dial. Qed.
Print Assumptions C05_settled_can_dial.

(* no panic: the only events that reach a debug assertion carry connection ids that contradict
   the manager's own records (which a transport never produces) *)
Theorem C05_stuck_only_on_inconsistent_ids :
  forall L m e s,
  In (Stuck s) (snd (step L m e)) ->
  (exists c f, e = TrOpened c f /\ lookup c (pending m) = None) \/
  (exists p c l f q, e = TrEstablished p c l f /\ lookup c (pending m) = Some q /\ q <> p).
Proof. exact stuck_only_on_inconsistent_ids. Qed.
Print Assumptions C05_stuck_only_on_inconsistent_ids.

(* non-vacuity and the known finding: limits (none, 1): the second outbound connection is
   rejected by the limit at establishment; the peer is settled (repaired) but no report names the
   attempt (recorded as a known finding) *)
Example C05_limit_rejection_is_silent :
  let L := mkLimits None (Some 1) in
  let es := [CmdDialAddr 1 false; CmdDialAddr 2 false; TrEstablished 1 0 false false;
             TrEstablished 2 1 false false] in
  let '(m, os) := run L init es in
  last os [] = [CallReject 1] /\ state_of m 2 = Disconnected None /\ pending m = [].
Proof. vm_compute. repeat split. Qed.


(* ================================================================================================
   The transport contract for the TCP transport (coq/Tcp): what `feas` above assumes about a
   transport is proved for the model of TcpTransport (src/transport/tcp/mod.rs), for every history
   of trait calls and future completions. Vocabulary as in LedgerInv.v: g_open = owed open,
   g_neg = owed negotiate; names are qualified because coq/Mgr/Model.v is imported above.
   ================================================================================================ *)

(* (a) open phase, for EVERY history of calls and completions (whatever ids the owner uses): a
   ConnectionOpened / OpenFailure for c is emitted only when c is an owed open at that moment —
   `In c (g_open g)`, the clause of `feas` for TrOpened / TrOpenFailure *)
Theorem C05_tcp_open_phase_owed :
  forall s g e o1 t o2,
  Tcp.Theorems.reachU s g -> snd (Tcp.Model.step s e) = o1 ++ Tcp.Model.OEv t :: o2 ->
  match t with
  | Tcp.Model.TOpened c | Tcp.Model.TOpenFailure c => In c (Tcp.Model.g_open (fold_left Tcp.Model.gout o1 (Tcp.Model.gcall e (snd (Tcp.Model.step s e)) g)))
  | _ => True
  end.
Proof. exact Tcp.Theorems.tcp_open_phase_owed. Qed.
Print Assumptions C05_tcp_open_phase_owed.

(* ... where an id is an owed open only by open(c), until cancel(c) or its answer: so the event
   needs an earlier open(c), comes at most once per open(c), and never after cancel(c) *)
Theorem C05_tcp_owed_open_ledger :
  (forall e os g c, In c (Tcp.Model.g_open (Tcp.Model.gstep e os g)) -> In c (Tcp.Model.g_open g) \/ exists es, e = Tcp.Model.EOpen c es) /\
  (forall os g c, ~ In c (Tcp.Model.g_open (Tcp.Model.gstep (Tcp.Model.ECancel c) os g))) /\
  (forall c g, ~ In c (Tcp.Model.g_open (Tcp.Model.gev (Tcp.Model.TOpened c) g)) /\ ~ In c (Tcp.Model.g_open (Tcp.Model.gev (Tcp.Model.TOpenFailure c) g))).
Proof. exact Tcp.Theorems.tcp_owed_open_ledger. Qed.
Print Assumptions C05_tcp_owed_open_ledger.

(* (c) results of the calls, for every history: open succeeds, dial succeeds on a well-formed TCP
   address, negotiate(c) succeeds exactly when ConnectionOpened c was emitted and c was not
   negotiated since, a drawn id is the next value of the shared counter *)
Theorem C05_tcp_call_results :
  forall s g e, Tcp.Theorems.reachU s g -> Tcp.Model.call_ok e g (snd (Tcp.Model.step s e)) = true.
Proof. exact Tcp.Theorems.tcp_call_results. Qed.
Print Assumptions C05_tcp_call_results.

(* ... in particular negotiate(c) succeeds when the manager calls it after ConnectionOpened c,
   with or without cancel(c) in between *)
Theorem C05_tcp_negotiate_after_opened :
  forall s g e c,
  Tcp.Theorems.reachU s g -> In (Tcp.Model.OEv (Tcp.Model.TOpened c)) (snd (Tcp.Model.step s e)) ->
  let s1 := fst (Tcp.Model.step s e) in
  snd (Tcp.Model.step s1 (Tcp.Model.ENegotiate c)) = [Tcp.Model.ORet true] /\
  snd (Tcp.Model.step (fst (Tcp.Model.step s1 (Tcp.Model.ECancel c))) (Tcp.Model.ENegotiate c)) = [Tcp.Model.ORet true].
Proof. exact Tcp.Theorems.tcp_negotiate_after_opened. Qed.
Print Assumptions C05_tcp_negotiate_after_opened.

(* (b) (e) and the identity clause — the whole transport contract, for every history in which the
   owner passes ids it drew from the counter (`caller_ok`): every emitted event is feasible in the
   ghost state reached just before it: open-phase events for an owed open, outbound
   ConnectionEstablished / DialFailure for an owed negotiate (dial(c) or a successful negotiate(c),
   not answered yet), ConnectionEstablished naming a peer the owner named for that id, inbound
   ConnectionEstablished for an accepted inbound socket, PendingInboundConnection with the next
   value of the shared counter (never an id handed out before) *)
Theorem C05_tcp_contract :
  forall s g e o1 t o2,
  Tcp.Theorems.reach s g -> Tcp.Model.caller_ok g e = true -> snd (Tcp.Model.step s e) = o1 ++ Tcp.Model.OEv t :: o2 ->
  Tcp.Model.tfeas (fold_left Tcp.Model.gout o1 (Tcp.Model.gcall e (snd (Tcp.Model.step s e)) g)) t = true.
Proof. exact Tcp.Theorems.tcp_contract. Qed.
Print Assumptions C05_tcp_contract.

(* identity: an outbound ConnectionEstablished for c reports a peer q that an address of the
   dial / open call of c names; when every address names p (the manager dials one peer), q = p.
   A handshake answered by another identity ends in a failure, never in ConnectionEstablished *)
Theorem C05_tcp_established_names_dialled_peer :
  forall s g e o1 c q o2,
  Tcp.Theorems.reach s g -> Tcp.Model.caller_ok g e = true -> snd (Tcp.Model.step s e) = o1 ++ Tcp.Model.OEv (Tcp.Model.TEstablished c q false) :: o2 ->
  let g' := fold_left Tcp.Model.gout o1 (Tcp.Model.gcall e (snd (Tcp.Model.step s e)) g) in
  In c (Tcp.Model.g_neg g') /\
  exists es, Tcp.Model.lookup c (Tcp.Model.g_att g') = Some es /\ (exists x, In x es /\ Tcp.Model.matches x q = true) /\
             forall p, (forall x, In x es -> x = Some p) -> q = p.
Proof. exact Tcp.Theorems.tcp_established_names_dialled_peer. Qed.
Print Assumptions C05_tcp_established_names_dialled_peer.

(* ... and what an id names is fixed by the dial / open call that introduced it *)
Theorem C05_tcp_named_by_call :
  forall e os g c,
  Tcp.Model.lookup c (Tcp.Model.g_att (Tcp.Model.gstep e os g)) =
  match e with
  | Tcp.Model.EDial c' _ ex => if (c' =? c) && Tcp.Model.ret_ok os then Some [ex] else Tcp.Model.lookup c (Tcp.Model.g_att g)
  | Tcp.Model.EOpen c' es => if c' =? c then Some es else Tcp.Model.lookup c (Tcp.Model.g_att g)
  | _ => Tcp.Model.lookup c (Tcp.Model.g_att g)
  end.
Proof. exact Tcp.Theorems.tcp_named_by_call. Qed.
Print Assumptions C05_tcp_named_by_call.

(* (d) no dropped answer: under caller_ok the branches of poll_next that consume a completed
   future without an event — "raw connection without a cancel handle" (Connected and Failed),
   "raw cancelled connection without a cancel handle", the is_aborted() test answering for a
   foreign handle, the silent failure of a dial — are unreachable; the only silent branch taken is
   the failed negotiation of an inbound socket, which is owed to nobody *)
Theorem C05_tcp_no_dropped_answer :
  forall s g e m,
  Tcp.Theorems.reach s g -> Tcp.Model.caller_ok g e = true -> In (Tcp.Model.OMark m) (snd (Tcp.Model.step s e)) ->
  exists c, m = Tcp.Model.MSilentFailure c Tcp.Model.KInb.
Proof. exact Tcp.Theorems.tcp_no_dropped_answer. Qed.
Print Assumptions C05_tcp_no_dropped_answer.

(* what is owed is backed by a pending, un-cancelled future of the transport: the environment
   always has something to complete *)
Theorem C05_tcp_owed_is_pending :
  forall s g c,
  Tcp.Theorems.reach s g ->
  (In c (Tcp.Model.g_open g) -> exists f rem, Tcp.Model.lookup f (Tcp.Model.praw s) = Some c /\ Tcp.Model.lookup f (Tcp.Model.attempts s) = Some rem /\
                                    ~ In f (Tcp.Model.aborted s)) /\
  (In c (Tcp.Model.g_neg g) -> exists f k, Tcp.Model.lookup f (Tcp.Model.pconn s) = Some (c, k) /\ Tcp.Model.is_inb k = false).
Proof. exact Tcp.Theorems.tcp_owed_is_pending. Qed.
Print Assumptions C05_tcp_owed_is_pending.

(* progress, open: an address of an owed open answers with the identity it names: the poll that
   observes it emits ConnectionOpened *)
Theorem C05_tcp_progress_open_answer :
  forall s g f c rem i e q,
  Tcp.Theorems.reach s g -> Tcp.Model.lookup f (Tcp.Model.praw s) = Some c -> In c (Tcp.Model.g_open g) ->
  Tcp.Model.lookup f (Tcp.Model.attempts s) = Some rem -> Tcp.Model.lookup i rem = Some e -> Tcp.Model.matches e q = true ->
  In (Tcp.Model.OEv (Tcp.Model.TOpened c)) (snd (Tcp.Model.step s (Tcp.Model.EAns f i (Some q)))).
Proof. exact Tcp.Theorems.tcp_progress_open_answer. Qed.
Print Assumptions C05_tcp_progress_open_answer.

(* ... its last address fails, or is answered by another identity: OpenFailure *)
Theorem C05_tcp_progress_open_last_failure :
  forall s g f c rem i e ans,
  Tcp.Theorems.reach s g -> Tcp.Model.lookup f (Tcp.Model.praw s) = Some c -> In c (Tcp.Model.g_open g) ->
  Tcp.Model.lookup f (Tcp.Model.attempts s) = Some rem -> Tcp.Model.lookup i rem = Some e -> Tcp.Model.delk i rem = [] ->
  (forall q, ans = Some q -> Tcp.Model.matches e q = false) ->
  In (Tcp.Model.OEv (Tcp.Model.TOpenFailure c)) (snd (Tcp.Model.step s (Tcp.Model.EAns f i ans))).
Proof. exact Tcp.Theorems.tcp_progress_open_last_failure. Qed.
Print Assumptions C05_tcp_progress_open_last_failure.

(* ... the overall deadline of the open fires: OpenFailure *)
Theorem C05_tcp_progress_open_expire :
  forall s g f c rem,
  Tcp.Theorems.reach s g -> Tcp.Model.lookup f (Tcp.Model.praw s) = Some c -> In c (Tcp.Model.g_open g) ->
  Tcp.Model.lookup f (Tcp.Model.attempts s) = Some rem -> rem <> [] ->
  In (Tcp.Model.OEv (Tcp.Model.TOpenFailure c)) (snd (Tcp.Model.step s (Tcp.Model.EExpire f))).
Proof. exact Tcp.Theorems.tcp_progress_open_expire. Qed.
Print Assumptions C05_tcp_progress_open_expire.

(* ... no address is left (open called without addresses): the next poll emits OpenFailure *)
Theorem C05_tcp_progress_open_no_address :
  forall s g f c e,
  Tcp.Theorems.reach s g -> Tcp.Model.lookup f (Tcp.Model.praw s) = Some c -> In c (Tcp.Model.g_open g) -> Tcp.Model.lookup f (Tcp.Model.attempts s) = Some [] ->
  Tcp.Model.polls e = true -> In (Tcp.Model.OEv (Tcp.Model.TOpenFailure c)) (snd (Tcp.Model.step s e)).
Proof. exact Tcp.Theorems.tcp_progress_open_no_address. Qed.
Print Assumptions C05_tcp_progress_open_no_address.

(* progress, dial(c, address naming x): when the socket / handshake ends, the poll that observes
   it emits ConnectionEstablished for the named peer, DialFailure in every other case *)
Theorem C05_tcp_progress_dial :
  forall s g f c i ans,
  Tcp.Theorems.reach s g -> Tcp.Model.lookup f (Tcp.Model.pconn s) = Some (c, Tcp.Model.KDial) ->
  exists x, Tcp.Model.lookup c (Tcp.Model.g_att g) = Some [x] /\
    In (Tcp.Model.OEv (match ans with
             | Some q => if Tcp.Model.matches x q then Tcp.Model.TEstablished c q false else Tcp.Model.TDialFailure c
             | None => Tcp.Model.TDialFailure c
             end)) (snd (Tcp.Model.step s (Tcp.Model.EAns f i ans))).
Proof. exact Tcp.Theorems.tcp_progress_dial. Qed.
Print Assumptions C05_tcp_progress_dial.

(* progress, negotiate(c) succeeded: the next poll emits ConnectionEstablished for c *)
Theorem C05_tcp_progress_negotiate :
  forall s g f c e,
  Tcp.Theorems.reach s g -> Tcp.Model.lookup f (Tcp.Model.pconn s) = Some (c, Tcp.Model.KNeg) -> Tcp.Model.polls e = true ->
  exists q, In (Tcp.Model.OEv (Tcp.Model.TEstablished c q false)) (snd (Tcp.Model.step s e)).
Proof. exact Tcp.Theorems.tcp_progress_negotiate. Qed.
Print Assumptions C05_tcp_progress_negotiate.

(* progress, accepted inbound socket: its handshake completes: ConnectionEstablished (listener) *)
Theorem C05_tcp_progress_inbound :
  forall s g f c i q,
  Tcp.Theorems.reach s g -> Tcp.Model.lookup f (Tcp.Model.pconn s) = Some (c, Tcp.Model.KInb) ->
  In (Tcp.Model.OEv (Tcp.Model.TEstablished c q true)) (snd (Tcp.Model.step s (Tcp.Model.EAns f i (Some q)))).
Proof. exact Tcp.Theorems.tcp_progress_inbound. Qed.
Print Assumptions C05_tcp_progress_inbound.

(* (e) ids: everything the transport owes an answer for was passed in by the owner through
   dial / open: it never invents an outbound id *)
Theorem C05_tcp_outbound_ids_from_owner :
  forall s g c,
  Tcp.Theorems.reachU s g -> In c (Tcp.Model.g_open g) \/ In c (Tcp.Model.g_neg g) \/ In c (Tcp.Model.g_opened g) -> In c (Tcp.Model.g_used g).
Proof. exact Tcp.Theorems.tcp_outbound_ids_from_owner. Qed.
Print Assumptions C05_tcp_outbound_ids_from_owner.


(* the owner's hygiene (`caller_ok`) is needed for (b) and (d): with open(c) called twice for one
   id an answer is dropped by the "raw connection without a cancel handle" branch *)
Theorem C05_tcp_caller_ok_needed :
  exists es, Tcp.Theorems.callers_ok Tcp.Model.init Tcp.Model.g0 es = false /\
             In [Tcp.Model.OMark (Tcp.Model.MNoHandle 0)] (snd (Tcp.Theorems.run Tcp.Model.init es)).
Proof. exact Tcp.Theorems.duplicate_open_drops_an_answer. Qed.
Print Assumptions C05_tcp_caller_ok_needed.

(* non-vacuity: a dial by peer id as the manager does it (two addresses naming peer 1; the first is
   answered by identity 2 and refused, the second by peer 1: ConnectionOpened, cancel + negotiate,
   ConnectionEstablished for peer 1), an address answered only by the wrong identity (OpenFailure),
   a dial answered by the wrong identity (DialFailure), an inbound socket *)
Example C05_tcp_history :
  Tcp.Theorems.callers_ok Tcp.Model.init Tcp.Model.g0 Tcp.Theorems.history1 = true /\
  snd (Tcp.Theorems.run Tcp.Model.init Tcp.Theorems.history1) =
  [[Tcp.Model.OId 0]; [Tcp.Model.ORet true]; []; []; [Tcp.Model.OEv (Tcp.Model.TOpened 0)]; [];
   [Tcp.Model.ORet true]; [Tcp.Model.OEv (Tcp.Model.TEstablished 0 1 false)]; [Tcp.Model.ORet true];
   [Tcp.Model.OId 1]; [Tcp.Model.ORet true]; [Tcp.Model.OEv (Tcp.Model.TOpenFailure 1)];
   [Tcp.Model.OId 2]; [Tcp.Model.ORet true]; [Tcp.Model.OEv (Tcp.Model.TDialFailure 2)];
   [Tcp.Model.OEv (Tcp.Model.TPendingInbound 3)]; [Tcp.Model.ORet true];
   [Tcp.Model.OEv (Tcp.Model.TEstablished 3 7 true)]].
Proof. exact Tcp.Theorems.history1_ok. Qed.
