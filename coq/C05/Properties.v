(* C05 — pinned property theorems about the dial bookkeeping of the manager model (coq/Mgr).
   Statements, `exact`, Print Assumptions only.

   Groups: history-level theorems (the dial ledger as an inductive invariant over every feasible
   event history with several transports dialled in parallel: at most one outcome per attempt,
   no silence and no wedged peer at quiescence; what an OpenFailure / ConnectionOpened / inbound
   connection does to an attempt owed by several transports), the address-book invariant
   (only installed transports), the user-facing handle, malformed addresses, and per-handler
   theorems (hold for every manager state and configuration). *)
From Coq Require Import List NArith Bool.
From V.C10 Require Import Model.
From V.Mgr Require Import DialShape DialShapeProofs Model Caps Ledger LedgerInv.
From V.Mgr Require LiveRec.
From V.Tcp Require Model Proofs Theorems Variants VariantTheorems Once Settle.
From V.C05 Require TcpCompose TrCompose.
From V.C05 Require TwoCompose TwoEvents TwoCmd TwoTheorems.
Import ListNotations.
Open Scope N_scope.


(* ---- the dial ledger over histories (coq/Mgr/LedgerInv.v) ---- *)

(* the ledger invariant is preserved by every event the transport contract allows, for every
   configuration (limits, installed transports) *)
Theorem C05_ledger_invariant_step :
  forall L m g e, LInv L m g -> feas L m g e -> LInv L (fst (step L m e)) (gstep e (snd (step L m e)) g).
Proof. exact linv_step. Qed.
Print Assumptions C05_ledger_invariant_step.

(* never both, never a duplicate: on any feasible history no connection id is named by two
   terminal outputs (ConnectionEstablished / DialFailure / OpenFailure) *)
Theorem C05_at_most_one_outcome :
  forall L es, feasible L init g0 es -> NoDup (terminals L init es).
Proof. exact at_most_one_outcome. Qed.
Print Assumptions C05_at_most_one_outcome.

(* never silence: at quiescence every accepted attempt was named by a terminal output, or was
   superseded by a reported connection with the same peer, or is the recorded finding
   (outbound connection rejected by the connection limit at establishment) *)
Theorem C05_no_silence :
  forall L es, feasible L init g0 es ->
  let '(m, g) := lrun L init g0 es in
  quiescent m g ->
  forall c p, lookup c (g_att g) = Some p ->
    In c (g_done g) \/ (In c (g_super g) /\ In p (g_rep g)) \/ In c (g_limrej g).
Proof. exact no_silence. Qed.
Print Assumptions C05_no_silence.

(* never a stuck peer: at quiescence every peer is connected or fully disconnected *)
Theorem C05_no_wedge :
  forall L es, feasible L init g0 es ->
  let '(m, g) := lrun L init g0 es in
  quiescent m g -> forall p, settled (state_of m p).
Proof. exact no_wedge. Qed.
Print Assumptions C05_no_wedge.

(* at every point of every feasible history a peer that waits for an attempt is owed an answer
   (by at least one transport in the opening phase, by the negotiating transport afterwards) *)
Theorem C05_pending_is_owed :
  forall L es, feasible L init g0 es ->
  let '(m, g) := lrun L init g0 es in
  forall p c, dial_record (state_of m p) = Some c -> owed g c.
Proof. exact pending_is_owed. Qed.
Print Assumptions C05_pending_is_owed.

(* no panic: an event the transport contract allows never reaches a debug assertion / expect *)
Theorem C05_no_stuck :
  forall L m g e s, Reach L m g -> feas L m g e -> ~ In (Stuck s) (snd (step L m e)).
Proof. exact no_stuck. Qed.
Print Assumptions C05_no_stuck.

(* ---- one attempt owed by several transports ---- *)

(* a peer in the opening phase waits for a non-empty set of installed transports, each of which
   owes an answer: dial() skipped no transport of the set *)
Theorem C05_opening_set_owed :
  forall L m g p c ts, Reach L m g -> state_of m p = Opening c ts ->
  ts <> [] /\ forall u, In u ts -> installed L u = true /\ In (c, u) (g_open g).
Proof. exact opening_set_owed. Qed.
Print Assumptions C05_opening_set_owed.

(* OpenFailure(c) and the DialFailure fan-out to the protocols are produced exactly by the step in
   which the last transport of c's set reports failure (with the errors kept so far); the failure
   of another transport produces no output and keeps the attempt owed on the remaining ones *)
Theorem C05_open_failure_only_when_last :
  forall L m g, Reach L m g ->
  (forall c t pa, feas L m g (TrOpenFailure c t pa) ->
     exists ts, state_of m pa = Opening c ts /\ In t ts /\
       let '(m', os) := step L m (TrOpenFailure c t pa) in
       let g' := gstep (TrOpenFailure c t pa) os g in
       match remove_tr t ts with
       | [] => os = [ProtoDialFailure pa; EvOpenFailure c (errs_of m c + 1)] /\
               state_of m' pa = Disconnected None /\ ~ owed g' c /\ In c (g_done g')
       | ts' => os = [] /\ state_of m' pa = Opening c ts' /\
                (forall u, In (c, u) (g_open g') <-> In u ts') /\ errs_of m' c = errs_of m c + 1
       end) /\
  (forall e c n, In (EvOpenFailure c n) (snd (step L m e)) ->
     exists t pa p d ts, e = TrOpenFailure c t pa /\ installed L t = true /\ lookup c (pending m) = Some p /\
        state_of m p = Opening d ts /\ In t ts /\ remove_tr t ts = [] /\ n = errs_of m c + 1).
Proof. exact open_failure_only_when_last. Qed.
Print Assumptions C05_open_failure_only_when_last.

(* ConnectionOpened(c) from one transport: cancel(c) on every transport still in the set,
   negotiate on the winner only; afterwards no open obligation for c remains, so the contract
   allows no further open-phase event for c *)
Theorem C05_opened_cancels_rest :
  forall L m g c t, Reach L m g -> feas L m g (TrOpened c t false) ->
  exists p ts, lookup c (pending m) = Some p /\ state_of m p = Opening c ts /\ In t ts /\
    let '(m', os) := step L m (TrOpened c t false) in
    let g' := gstep (TrOpened c t false) os g in
    os = map (CallCancel c) ts ++ [CallNegotiate c t] /\
    state_of m' p = Dialing c /\ lookup c (pending m') = Some p /\
    (forall u, ~ In (c, u) (g_open g')) /\ In c (g_neg g') /\
    (forall u f, ~ feas L m' g' (TrOpened c u f)) /\
    (forall u pa, ~ feas L m' g' (TrOpenFailure c u pa)).
Proof. exact opened_cancels_rest. Qed.
Print Assumptions C05_opened_cancels_rest.

(* an inbound connection established while `Opening d ts` cancels d on every transport of ts and
   leaves nothing owed for d *)
Theorem C05_inbound_supersedes_all :
  forall L m g p c t d ts, Reach L m g -> feas L m g (TrEstablished p c t true false) ->
  state_of m p = Opening d ts -> limit_reached (max_in L) (ins m) = false ->
  let '(m', os) := step L m (TrEstablished p c t true false) in
  let g' := gstep (TrEstablished p c t true false) os g in
  os = map (CallCancel d) ts ++ [CallAccept c t] /\
  state_of m' p = Connected c None /\ lookup d (pending m') = None /\
  (forall u, ~ In (d, u) (g_open g')) /\ ~ owed g' d /\ In d (g_super g').
Proof. exact inbound_supersedes_all. Qed.
Print Assumptions C05_inbound_supersedes_all.

(* ---- the address book only holds addresses of installed transports ---- *)

(* on every history whatsoever (no contract needed): add_known_address filters by the installed
   transports, dial_address checks the shape and the installed transport before it records
   anything, and the other addresses are reported by installed transports *)
Theorem C05_kinds_installed :
  forall L es, KInv L (fst (run L init es)).
Proof. exact kinds_installed. Qed.
Print Assumptions C05_kinds_installed.

Theorem C05_kinds_installed_step :
  forall L m e, KInv L m -> KInv L (fst (step L m e)).
Proof. exact kinv_step. Qed.
Print Assumptions C05_kinds_installed_step.

(* why it matters: with an address of a transport that is not installed in the store, dial() puts
   the transport into the Opening set, calls open() on nothing, returns Ok — nothing is owed and
   the peer waits for ever *)
Theorem C05_uninstalled_transport_refuted :
  exists L m p ts,
    ~ KInv L m /\ choice_ok L m p ts = true /\
    let '(m', os) := do_dial_peer L m p ts [] in
    os = [Ret RET_OK] /\ state_of m' p = Opening (next_conn m) ts /\
    lookup (next_conn m) (pending m') = Some p /\
    (forall g, g_open (gstep (CmdDialPeer p ts []) os g) = g_open g /\
               g_neg (gstep (CmdDialPeer p ts []) os g) = g_neg g).
Proof. exact uninstalled_transport_refuted. Qed.
Print Assumptions C05_uninstalled_transport_refuted.

(* ---- the user-facing handle (handle.rs) ---- *)

(* Ok from TransportManagerHandle::dial: an attempt for the peer is already owed an outcome, or
   the manager executes dial() in the same state and opens on >= 1 transport, or the manager
   refuses for the connection limit (only logged: known finding class 2); an error queues nothing
   and changes nothing *)
Theorem C05_handle_gate_sound :
  forall L m g p ts clog, Reach L m g -> feas L m g (HDialPeer p ts [] clog) ->
  let '(m', os) := step L m (HDialPeer p ts [] clog) in
  let g' := gstep (HDialPeer p ts [] clog) os g in
  (In (Ret RET_OK) os ->
     (exists c, dial_record (state_of m p) = Some c /\ owed g c /\ m' = m /\ os = [Ret RET_OK]) \/
     (limit_reached (max_out L) (outs m) = false /\ ts <> [] /\
      os = Ret RET_OK :: map (CallOpen (next_conn m)) ts ++ [Logged RET_OK] /\
      state_of m' p = Opening (next_conn m) ts /\
      (forall u, In u ts -> In (next_conn m, u) (g_open g')) /\
      lookup (next_conn m) (g_att g') = Some p) \/
     (limit_reached (max_out L) (outs m) = true /\ m' = m /\ os = [Ret RET_OK; Logged RET_LIMIT] /\ g' = g)) /\
  (forall code, code <> RET_OK -> In (Ret code) os -> m' = m /\ os = [Ret code]).
Proof. exact handle_ok_sound. Qed.
Print Assumptions C05_handle_gate_sound.

(* the handle's gate and the manager's own checks agree on the same state; the only refusal of
   a queued command is the connection limit *)
Theorem C05_handle_gate_agrees :
  forall L m p ts fl,
  match handle_gate m p with
  | HQueue =>
      (limit_reached (max_out L) (outs m) = true /\ do_dial_peer L m p ts fl = (m, [Ret RET_LIMIT])) \/
      (limit_reached (max_out L) (outs m) = false /\ selects L m p = true /\
       snd (do_dial_peer L m p ts fl) =
         fst (open_calls L (next_conn m) ts fl) ++
         [Ret (if snd (open_calls L (next_conn m) ts fl) then RET_OK else RET_TRANSPORT)])
  | HInProgress =>
      do_dial_peer L m p ts fl = (m, [Ret RET_OK]) \/ do_dial_peer L m p ts fl = (m, [Ret RET_LIMIT])
  | HErr code =>
      do_dial_peer L m p ts fl = (m, [Ret code]) \/ do_dial_peer L m p ts fl = (m, [Ret RET_LIMIT])
  end.
Proof. exact handle_gate_agrees. Qed.
Print Assumptions C05_handle_gate_agrees.

Theorem C05_handle_dial_address :
  forall L m a,
  (existsb is_p2p a = false -> step L m (HDialAddr a false) = (m, [Ret RET_PEER_ID_MISSING])) /\
  (existsb is_p2p a = true ->
   step L m (HDialAddr a false) =
     (fst (do_dial_shape L m a false), Ret RET_OK :: map demote (snd (do_dial_shape L m a false)))).
Proof. exact handle_dial_address. Qed.
Print Assumptions C05_handle_dial_address.

(* non-vacuity: a feasible history over two transports: a dial spanning TCP and WebSocket whose
   TCP open fails and whose WebSocket open wins, a dial raced by an inbound connection (cancelled
   on both transports), a failed dial and a re-dial through the handle; it ends quiescent *)
Example C05_feasible_history :
  let L := mkLimits (Some 3) (Some 3) [TCP; WS] in
  let es := [CmdAddAddr 1 TCP; CmdAddAddr 1 WS; CmdDialPeer 1 [TCP; WS] []; TrOpenFailure 0 TCP 1;
             TrOpened 0 WS false; TrEstablished 1 0 WS false false; AcceptDone 0 true;
             CmdAddAddr 2 TCP; CmdAddAddr 2 WS; HDialPeer 2 [TCP; WS] [] false; AllocConn;
             TrEstablished 2 2 TCP true false; AcceptDone 2 true;
             CmdDialAddr 3 WS false; TrDialFailure 3 WS 3; CmdAddAddr 3 TCP; CmdDialPeer 3 [TCP; WS] [];
             TrOpenFailure 4 WS 3; TrOpenFailure 4 TCP 3] in
  feasible L init g0 es /\
  (let '(m, g) := lrun L init g0 es in
   quiescent m g /\ map fst (g_att g) = [4; 3; 1; 0] /\ g_done g = [4; 3; 2; 0] /\ g_super g = [1]) /\
  last (snd (run L init es)) [] = [ProtoDialFailure 3; EvOpenFailure 4 2].
Proof. vm_compute. repeat split; auto. Qed.

(* non-vacuity of the choice: with one free outbound slot and a tcp and a ws address stored, the
   address book may hand out either one (by score: C10), never both; without limit it hands out both *)
Example C05_capacity_one_choice :
  let m := fst (run (mkLimits None (Some 1) [TCP; WS]) init [CmdAddAddr 1 TCP; CmdAddAddr 1 WS]) in
  choice_ok (mkLimits None (Some 1) [TCP; WS]) m 1 [TCP] = true /\
  choice_ok (mkLimits None (Some 1) [TCP; WS]) m 1 [WS] = true /\
  choice_ok (mkLimits None (Some 1) [TCP; WS]) m 1 [TCP; WS] = false /\
  choice_ok (mkLimits None None [TCP; WS]) m 1 [TCP] = false /\
  choice_ok (mkLimits None None [TCP; WS]) m 1 [WS; TCP] = true.
Proof. vm_compute. repeat split. Qed.

(* ---- malformed or adversarial addresses handed to dial_address (coq/Mgr/DialShape*.v) ---- *)

(* an address is dialled through TCP for peer q only if it is exactly host/tcp/p2p(q), and then
   the TCP transport's own parser (C10 model) resolves it to the same peer q *)
Theorem C05_dial_address_tcp_sound :
  forall listen a q, dial_shape listen a = SvTcp q ->
  exists h port ho, a = [h; Tcp port; P2p q] /\ is_host h = true /\
                    parse TTcp a = Some (ho, port, Some q).
Proof. exact dial_shape_tcp_sound. Qed.
Print Assumptions C05_dial_address_tcp_sound.

Theorem C05_dial_address_ws_sound :
  forall listen a q, dial_shape listen a = SvWs q ->
  exists h port w ho, a = [h; Tcp port; w; P2p q] /\ is_host h = true /\ (w = Ws \/ w = Wss) /\
                      parse TWs a = Some (ho, port, Some q).
Proof. exact dial_shape_ws_sound. Qed.
Print Assumptions C05_dial_address_ws_sound.

(* every other address is refused with one of three error classes ... *)
Theorem C05_dial_address_refusals :
  forall listen a code, dial_shape listen a = SvRefuse code ->
  code = RET_PEER_ID_MISSING \/ code = RET_SELF' \/ code = RET_NOT_SUPPORTED.
Proof. exact dial_shape_refusals. Qed.
Print Assumptions C05_dial_address_refusals.

(* ... and a refused address (or one whose transport is not installed) changes nothing and calls
   nothing: no stuck peer *)
Theorem C05_refused_address_unchanged :
  forall L m a f,
  (forall p, dial_shape LISTEN a = SvTcp p -> installed L TCP = false) ->
  (forall p, dial_shape LISTEN a = SvWs p -> installed L WS = false) ->
  exists code, do_dial_shape L m a f = (m, [Ret code]).
Proof. exact refused_address_unchanged. Qed.
Print Assumptions C05_refused_address_unchanged.

(* the check before the `fix:` commit accepted an address for one peer that the TCP transport
   dials as another peer (reproduced on the real code: debug_assert!(false), or a peer stuck in
   Dialing in release builds) *)
Theorem C05_dial_address_unfixed_refuted :
  exists a q q', dial_shape_unfixed [] a = SvTcp q /\
                 (exists ho port, parse TTcp a = Some (ho, port, Some q')) /\ q <> q'.
Proof. exact dial_shape_unfixed_refuted. Qed.
Print Assumptions C05_dial_address_unfixed_refuted.

(* ---- per-handler theorems ---- *)

(* once a peer has no open connection and no owed attempt, a dial is actually attempted: open is
   called on every transport of any set the address book allows (a non-empty set) *)
Theorem C05_redial_attempted :
  forall L m p ts,
  state_of m p = Disconnected None -> p <> LOCAL ->
  limit_reached (max_out L) (outs m) = false ->
  KInv L m -> choice_ok L m p ts = true ->
  let '(m', os) := do_dial_peer L m p ts [] in
  ts <> [] /\
  os = map (CallOpen (next_conn m)) ts ++ [Ret RET_OK] /\
  state_of m' p = Opening (next_conn m) ts /\
  lookup (next_conn m) (pending m') = Some p /\
  next_conn m' = next_conn m + 1.
Proof. exact redial_attempted. Qed.
Print Assumptions C05_redial_attempted.

Theorem C05_redial_addr_attempted :
  forall L m p t a,
  state_of m p = Disconnected None -> installed L t = true ->
  let '(m', os) := do_dial_addr L m p t a false in
  os = [CallDial (next_conn m) t; Ret RET_OK] /\
  state_of m' p = Dialing (next_conn m) /\
  lookup (next_conn m) (pending m') = Some p.
Proof. exact redial_addr_attempted. Qed.
Print Assumptions C05_redial_addr_attempted.

Theorem C05_redial_addr_event :
  forall L m p t,
  state_of m p = Disconnected None -> installed L t = true ->
  limit_reached (max_out L) (outs m) = false ->
  let '(m', os) := step L m (CmdDialAddr p t false) in
  os = [CallDial (next_conn m) t; Ret RET_OK] /\
  state_of m' p = Dialing (next_conn m) /\
  lookup (next_conn m) (pending m') = Some p.
Proof. exact redial_addr_event. Qed.
Print Assumptions C05_redial_addr_event.

(* a refused dial request (already connected / in progress / limit / self) changes nothing *)
Theorem C05_refused_unchanged :
  forall L m p ts fl, can_dial (state_of m p) <> GateOk -> fst (do_dial_peer L m p ts fl) = m.
Proof. exact dial_peer_refused_unchanged. Qed.
Print Assumptions C05_refused_unchanged.

(* never a duplicate failure: a failure report consumes the pending attempt it names *)
Theorem C05_dial_failure_consumes :
  forall m c t pa,
  In (EvDialFailure c pa) (snd (do_dial_failure m c t pa)) ->
  lookup c (pending (fst (do_dial_failure m c t pa))) = None /\ lookup c (pending m) <> None.
Proof. exact dial_failure_consumes. Qed.
Print Assumptions C05_dial_failure_consumes.

Theorem C05_open_failure_consumes :
  forall m c t pa n,
  In (EvOpenFailure c n) (snd (do_open_failure m c t pa)) ->
  lookup c (pending (fst (do_open_failure m c t pa))) = None /\ lookup c (pending m) <> None.
Proof. exact open_failure_consumes. Qed.
Print Assumptions C05_open_failure_consumes.

(* a failed dial produces exactly one report to the protocols and one to the application, and
   leaves the peer without dial record (it can be dialled again) *)
Theorem C05_dial_failure_clears :
  forall m c t p,
  lookup c (pending m) = Some p -> dial_record (state_of m p) = Some c ->
  (forall ts, state_of m p <> Opening c ts) ->
  let '(m', os) := do_dial_failure m c t p in
  os = [ProtoDialFailure p; EvDialFailure c p] /\ settled (state_of m' p).
Proof. exact dial_failure_clears. Qed.
Print Assumptions C05_dial_failure_clears.

(* F-C05a repaired: an outbound connection rejected by the connection limit no longer wedges
   the peer in a dialing state *)
Theorem C05_limit_reject_settles :
  forall L m1 p c t f,
  limit_reached (max_out L) (outs m1) = true ->
  dial_record (state_of m1 p) = Some c -> (forall ts, state_of m1 p <> Opening c ts) ->
  existsb (fun kp : N * pstate => fst kp =? p) (peers m1) = true ->
  settled (state_of (fst (do_established_checked L m1 p c t false f)) p) /\
  snd (do_established_checked L m1 p c t false f) = [CallReject c t].
Proof. exact limit_reject_settles. Qed.
Print Assumptions C05_limit_reject_settles.

(* a settled peer is either connected or can be dialled *)
Theorem C05_settled_can_dial :
  forall s, settled s -> can_dial s = GateOk \/ can_dial s = GateConnected.
Proof. exact settled_can_dial. Qed.
Print Assumptions C05_settled_can_dial.

(* no panic: the only events that reach a debug assertion / expect carry connection ids that
   contradict the manager's own records (which a transport never produces), or find a peer
   opening on a transport that is not installed (excluded by C05_opening_set_owed) *)
Theorem C05_stuck_only_on_inconsistent_ids :
  forall L m e s,
  In (Stuck s) (snd (step L m e)) ->
  (exists c t f, e = TrOpened c t f /\ lookup c (pending m) = None) \/
  (exists p c t l f q, e = TrEstablished p c t l f /\ lookup c (pending m) = Some q /\ q <> p) \/
  (exists p c ts t, state_of m p = Opening c ts /\ In t ts /\ installed L t = false).
Proof. exact stuck_only_on_inconsistent_ids. Qed.
Print Assumptions C05_stuck_only_on_inconsistent_ids.

(* ---- accept failures: the transport cannot START a connection the manager accepted (accept()
   returns Err, or the accept future resolves to Err). coq/Mgr/LiveRec.v: over EVERY history of the
   environment (Caps.env_ok: ids unique, a close notice names the owner; accept failures of either
   kind are ordinary events) every connection a peer state records as established is a live
   connection of that peer in the ledger recomputed from the events ---- *)

(* the invariant "recorded => live" is preserved by every event, accept failures included *)
Theorem C05_recorded_is_live_step :
  forall L m l e, Caps.CapInv L m l -> LiveRec.RecInv m l -> Caps.env_ok m l e ->
  LiveRec.RecInv (fst (step L m e)) (Caps.live_step e (snd (step L m e)) l).
Proof. exact LiveRec.rec_step. Qed.
Print Assumptions C05_recorded_is_live_step.

(* never a dead connection: after any history, a peer for which the ledger holds NO live
   connection (each of its connections failed its accept or was closed) is not recorded as
   connected — dial / dial_address do not answer AlreadyConnected, the handle gate lets the
   request through. A roll-back that leaves the connection that never started in the peer state
   would wedge the peer for ever; it is excluded *)
Theorem C05_no_dead_connection :
  forall L es p, Caps.env_trace L init [] es ->
  let '(m, l) := Caps.grun L init [] es in
  Caps.of_peer p l = [] -> can_dial (state_of m p) <> GateConnected.
Proof. exact LiveRec.no_dead_connection. Qed.
Print Assumptions C05_no_dead_connection.

(* the roll-back of a synchronous accept failure: the connection is not recorded afterwards *)
Theorem C05_accept_failure_not_recorded :
  forall L m l p c t lst, Caps.CapInv L m l -> LiveRec.RecInv m l -> lookup c l = None ->
  ~ Caps.recorded (state_of (fst (step L m (TrEstablished p c t lst true))) p) c.
Proof. exact LiveRec.accept_failure_not_recorded. Qed.
Print Assumptions C05_accept_failure_not_recorded.

(* ... and of an accept future that resolves to Err *)
Theorem C05_accept_future_failure_not_recorded :
  forall L m l c p b, Caps.CapInv L m l -> LiveRec.RecInv m l -> lookup c (accepting m) = Some (p, b) ->
  ~ Caps.recorded (state_of (fst (step L m (AcceptDone c false))) p) c.
Proof. exact LiveRec.accept_future_failure_not_recorded. Qed.
Print Assumptions C05_accept_future_failure_not_recorded.

(* non-vacuity and the known finding: limits (none, 1): the second outbound connection is
   rejected by the limit at establishment; the peer is settled (repaired) but no report names the
   attempt (recorded as a known finding) *)
Example C05_limit_rejection_is_silent :
  let L := mkLimits None (Some 1) [TCP; WS] in
  let es := [CmdDialAddr 1 TCP false; CmdDialAddr 2 WS false; TrEstablished 1 0 TCP false false;
             TrEstablished 2 1 WS false false] in
  let '(m, os) := run L init es in
  last os [] = [CallReject 1 WS] /\ state_of m 2 = Disconnected None /\ pending m = [].
Proof. vm_compute. repeat split. Qed.

(* the second known finding: the handle accepts a dial request at the connection limit, the
   manager refuses it, the refusal is only logged *)
Example C05_handle_limit_is_silent :
  let L := mkLimits None (Some 1) [TCP; WS] in
  let es := [CmdDialAddr 1 TCP false; TrEstablished 1 0 TCP false false; AcceptDone 0 true;
             CmdAddAddr 2 WS; HDialPeer 2 [WS] [] false] in
  let '(m, os) := run L init es in
  last os [] = [Ret RET_OK; Logged RET_LIMIT] /\ state_of m 2 = Disconnected None /\ pending m = [].
Proof. vm_compute. repeat split. Qed.


(* ================================================================================================
   The transport contract for the TCP transport (coq/Tcp): what `feas` above assumes about a
   transport is proved for the model of TcpTransport (src/transport/tcp/mod.rs), for every history
   of trait calls and future completions. Vocabulary as in LedgerInv.v: g_open = owed open,
   g_neg = owed negotiate; names are qualified because coq/Mgr/Model.v is imported above.
   ================================================================================================ *)

(* (a) open phase, for EVERY history of calls and completions (whatever ids the owner uses): a
   ConnectionOpened / OpenFailure for c is emitted only when c is an owed open at that moment —
   `In c (g_open g)`, the clause of `feas` for TrOpened / TrOpenFailure *)
Theorem C05_tcp_open_phase_owed :
  forall s g e o1 t o2,
  Tcp.Theorems.reachU s g -> snd (Tcp.Model.step s e) = o1 ++ Tcp.Model.OEv t :: o2 ->
  match t with
  | Tcp.Model.TOpened c | Tcp.Model.TOpenFailure c => In c (Tcp.Model.g_open (fold_left Tcp.Model.gout o1 (Tcp.Model.gcall e (snd (Tcp.Model.step s e)) g)))
  | _ => True
  end.
Proof. exact Tcp.Theorems.tcp_open_phase_owed. Qed.
Print Assumptions C05_tcp_open_phase_owed.

(* ... where an id is an owed open only by open(c), until cancel(c) or its answer: so the event
   needs an earlier open(c), comes at most once per open(c), and never after cancel(c) *)
Theorem C05_tcp_owed_open_ledger :
  (forall e os g c, In c (Tcp.Model.g_open (Tcp.Model.gstep e os g)) -> In c (Tcp.Model.g_open g) \/ exists es, e = Tcp.Model.EOpen c es) /\
  (forall os g c, ~ In c (Tcp.Model.g_open (Tcp.Model.gstep (Tcp.Model.ECancel c) os g))) /\
  (forall c g, ~ In c (Tcp.Model.g_open (Tcp.Model.gev (Tcp.Model.TOpened c) g)) /\ ~ In c (Tcp.Model.g_open (Tcp.Model.gev (Tcp.Model.TOpenFailure c) g))).
Proof. exact Tcp.Theorems.tcp_owed_open_ledger. Qed.
Print Assumptions C05_tcp_owed_open_ledger.

(* (c) results of the calls, for every history: open succeeds, dial succeeds on a well-formed TCP
   address, negotiate(c) succeeds exactly when ConnectionOpened c was emitted and c was not
   negotiated since, a drawn id is the next value of the shared counter *)
Theorem C05_tcp_call_results :
  forall s g e, Tcp.Theorems.reachU s g -> Tcp.Model.call_ok e g (snd (Tcp.Model.step s e)) = true.
Proof. exact Tcp.Theorems.tcp_call_results. Qed.
Print Assumptions C05_tcp_call_results.

(* ... in particular negotiate(c) succeeds when the manager calls it after ConnectionOpened c,
   with or without cancel(c) in between *)
Theorem C05_tcp_negotiate_after_opened :
  forall s g e c,
  Tcp.Theorems.reachU s g -> In (Tcp.Model.OEv (Tcp.Model.TOpened c)) (snd (Tcp.Model.step s e)) ->
  let s1 := fst (Tcp.Model.step s e) in
  snd (Tcp.Model.step s1 (Tcp.Model.ENegotiate c)) = [Tcp.Model.ORet true] /\
  snd (Tcp.Model.step (fst (Tcp.Model.step s1 (Tcp.Model.ECancel c))) (Tcp.Model.ENegotiate c)) = [Tcp.Model.ORet true].
Proof. exact Tcp.Theorems.tcp_negotiate_after_opened. Qed.
Print Assumptions C05_tcp_negotiate_after_opened.

(* (b) (e) and the identity clause — the whole transport contract, for every history in which the
   owner passes ids it drew from the counter (`caller_ok`): every emitted event is feasible in the
   ghost state reached just before it: open-phase events for an owed open, outbound
   ConnectionEstablished / DialFailure for an owed negotiate (dial(c) or a successful negotiate(c),
   not answered yet), ConnectionEstablished naming a peer the owner named for that id, inbound
   ConnectionEstablished for an accepted inbound socket, PendingInboundConnection with the next
   value of the shared counter (never an id handed out before) *)
Theorem C05_tcp_contract :
  forall s g e o1 t o2,
  Tcp.Theorems.reach s g -> Tcp.Model.caller_ok g e = true -> snd (Tcp.Model.step s e) = o1 ++ Tcp.Model.OEv t :: o2 ->
  Tcp.Model.tfeas (fold_left Tcp.Model.gout o1 (Tcp.Model.gcall e (snd (Tcp.Model.step s e)) g)) t = true.
Proof. exact Tcp.Theorems.tcp_contract. Qed.
Print Assumptions C05_tcp_contract.

(* identity: an outbound ConnectionEstablished for c reports a peer q that an address of the
   dial / open call of c names; when every address names p (the manager dials one peer), q = p.
   A handshake answered by another identity ends in a failure, never in ConnectionEstablished *)
Theorem C05_tcp_established_names_dialled_peer :
  forall s g e o1 c q o2,
  Tcp.Theorems.reach s g -> Tcp.Model.caller_ok g e = true -> snd (Tcp.Model.step s e) = o1 ++ Tcp.Model.OEv (Tcp.Model.TEstablished c q false) :: o2 ->
  let g' := fold_left Tcp.Model.gout o1 (Tcp.Model.gcall e (snd (Tcp.Model.step s e)) g) in
  In c (Tcp.Model.g_neg g') /\
  exists es, Tcp.Model.lookup c (Tcp.Model.g_att g') = Some es /\ (exists x, In x es /\ Tcp.Model.matches x q = true) /\
             forall p, (forall x, In x es -> x = Some p) -> q = p.
Proof. exact Tcp.Theorems.tcp_established_names_dialled_peer. Qed.
Print Assumptions C05_tcp_established_names_dialled_peer.

(* ... and what an id names is fixed by the dial / open call that introduced it *)
Theorem C05_tcp_named_by_call :
  forall e os g c,
  Tcp.Model.lookup c (Tcp.Model.g_att (Tcp.Model.gstep e os g)) =
  match e with
  | Tcp.Model.EDial c' _ ex => if (c' =? c) && Tcp.Model.ret_ok os then Some [ex] else Tcp.Model.lookup c (Tcp.Model.g_att g)
  | Tcp.Model.EOpen c' es => if c' =? c then Some es else Tcp.Model.lookup c (Tcp.Model.g_att g)
  | _ => Tcp.Model.lookup c (Tcp.Model.g_att g)
  end.
Proof. exact Tcp.Theorems.tcp_named_by_call. Qed.
Print Assumptions C05_tcp_named_by_call.

(* (d) no dropped answer: under caller_ok the branches of poll_next that consume a completed
   future without an event — "raw connection without a cancel handle" (Connected and Failed),
   "raw cancelled connection without a cancel handle", the is_aborted() test answering for a
   foreign handle, the silent failure of a dial — are unreachable; the only silent branch taken is
   the failed negotiation of an inbound socket, which is owed to nobody *)
Theorem C05_tcp_no_dropped_answer :
  forall s g e m,
  Tcp.Theorems.reach s g -> Tcp.Model.caller_ok g e = true -> In (Tcp.Model.OMark m) (snd (Tcp.Model.step s e)) ->
  exists c, m = Tcp.Model.MSilentFailure c Tcp.Model.KInb.
Proof. exact Tcp.Theorems.tcp_no_dropped_answer. Qed.
Print Assumptions C05_tcp_no_dropped_answer.

(* what is owed is backed by a pending, un-cancelled future of the transport: the environment
   always has something to complete *)
Theorem C05_tcp_owed_is_pending :
  forall s g c,
  Tcp.Theorems.reach s g ->
  (In c (Tcp.Model.g_open g) -> exists f rem, Tcp.Model.lookup f (Tcp.Model.praw s) = Some c /\ Tcp.Model.lookup f (Tcp.Model.attempts s) = Some rem /\
                                    ~ In f (Tcp.Model.aborted s)) /\
  (In c (Tcp.Model.g_neg g) -> exists f k, Tcp.Model.lookup f (Tcp.Model.pconn s) = Some (c, k) /\ Tcp.Model.is_inb k = false).
Proof. exact Tcp.Theorems.tcp_owed_is_pending. Qed.
Print Assumptions C05_tcp_owed_is_pending.

(* progress, open: an address of an owed open answers with the identity it names: the poll that
   observes it emits ConnectionOpened *)
Theorem C05_tcp_progress_open_answer :
  forall s g f c rem i e q,
  Tcp.Theorems.reach s g -> Tcp.Model.lookup f (Tcp.Model.praw s) = Some c -> In c (Tcp.Model.g_open g) ->
  Tcp.Model.lookup f (Tcp.Model.attempts s) = Some rem -> Tcp.Model.lookup i rem = Some e -> Tcp.Model.matches e q = true ->
  In (Tcp.Model.OEv (Tcp.Model.TOpened c)) (snd (Tcp.Model.step s (Tcp.Model.EAns f i (Some q)))).
Proof. exact Tcp.Theorems.tcp_progress_open_answer. Qed.
Print Assumptions C05_tcp_progress_open_answer.

(* ... its last address fails, or is answered by another identity: OpenFailure *)
Theorem C05_tcp_progress_open_last_failure :
  forall s g f c rem i e ans,
  Tcp.Theorems.reach s g -> Tcp.Model.lookup f (Tcp.Model.praw s) = Some c -> In c (Tcp.Model.g_open g) ->
  Tcp.Model.lookup f (Tcp.Model.attempts s) = Some rem -> Tcp.Model.lookup i rem = Some e -> Tcp.Model.delk i rem = [] ->
  (forall q, ans = Some q -> Tcp.Model.matches e q = false) ->
  In (Tcp.Model.OEv (Tcp.Model.TOpenFailure c)) (snd (Tcp.Model.step s (Tcp.Model.EAns f i ans))).
Proof. exact Tcp.Theorems.tcp_progress_open_last_failure. Qed.
Print Assumptions C05_tcp_progress_open_last_failure.

(* ... the overall deadline of the open fires: OpenFailure *)
Theorem C05_tcp_progress_open_expire :
  forall s g f c rem,
  Tcp.Theorems.reach s g -> Tcp.Model.lookup f (Tcp.Model.praw s) = Some c -> In c (Tcp.Model.g_open g) ->
  Tcp.Model.lookup f (Tcp.Model.attempts s) = Some rem -> rem <> [] ->
  In (Tcp.Model.OEv (Tcp.Model.TOpenFailure c)) (snd (Tcp.Model.step s (Tcp.Model.EExpire f))).
Proof. exact Tcp.Theorems.tcp_progress_open_expire. Qed.
Print Assumptions C05_tcp_progress_open_expire.

(* ... no address is left (open called without addresses): the next poll emits OpenFailure *)
Theorem C05_tcp_progress_open_no_address :
  forall s g f c e,
  Tcp.Theorems.reach s g -> Tcp.Model.lookup f (Tcp.Model.praw s) = Some c -> In c (Tcp.Model.g_open g) -> Tcp.Model.lookup f (Tcp.Model.attempts s) = Some [] ->
  Tcp.Model.polls e = true -> In (Tcp.Model.OEv (Tcp.Model.TOpenFailure c)) (snd (Tcp.Model.step s e)).
Proof. exact Tcp.Theorems.tcp_progress_open_no_address. Qed.
Print Assumptions C05_tcp_progress_open_no_address.

(* progress, dial(c, address naming x): when the socket / handshake ends, the poll that observes
   it emits ConnectionEstablished for the named peer, DialFailure in every other case *)
Theorem C05_tcp_progress_dial :
  forall s g f c i ans,
  Tcp.Theorems.reach s g -> Tcp.Model.lookup f (Tcp.Model.pconn s) = Some (c, Tcp.Model.KDial) ->
  exists x, Tcp.Model.lookup c (Tcp.Model.g_att g) = Some [x] /\
    In (Tcp.Model.OEv (match ans with
             | Some q => if Tcp.Model.matches x q then Tcp.Model.TEstablished c q false else Tcp.Model.TDialFailure c
             | None => Tcp.Model.TDialFailure c
             end)) (snd (Tcp.Model.step s (Tcp.Model.EAns f i ans))).
Proof. exact Tcp.Theorems.tcp_progress_dial. Qed.
Print Assumptions C05_tcp_progress_dial.

(* progress, negotiate(c) succeeded: the next poll emits ConnectionEstablished for c *)
Theorem C05_tcp_progress_negotiate :
  forall s g f c e,
  Tcp.Theorems.reach s g -> Tcp.Model.lookup f (Tcp.Model.pconn s) = Some (c, Tcp.Model.KNeg) -> Tcp.Model.polls e = true ->
  exists q, In (Tcp.Model.OEv (Tcp.Model.TEstablished c q false)) (snd (Tcp.Model.step s e)).
Proof. exact Tcp.Theorems.tcp_progress_negotiate. Qed.
Print Assumptions C05_tcp_progress_negotiate.

(* progress, accepted inbound socket: its handshake completes: ConnectionEstablished (listener) *)
Theorem C05_tcp_progress_inbound :
  forall s g f c i q,
  Tcp.Theorems.reach s g -> Tcp.Model.lookup f (Tcp.Model.pconn s) = Some (c, Tcp.Model.KInb) ->
  In (Tcp.Model.OEv (Tcp.Model.TEstablished c q true)) (snd (Tcp.Model.step s (Tcp.Model.EAns f i (Some q)))).
Proof. exact Tcp.Theorems.tcp_progress_inbound. Qed.
Print Assumptions C05_tcp_progress_inbound.

(* (e) ids: everything the transport owes an answer for was passed in by the owner through
   dial / open: it never invents an outbound id *)
Theorem C05_tcp_outbound_ids_from_owner :
  forall s g c,
  Tcp.Theorems.reachU s g -> In c (Tcp.Model.g_open g) \/ In c (Tcp.Model.g_neg g) \/ In c (Tcp.Model.g_opened g) -> In c (Tcp.Model.g_used g).
Proof. exact Tcp.Theorems.tcp_outbound_ids_from_owner. Qed.
Print Assumptions C05_tcp_outbound_ids_from_owner.


(* the owner's hygiene (`caller_ok`) is needed for (b) and (d): with open(c) called twice for one
   id an answer is dropped by the "raw connection without a cancel handle" branch *)
Theorem C05_tcp_caller_ok_needed :
  exists es, Tcp.Theorems.callers_ok Tcp.Model.init Tcp.Model.g0 es = false /\
             In [Tcp.Model.OMark (Tcp.Model.MNoHandle 0)] (snd (Tcp.Theorems.run Tcp.Model.init es)).
Proof. exact Tcp.Theorems.duplicate_open_drops_an_answer. Qed.
Print Assumptions C05_tcp_caller_ok_needed.

(* non-vacuity: a dial by peer id as the manager does it (two addresses naming peer 1; the first is
   answered by identity 2 and refused, the second by peer 1: ConnectionOpened, cancel + negotiate,
   ConnectionEstablished for peer 1), an address answered only by the wrong identity (OpenFailure),
   a dial answered by the wrong identity (DialFailure), an inbound socket *)
Example C05_tcp_history :
  Tcp.Theorems.callers_ok Tcp.Model.init Tcp.Model.g0 Tcp.Theorems.history1 = true /\
  snd (Tcp.Theorems.run Tcp.Model.init Tcp.Theorems.history1) =
  [[Tcp.Model.OId 0]; [Tcp.Model.ORet true]; []; []; [Tcp.Model.OEv (Tcp.Model.TOpened 0)]; [];
   [Tcp.Model.ORet true]; [Tcp.Model.OEv (Tcp.Model.TEstablished 0 1 false)]; [Tcp.Model.ORet true];
   [Tcp.Model.OId 1]; [Tcp.Model.ORet true]; [Tcp.Model.OEv (Tcp.Model.TOpenFailure 1)];
   [Tcp.Model.OId 2]; [Tcp.Model.ORet true]; [Tcp.Model.OEv (Tcp.Model.TDialFailure 2)];
   [Tcp.Model.OEv (Tcp.Model.TPendingInbound 3)]; [Tcp.Model.ORet true];
   [Tcp.Model.OEv (Tcp.Model.TEstablished 3 7 true)]].
Proof. exact Tcp.Theorems.history1_ok. Qed.


(* ---- manager + TcpTransport together (coq/C05/TcpCompose.v) ----
   The manager model and the TCP transport model are plugged into each other: every call of the
   manager is executed by the TCP model, every event of the TCP model is handled by the manager, the
   id counter is shared. Inputs from outside: XCmd (user / protocol side: dial requests, address
   additions, closed connections, accept futures) and XNet (network / runtime: a socket arrives, an
   attempt of a pending future ends, a deadline fires, the transport is polled). `xfeasible` keeps of
   `feas` only the clauses about the address store (choice_ok), the protocols (accept futures
   succeed) and the kind of the inputs; TCP is the one installed transport. *)

(* the transport contract is no assumption any more: every history of outside inputs makes the
   manager see an event history that satisfies `feas`, and the manager part of the composed run is
   the manager model run on that history *)
Theorem C05_sys_feasible :
  forall L, (forall t, installed L t = true <-> t = TCP) ->
  forall xs, TcpCompose.xfeasible L TcpCompose.sys0 xs ->
  feasible L init g0 (TcpCompose.sys_trace L TcpCompose.sys0 xs) /\
  (TcpCompose.s_m (TcpCompose.sys_run L TcpCompose.sys0 xs), TcpCompose.s_g (TcpCompose.sys_run L TcpCompose.sys0 xs)) =
  lrun L init g0 (TcpCompose.sys_trace L TcpCompose.sys0 xs).
Proof. exact TcpCompose.sys_feasible0. Qed.
Print Assumptions C05_sys_feasible.

(* ... one input at a time, from any state the coupling invariant holds in *)
Theorem C05_sys_step :
  forall L, (forall t, installed L t = true <-> t = TCP) ->
  forall st x, TcpCompose.Inv L st -> TcpCompose.xok L st x ->
  feasible L (TcpCompose.s_m st) (TcpCompose.s_g st) (TcpCompose.sys_evs L st x) /\
  TcpCompose.Inv L (TcpCompose.sys_step L st x).
Proof. exact TcpCompose.sys_step_inv. Qed.
Print Assumptions C05_sys_step.

(* the ledger theorems for manager + TCP, without assuming anything about the transport *)
Theorem C05_sys_at_most_one_outcome :
  forall L, (forall t, installed L t = true <-> t = TCP) ->
  forall xs, TcpCompose.xfeasible L TcpCompose.sys0 xs ->
  NoDup (terminals L init (TcpCompose.sys_trace L TcpCompose.sys0 xs)).
Proof. exact TcpCompose.sys_at_most_one_outcome. Qed.
Print Assumptions C05_sys_at_most_one_outcome.

Theorem C05_sys_no_silence :
  forall L, (forall t, installed L t = true <-> t = TCP) ->
  forall xs, TcpCompose.xfeasible L TcpCompose.sys0 xs ->
  let st := TcpCompose.sys_run L TcpCompose.sys0 xs in
  quiescent (TcpCompose.s_m st) (TcpCompose.s_g st) ->
  forall c p, lookup c (g_att (TcpCompose.s_g st)) = Some p ->
    In c (g_done (TcpCompose.s_g st)) \/
    (In c (g_super (TcpCompose.s_g st)) /\ In p (g_rep (TcpCompose.s_g st))) \/
    In c (g_limrej (TcpCompose.s_g st)).
Proof. exact TcpCompose.sys_no_silence. Qed.
Print Assumptions C05_sys_no_silence.

Theorem C05_sys_no_wedge :
  forall L, (forall t, installed L t = true <-> t = TCP) ->
  forall xs, TcpCompose.xfeasible L TcpCompose.sys0 xs ->
  let st := TcpCompose.sys_run L TcpCompose.sys0 xs in
  quiescent (TcpCompose.s_m st) (TcpCompose.s_g st) -> forall p, settled (state_of (TcpCompose.s_m st) p).
Proof. exact TcpCompose.sys_no_wedge. Qed.
Print Assumptions C05_sys_no_wedge.

(* quiescence is a fact about the TCP model's own ledger: nothing owed for an open, nothing owed
   for a dial / negotiate, no accept future of the protocols pending *)
Theorem C05_sys_quiescent :
  forall L, (forall t, installed L t = true <-> t = TCP) ->
  forall xs, TcpCompose.xfeasible L TcpCompose.sys0 xs ->
  let st := TcpCompose.sys_run L TcpCompose.sys0 xs in
  quiescent (TcpCompose.s_m st) (TcpCompose.s_g st) <->
  Tcp.Model.g_open (TcpCompose.s_tg st) = [] /\ Tcp.Model.g_neg (TcpCompose.s_tg st) = [] /\
  accepting (TcpCompose.s_m st) = [].
Proof. exact TcpCompose.sys_quiescent0. Qed.
Print Assumptions C05_sys_quiescent.

(* what is left to the network, made explicit: whatever the manager waits for is backed by a
   pending future of the TCP model (an un-cancelled open future with its address table, or a dial /
   negotiate future) ... *)
Theorem C05_sys_owed_is_pending :
  forall L, (forall t, installed L t = true <-> t = TCP) ->
  forall xs c, TcpCompose.xfeasible L TcpCompose.sys0 xs ->
  let st := TcpCompose.sys_run L TcpCompose.sys0 xs in
  owed (TcpCompose.s_g st) c ->
  (exists f rem, Tcp.Model.lookup f (Tcp.Model.praw (TcpCompose.s_t st)) = Some c /\
                 Tcp.Model.lookup f (Tcp.Model.attempts (TcpCompose.s_t st)) = Some rem /\
                 ~ In f (Tcp.Model.aborted (TcpCompose.s_t st))) \/
  (exists f k, Tcp.Model.lookup f (Tcp.Model.pconn (TcpCompose.s_t st)) = Some (c, k) /\ Tcp.Model.is_inb k = false).
Proof. exact TcpCompose.sys_owed_is_pending0. Qed.
Print Assumptions C05_sys_owed_is_pending.

(* ... and there is a network / runtime input (the deadline of the open fires, the dial attempt
   ends, the transport is polled) that is allowed next and whose handling hands the manager an
   answer for that connection id: the only liveness assumption left is that the network lets every
   pending future end and the runtime polls the transport *)
Theorem C05_sys_progress :
  forall L, (forall t, installed L t = true <-> t = TCP) ->
  forall xs c, TcpCompose.xfeasible L TcpCompose.sys0 xs ->
  let st := TcpCompose.sys_run L TcpCompose.sys0 xs in
  owed (TcpCompose.s_g st) c ->
  exists n, Tcp.Model.polls n = true /\ TcpCompose.xfeasible L TcpCompose.sys0 (xs ++ [TcpCompose.XNet n]) /\
            exists e, In e (TcpCompose.sys_evs L st (TcpCompose.XNet n)) /\ TcpCompose.answers c e.
Proof. exact TcpCompose.sys_progress0. Qed.
Print Assumptions C05_sys_progress.

(* no debug assertion / expect of the manager is reached in the composed system *)
Theorem C05_sys_no_stuck :
  forall L, (forall t, installed L t = true <-> t = TCP) ->
  forall xs x s, TcpCompose.xfeasible L TcpCompose.sys0 (xs ++ [x]) ->
  forall e m g es2, TcpCompose.sys_evs L (TcpCompose.sys_run L TcpCompose.sys0 xs) x = e :: es2 ->
  (m, g) = (TcpCompose.s_m (TcpCompose.sys_run L TcpCompose.sys0 xs), TcpCompose.s_g (TcpCompose.sys_run L TcpCompose.sys0 xs)) ->
  ~ In (Stuck s) (snd (step L m e)).
Proof. exact TcpCompose.sys_no_stuck. Qed.
Print Assumptions C05_sys_no_stuck.

(* non-vacuity: a composed history with TCP alone installed — dial by peer id with two addresses
   (the first answered by another identity), ConnectionOpened, cancel + negotiate, the connection
   reported and accepted; an inbound socket accepted and authenticated; a dial through the handle
   whose attempt fails; nothing is owed at the end *)
Example C05_sys_history :
  TcpCompose.xfeasible TcpCompose.L_tcp TcpCompose.sys0 TcpCompose.history2 /\
  TcpCompose.sys_trace TcpCompose.L_tcp TcpCompose.sys0 TcpCompose.history2 =
    [CmdAddAddr 5 TCP; CmdDialPeer 5 [TCP] []; TrOpened 0 TCP false; TrEstablished 5 0 TCP false false;
     AcceptDone 0 true; AllocConn; TrPendingInbound 1 TCP; TrEstablished 7 1 TCP true false; AcceptDone 1 true;
     HDialAddr (canon 6 TCP) false; TrDialFailure 2 TCP 6] /\
  snd (run TcpCompose.L_tcp init (TcpCompose.sys_trace TcpCompose.L_tcp TcpCompose.sys0 TcpCompose.history2)) =
    [[]; [CallOpen 0 TCP; Ret RET_OK]; [CallCancel 0 TCP; CallNegotiate 0 TCP]; [CallAccept 0 TCP];
     [EvEstablished 5 0]; [Ret (RET_ALLOC + 1)]; [CallAcceptPending 1 TCP]; [CallAccept 1 TCP];
     [EvEstablished 7 1]; [Ret RET_OK; CallDial 2 TCP; Logged RET_OK]; [ProtoDialFailure 6; EvDialFailure 2 6]] /\
  quiescent (TcpCompose.s_m (TcpCompose.sys_run TcpCompose.L_tcp TcpCompose.sys0 TcpCompose.history2))
            (TcpCompose.s_g (TcpCompose.sys_run TcpCompose.L_tcp TcpCompose.sys0 TcpCompose.history2)).
Proof. exact TcpCompose.history2_ok. Qed.

(* ---- the same contract for each socket transport: TCP, WebSocket, QUIC (coq/Tcp/Variants.v,
   VariantTheorems.v, Once.v, Settle.v) ----
   tcp/mod.rs, websocket/mod.rs and quic/mod.rs keep the same books with the same poll_next; what differs
   is the front end (which multiaddresses `dial` accepts, which addresses of an `open` become attempts,
   the peer an attempt expects, whether `open` has an overall deadline). `tstep t` is the bookkeeping
   model behind the front end of transport t; `treach t` its histories. *)

(* refinement: every history of a transport (trait calls carrying real multiaddresses, judged by that transport's own parser; its own environment events) is a history of the bookkeeping model, so every C05_tcp_* theorem holds for it *)
Theorem C05_tr_refines_model :
  forall t s g,
  Tcp.VariantTheorems.treach t s g -> Tcp.Theorems.reach s g.
Proof. exact Tcp.VariantTheorems.treach_reach. Qed.
Print Assumptions C05_tr_refines_model.

(* ... whatever ids the owner uses *)
Theorem C05_tr_refines_model_any_owner :
  forall t s g,
  Tcp.VariantTheorems.treachU t s g -> Tcp.Theorems.reachU s g.
Proof. exact Tcp.VariantTheorems.treachU_reachU. Qed.
Print Assumptions C05_tr_refines_model_any_owner.

(* front end: dial(c, a) returns Ok exactly when the address parses for the transport (TCP: TcpAddress::multiaddr_to_socket_address; WebSocket: multiaddr_into_url, /p2p required; QUIC: get_socket_address and /p2p required) *)
Theorem C05_tr_dial_result :
  forall t s g c a,
  Tcp.VariantTheorems.treachU t s g ->
  snd (Tcp.Variants.tstep t s (Tcp.Variants.XDial c a)) = [Tcp.Model.ORet (match Tcp.Variants.expect_of t a with Some _ => true | None => false end)].
Proof. exact Tcp.VariantTheorems.t_dial_result. Qed.
Print Assumptions C05_tr_dial_result.

(* front end: open never fails, whatever the addresses (an address that does not parse is an attempt that ends at once) *)
Theorem C05_tr_open_result :
  forall t s c l,
  snd (Tcp.Variants.tstep t s (Tcp.Variants.XOpen c l)) = [Tcp.Model.ORet true].
Proof. exact Tcp.VariantTheorems.t_open_result. Qed.
Print Assumptions C05_tr_open_result.

(* WebSocket: an address multiaddr_into_url accepts is also accepted by the socket-address parser that dial_peer runs next *)
Theorem C05_ws_url_parse :
  forall a p,
  Tcp.Variants.ws_url a = Some p -> exists ho port, C10.Model.parse V.C10.Model.TWs a = Some (ho, port, Some p).
Proof. exact Tcp.VariantTheorems.ws_url_parse. Qed.
Print Assumptions C05_ws_url_parse.

(* every address shape TransportManager::dial_address lets through to TCP is accepted by its dial, expecting the dialled peer *)
Theorem C05_tcp_accepts_manager_shape :
  forall a q,
  Tcp.Variants.manager_tcp_shape a q -> Tcp.Variants.expect_of V.C10.Model.TTcp a = Some (Some q).
Proof. exact Tcp.VariantTheorems.t_accepts_manager_tcp. Qed.
Print Assumptions C05_tcp_accepts_manager_shape.

(* ... to WebSocket *)
Theorem C05_ws_accepts_manager_shape :
  forall a q,
  Tcp.Variants.manager_ws_shape a q -> Tcp.Variants.expect_of V.C10.Model.TWs a = Some (Some q).
Proof. exact Tcp.VariantTheorems.t_accepts_manager_ws. Qed.
Print Assumptions C05_ws_accepts_manager_shape.

(* ... to QUIC *)
Theorem C05_quic_accepts_manager_shape :
  forall a q,
  Tcp.Variants.manager_quic_shape a q -> Tcp.Variants.expect_of V.C10.Model.TQuic a = Some (Some q).
Proof. exact Tcp.VariantTheorems.t_accepts_manager_quic. Qed.
Print Assumptions C05_quic_accepts_manager_shape.

(* dial by peer id: every address the address store keeps (`supported`) is accepted by the transport it is routed to (`route`), expecting the peer its /p2p names *)
Theorem C05_tr_accepts_supported :
  forall cfg a,
  C10.Model.supported cfg a = true ->
  exists q, last a (C10.Model.Other 0) = C10.Model.P2p q /\ Tcp.Variants.expect_of (C10.Model.route cfg a) a = Some (Some q).
Proof. exact Tcp.VariantTheorems.t_accepts_supported. Qed.
Print Assumptions C05_tr_accepts_supported.

(* dial_address: what the manager model routes to TCP (coq/Mgr/DialShape.v) is accepted by TcpTransport::dial, and the peer the negotiation insists on is the one the manager recorded *)
Theorem C05_tcp_dial_accepts_manager_addresses :
  forall listen a q,
  DialShape.dial_shape listen a = DialShape.SvTcp q -> Tcp.Variants.expect_of V.C10.Model.TTcp a = Some (Some q).
Proof. exact Tcp.VariantTheorems.tcp_dial_accepts_manager_addresses. Qed.
Print Assumptions C05_tcp_dial_accepts_manager_addresses.

(* ... to WebSocket *)
Theorem C05_ws_dial_accepts_manager_addresses :
  forall listen a q,
  DialShape.dial_shape listen a = DialShape.SvWs q -> Tcp.Variants.expect_of V.C10.Model.TWs a = Some (Some q).
Proof. exact Tcp.VariantTheorems.ws_dial_accepts_manager_addresses. Qed.
Print Assumptions C05_ws_dial_accepts_manager_addresses.

(* (a) per transport: ConnectionOpened / OpenFailure only for an owed open, whatever ids the owner uses *)
Theorem C05_tr_open_phase_owed :
  forall t s g k o1 e o2,
  Tcp.VariantTheorems.treachU t s g -> snd (Tcp.Variants.tstep t s k) = o1 ++ Tcp.Model.OEv e :: o2 ->
  match e with
  | Tcp.Model.TOpened c | Tcp.Model.TOpenFailure c =>
      In c (Tcp.Model.g_open (fold_left Tcp.Model.gout o1 (Tcp.Model.gcall (Tcp.Variants.ev_of t k) (snd (Tcp.Variants.tstep t s k)) g)))
  | _ => True
  end.
Proof. exact Tcp.VariantTheorems.t_open_phase_owed. Qed.
Print Assumptions C05_tr_open_phase_owed.

(* (c) per transport: results of the calls *)
Theorem C05_tr_call_results :
  forall t s g k,
  Tcp.VariantTheorems.treachU t s g -> Tcp.Model.call_ok (Tcp.Variants.ev_of t k) g (snd (Tcp.Variants.tstep t s k)) = true.
Proof. exact Tcp.VariantTheorems.t_call_results. Qed.
Print Assumptions C05_tr_call_results.

(* (c) per transport: negotiate(c) succeeds after ConnectionOpened c, with or without cancel(c) in between *)
Theorem C05_tr_negotiate_after_opened :
  forall t s g k c,
  Tcp.VariantTheorems.treachU t s g -> In (Tcp.Model.OEv (Tcp.Model.TOpened c)) (snd (Tcp.Variants.tstep t s k)) ->
  let s1 := fst (Tcp.Variants.tstep t s k) in
  snd (Tcp.Variants.tstep t s1 (Tcp.Variants.XEv (Tcp.Model.ENegotiate c))) = [Tcp.Model.ORet true] /\
  snd (Tcp.Variants.tstep t (fst (Tcp.Variants.tstep t s1 (Tcp.Variants.XEv (Tcp.Model.ECancel c)))) (Tcp.Variants.XEv (Tcp.Model.ENegotiate c))) = [Tcp.Model.ORet true].
Proof. exact Tcp.VariantTheorems.t_negotiate_after_opened. Qed.
Print Assumptions C05_tr_negotiate_after_opened.

(* (b) (e) per transport: the whole transport contract, for an owner that draws its ids *)
Theorem C05_tr_contract :
  forall t s g k o1 e o2,
  Tcp.VariantTheorems.treach t s g -> Tcp.Model.caller_ok g (Tcp.Variants.ev_of t k) = true -> snd (Tcp.Variants.tstep t s k) = o1 ++ Tcp.Model.OEv e :: o2 ->
  Tcp.Model.tfeas (fold_left Tcp.Model.gout o1 (Tcp.Model.gcall (Tcp.Variants.ev_of t k) (snd (Tcp.Variants.tstep t s k)) g)) e = true.
Proof. exact Tcp.VariantTheorems.t_contract. Qed.
Print Assumptions C05_tr_contract.

(* identity, per transport *)
Theorem C05_tr_established_names_dialled_peer :
  forall t s g k o1 c q o2,
  Tcp.VariantTheorems.treach t s g -> Tcp.Model.caller_ok g (Tcp.Variants.ev_of t k) = true ->
  snd (Tcp.Variants.tstep t s k) = o1 ++ Tcp.Model.OEv (Tcp.Model.TEstablished c q false) :: o2 ->
  let g' := fold_left Tcp.Model.gout o1 (Tcp.Model.gcall (Tcp.Variants.ev_of t k) (snd (Tcp.Variants.tstep t s k)) g) in
  In c (Tcp.Model.g_neg g') /\
  exists es, Tcp.Model.lookup c (Tcp.Model.g_att g') = Some es /\ (exists x, In x es /\ Tcp.Model.matches x q = true) /\
             forall p, (forall x, In x es -> x = Some p) -> q = p.
Proof. exact Tcp.VariantTheorems.t_established_names_dialled_peer. Qed.
Print Assumptions C05_tr_established_names_dialled_peer.

(* WebSocket and QUIC always expect a definite peer: an outbound ConnectionEstablished reports a peer that an address of that id names literally *)
Theorem C05_tr_strict_established_is_named_peer :
  forall t s g k o1 c q o2,
  Tcp.VariantTheorems.strict t = true ->
  Tcp.VariantTheorems.treach t s g -> Tcp.Variants.call_plain t k = true -> Tcp.Model.caller_ok g (Tcp.Variants.ev_of t k) = true ->
  snd (Tcp.Variants.tstep t s k) = o1 ++ Tcp.Model.OEv (Tcp.Model.TEstablished c q false) :: o2 ->
  exists es, Tcp.Model.lookup c (Tcp.Model.g_att (Tcp.Model.gstep (Tcp.Variants.ev_of t k) (snd (Tcp.Variants.tstep t s k)) g)) = Some es /\ In (Some q) es.
Proof. exact Tcp.VariantTheorems.strict_established_is_named_peer. Qed.
Print Assumptions C05_tr_strict_established_is_named_peer.

(* (d) per transport: the silent branches of poll_next are unreachable *)
Theorem C05_tr_no_dropped_answer :
  forall t s g k m,
  Tcp.VariantTheorems.treach t s g -> Tcp.Model.caller_ok g (Tcp.Variants.ev_of t k) = true -> In (Tcp.Model.OMark m) (snd (Tcp.Variants.tstep t s k)) ->
  exists c, m = Tcp.Model.MSilentFailure c Tcp.Model.KInb.
Proof. exact Tcp.VariantTheorems.t_no_dropped_answer. Qed.
Print Assumptions C05_tr_no_dropped_answer.

(* (d) per transport: what is owed is backed by a pending, un-cancelled future *)
Theorem C05_tr_owed_is_pending :
  forall t s g c,
  Tcp.VariantTheorems.treach t s g ->
  (In c (Tcp.Model.g_open g) -> exists f rem, Tcp.Model.lookup f (Tcp.Model.praw s) = Some c /\ Tcp.Model.lookup f (Tcp.Model.attempts s) = Some rem /\
                                    ~ In f (Tcp.Model.aborted s)) /\
  (In c (Tcp.Model.g_neg g) -> exists f k, Tcp.Model.lookup f (Tcp.Model.pconn s) = Some (c, k) /\ Tcp.Model.is_inb k = false).
Proof. exact Tcp.VariantTheorems.t_owed_is_pending. Qed.
Print Assumptions C05_tr_owed_is_pending.

(* progress, per transport *)
Theorem C05_tr_progress_open_answer :
  forall t s g f c rem i e q,
  Tcp.VariantTheorems.treach t s g -> Tcp.Model.lookup f (Tcp.Model.praw s) = Some c -> In c (Tcp.Model.g_open g) ->
  Tcp.Model.lookup f (Tcp.Model.attempts s) = Some rem -> Tcp.Model.lookup i rem = Some e -> Tcp.Model.matches e q = true ->
  In (Tcp.Model.OEv (Tcp.Model.TOpened c)) (snd (Tcp.Variants.tstep t s (Tcp.Variants.XEv (Tcp.Model.EAns f i (Some q))))).
Proof. exact Tcp.VariantTheorems.t_progress_open_answer. Qed.
Print Assumptions C05_tr_progress_open_answer.

(* progress, per transport *)
Theorem C05_tr_progress_open_last_failure :
  forall t s g f c rem i e ans,
  Tcp.VariantTheorems.treach t s g -> Tcp.Model.lookup f (Tcp.Model.praw s) = Some c -> In c (Tcp.Model.g_open g) ->
  Tcp.Model.lookup f (Tcp.Model.attempts s) = Some rem -> Tcp.Model.lookup i rem = Some e -> Tcp.Model.delk i rem = [] ->
  (forall q, ans = Some q -> Tcp.Model.matches e q = false) ->
  In (Tcp.Model.OEv (Tcp.Model.TOpenFailure c)) (snd (Tcp.Variants.tstep t s (Tcp.Variants.XEv (Tcp.Model.EAns f i ans)))).
Proof. exact Tcp.VariantTheorems.t_progress_open_last_failure. Qed.
Print Assumptions C05_tr_progress_open_last_failure.

(* progress: the overall deadline of an open (TCP and WebSocket; QUIC has none: its histories contain no EExpire) *)
Theorem C05_tr_progress_open_expire :
  forall t s g f c rem,
  Tcp.Variants.has_deadline t = true ->
  Tcp.VariantTheorems.treach t s g -> Tcp.Model.lookup f (Tcp.Model.praw s) = Some c -> In c (Tcp.Model.g_open g) ->
  Tcp.Model.lookup f (Tcp.Model.attempts s) = Some rem -> rem <> [] ->
  In (Tcp.Model.OEv (Tcp.Model.TOpenFailure c)) (snd (Tcp.Variants.tstep t s (Tcp.Variants.XEv (Tcp.Model.EExpire f)))).
Proof. exact Tcp.VariantTheorems.t_progress_open_expire. Qed.
Print Assumptions C05_tr_progress_open_expire.

(* progress: no address left, also an open none of whose addresses parses for this transport *)
Theorem C05_tr_progress_open_no_address :
  forall t s g f c e,
  Tcp.VariantTheorems.treach t s g -> Tcp.Model.lookup f (Tcp.Model.praw s) = Some c -> In c (Tcp.Model.g_open g) -> Tcp.Model.lookup f (Tcp.Model.attempts s) = Some [] ->
  Tcp.Model.polls e = true -> In (Tcp.Model.OEv (Tcp.Model.TOpenFailure c)) (snd (Tcp.Variants.tstep t s (Tcp.Variants.XEv e))).
Proof. exact Tcp.VariantTheorems.t_progress_open_no_address. Qed.
Print Assumptions C05_tr_progress_open_no_address.

(* progress, per transport *)
Theorem C05_tr_progress_dial :
  forall t s g f c i ans,
  Tcp.VariantTheorems.treach t s g -> Tcp.Model.lookup f (Tcp.Model.pconn s) = Some (c, Tcp.Model.KDial) ->
  exists x, Tcp.Model.lookup c (Tcp.Model.g_att g) = Some [x] /\
    In (Tcp.Model.OEv (match ans with
             | Some q => if Tcp.Model.matches x q then Tcp.Model.TEstablished c q false else Tcp.Model.TDialFailure c
             | None => Tcp.Model.TDialFailure c
             end)) (snd (Tcp.Variants.tstep t s (Tcp.Variants.XEv (Tcp.Model.EAns f i ans)))).
Proof. exact Tcp.VariantTheorems.t_progress_dial. Qed.
Print Assumptions C05_tr_progress_dial.

(* progress, per transport *)
Theorem C05_tr_progress_negotiate :
  forall t s g f c e,
  Tcp.VariantTheorems.treach t s g -> Tcp.Model.lookup f (Tcp.Model.pconn s) = Some (c, Tcp.Model.KNeg) -> Tcp.Model.polls e = true ->
  exists q, In (Tcp.Model.OEv (Tcp.Model.TEstablished c q false)) (snd (Tcp.Variants.tstep t s (Tcp.Variants.XEv e))).
Proof. exact Tcp.VariantTheorems.t_progress_negotiate. Qed.
Print Assumptions C05_tr_progress_negotiate.

(* progress, per transport *)
Theorem C05_tr_progress_inbound :
  forall t s g f c i q,
  Tcp.VariantTheorems.treach t s g -> Tcp.Model.lookup f (Tcp.Model.pconn s) = Some (c, Tcp.Model.KInb) ->
  In (Tcp.Model.OEv (Tcp.Model.TEstablished c q true)) (snd (Tcp.Variants.tstep t s (Tcp.Variants.XEv (Tcp.Model.EAns f i (Some q))))).
Proof. exact Tcp.VariantTheorems.t_progress_inbound. Qed.
Print Assumptions C05_tr_progress_inbound.

(* (e) per transport *)
Theorem C05_tr_outbound_ids_from_owner :
  forall t s g c,
  Tcp.VariantTheorems.treachU t s g -> In c (Tcp.Model.g_open g) \/ In c (Tcp.Model.g_neg g) \/ In c (Tcp.Model.g_opened g) -> In c (Tcp.Model.g_used g).
Proof. exact Tcp.VariantTheorems.t_outbound_ids_from_owner. Qed.
Print Assumptions C05_tr_outbound_ids_from_owner.

(* `opened` / `opened_raw` holds exactly the connections announced by ConnectionOpened and not negotiated since *)
Theorem C05_tr_opened_is_unnegotiated :
  forall t s g c,
  Tcp.VariantTheorems.treachU t s g -> (In c (Tcp.Model.opened s) <-> In c (Tcp.Model.g_opened g)).
Proof. exact Tcp.VariantTheorems.t_opened_is_unnegotiated. Qed.
Print Assumptions C05_tr_opened_is_unnegotiated.

(* ... and the only call that removes an id from it is negotiate of that id (an owner that never negotiates keeps the socket in the map for good) *)
Theorem C05_tr_opened_leaves_by_negotiate :
  forall e os g c,
  In c (Tcp.Model.g_opened g) -> ~ In c (Tcp.Model.g_opened (Tcp.Model.gstep e os g)) -> e = Tcp.Model.ENegotiate c.
Proof. exact Tcp.VariantTheorems.opened_leaves_by_negotiate. Qed.
Print Assumptions C05_tr_opened_leaves_by_negotiate.

(* exactly one outcome, bookkeeping model: over a whole history an id is answered by at most one of ConnectionOpened / OpenFailure and by at most one of outbound ConnectionEstablished / DialFailure *)
Theorem C05_tcp_answers_at_most_once :
  forall s g h c,
  Tcp.Once.reachH s g h -> (Tcp.Once.cnt (Tcp.Once.open_ans c) h <= 1)%nat /\ (Tcp.Once.cnt (Tcp.Once.neg_ans c) h <= 1)%nat.
Proof. exact Tcp.Once.tcp_answers_at_most_once. Qed.
Print Assumptions C05_tcp_answers_at_most_once.

(* ... what is still owed has not been answered, and an id is in one phase at a time *)
Theorem C05_tcp_owed_not_answered :
  forall s g h c,
  Tcp.Once.reachH s g h ->
  (In c (Tcp.Model.g_open g) -> Tcp.Once.cnt (Tcp.Once.open_ans c) h = 0%nat /\ Tcp.Once.cnt (Tcp.Once.neg_ans c) h = 0%nat /\ ~ In c (Tcp.Model.g_neg g) /\ ~ In c (Tcp.Model.g_opened g)) /\
  (In c (Tcp.Model.g_neg g) -> Tcp.Once.cnt (Tcp.Once.neg_ans c) h = 0%nat /\ ~ In c (Tcp.Model.g_open g) /\ ~ In c (Tcp.Model.g_opened g)).
Proof. exact Tcp.Once.tcp_owed_not_answered. Qed.
Print Assumptions C05_tcp_owed_not_answered.

(* ... nothing is ever answered for an id the owner did not pass to dial / open *)
Theorem C05_tcp_no_answer_without_call :
  forall s g h c,
  Tcp.Once.reachH s g h -> ~ In c (Tcp.Model.g_used g) -> Tcp.Once.cnt (Tcp.Once.open_ans c) h = 0%nat /\ Tcp.Once.cnt (Tcp.Once.neg_ans c) h = 0%nat.
Proof. exact Tcp.Once.tcp_no_answer_without_call. Qed.
Print Assumptions C05_tcp_no_answer_without_call.

(* exactly one outcome, per transport *)
Theorem C05_tr_answers_at_most_once :
  forall t s g h c,
  Tcp.Once.treachH t s g h -> (Tcp.Once.cnt (Tcp.Once.open_ans c) h <= 1)%nat /\ (Tcp.Once.cnt (Tcp.Once.neg_ans c) h <= 1)%nat.
Proof. exact Tcp.Once.t_answers_at_most_once. Qed.
Print Assumptions C05_tr_answers_at_most_once.

(* ... per transport *)
Theorem C05_tr_owed_not_answered :
  forall t s g h c,
  Tcp.Once.treachH t s g h ->
  (In c (Tcp.Model.g_open g) -> Tcp.Once.cnt (Tcp.Once.open_ans c) h = 0%nat /\ Tcp.Once.cnt (Tcp.Once.neg_ans c) h = 0%nat /\ ~ In c (Tcp.Model.g_neg g) /\ ~ In c (Tcp.Model.g_opened g)) /\
  (In c (Tcp.Model.g_neg g) -> Tcp.Once.cnt (Tcp.Once.neg_ans c) h = 0%nat /\ ~ In c (Tcp.Model.g_open g) /\ ~ In c (Tcp.Model.g_opened g)).
Proof. exact Tcp.Once.t_owed_not_answered. Qed.
Print Assumptions C05_tr_owed_not_answered.

(* ... per transport *)
Theorem C05_tr_no_answer_without_call :
  forall t s g h c,
  Tcp.Once.treachH t s g h -> ~ In c (Tcp.Model.g_used g) -> Tcp.Once.cnt (Tcp.Once.open_ans c) h = 0%nat /\ Tcp.Once.cnt (Tcp.Once.neg_ans c) h = 0%nat.
Proof. exact Tcp.Once.t_no_answer_without_call. Qed.
Print Assumptions C05_tr_no_answer_without_call.

(* malformed / foreign addresses: a dial the transport refuses (Err) changes nothing: no future, no pending_dials entry, nothing owed *)
Theorem C05_tr_refused_dial_no_effect :
  forall t s g c a,
  Tcp.Variants.expect_of t a = None ->
  Tcp.Variants.tstep t s (Tcp.Variants.XDial c a) = (s, [Tcp.Model.ORet false]) /\
  Tcp.Model.gstep (Tcp.Variants.ev_of t (Tcp.Variants.XDial c a)) (snd (Tcp.Variants.tstep t s (Tcp.Variants.XDial c a))) g = g.
Proof. exact Tcp.VariantTheorems.t_refused_dial_no_effect. Qed.
Print Assumptions C05_tr_refused_dial_no_effect.

(* ... and an open none of whose addresses the transport takes is answered by OpenFailure at the very next poll: nothing is stuck *)
Theorem C05_tr_open_unparsable_fails :
  forall t s g c l e,
  Tcp.VariantTheorems.treach t s g -> Tcp.Model.caller_ok g (Tcp.Variants.ev_of t (Tcp.Variants.XOpen c l)) = true -> Tcp.Variants.attempts_of t l = [] -> Tcp.Model.polls e = true ->
  In (Tcp.Model.OEv (Tcp.Model.TOpenFailure c)) (snd (Tcp.Variants.tstep t (fst (Tcp.Variants.tstep t s (Tcp.Variants.XOpen c l))) (Tcp.Variants.XEv e))).
Proof. exact Tcp.VariantTheorems.t_open_unparsable_fails. Qed.
Print Assumptions C05_tr_open_unparsable_fails.

(* never silence, bookkeeping model: from every reachable state the environment has a finite schedule (attempts ending, polls) after which nothing is owed any more: no state in which an answer is owed but nothing can complete *)
Theorem C05_tcp_can_always_settle :
  forall s g,
  Tcp.Theorems.reach s g ->
  exists es, forallb Tcp.Settle.env_ev es = true /\
             Tcp.Theorems.reach (fst (Tcp.Settle.runG s g es)) (snd (Tcp.Settle.runG s g es)) /\
             Tcp.Model.g_open (snd (Tcp.Settle.runG s g es)) = [] /\ Tcp.Model.g_neg (snd (Tcp.Settle.runG s g es)) = [].
Proof. exact Tcp.Settle.tcp_can_always_settle. Qed.
Print Assumptions C05_tcp_can_always_settle.

(* ... and an environment event takes an id out of the owed sets only by emitting its answer: so on that schedule every owed open / negotiate gets its answer (exactly one, with C05_tcp_answers_at_most_once) *)
Theorem C05_tcp_env_removes_only_by_answer :
  forall s g e c,
  Tcp.Settle.env_ev e = true ->
  (In c (Tcp.Model.g_open g) -> ~ In c (Tcp.Model.g_open (Tcp.Model.gstep e (snd (Tcp.Model.step s e)) g)) ->
   exists o, In o (snd (Tcp.Model.step s e)) /\ Tcp.Settle.answers_open c o) /\
  (In c (Tcp.Model.g_neg g) -> ~ In c (Tcp.Model.g_neg (Tcp.Model.gstep e (snd (Tcp.Model.step s e)) g)) ->
   exists o, In o (snd (Tcp.Model.step s e)) /\ Tcp.Settle.answers_neg c o).
Proof. exact Tcp.Settle.tcp_env_removes_only_by_answer. Qed.
Print Assumptions C05_tcp_env_removes_only_by_answer.

(* never silence, per transport: the schedule uses attempts ending and polls only, never the overall deadline that QUIC lacks *)
Theorem C05_tr_can_always_settle :
  forall t s g,
  Tcp.VariantTheorems.treach t s g ->
  exists es, forallb Tcp.Settle.env_ev es = true /\
             Tcp.VariantTheorems.treach t (fst (Tcp.Settle.runG s g es)) (snd (Tcp.Settle.runG s g es)) /\
             Tcp.Model.g_open (snd (Tcp.Settle.runG s g es)) = [] /\ Tcp.Model.g_neg (snd (Tcp.Settle.runG s g es)) = [].
Proof. exact Tcp.Settle.t_can_always_settle. Qed.
Print Assumptions C05_tr_can_always_settle.


(* non-vacuity, WebSocket: dial refuses an address without /p2p and a TCP address; of three addresses
   of an open only the WebSocket one is an attempt, answered by the wrong identity: OpenFailure; a
   second open answered by the named peer: ConnectionOpened, cancel + negotiate, ConnectionEstablished *)
Example C05_ws_history :
  Tcp.Once.tcallers_ok V.C10.Model.TWs Tcp.Model.init Tcp.Model.g0 Tcp.Once.ws_history = true /\
  snd (Tcp.Once.trun V.C10.Model.TWs Tcp.Model.init Tcp.Once.ws_history) =
  [[Tcp.Model.OId 0]; [Tcp.Model.ORet false]; [Tcp.Model.ORet false]; [Tcp.Model.ORet true];
   [Tcp.Model.OEv (Tcp.Model.TOpenFailure 0)]; [Tcp.Model.OId 1]; [Tcp.Model.ORet true];
   [Tcp.Model.OEv (Tcp.Model.TOpened 1)]; []; [Tcp.Model.ORet true];
   [Tcp.Model.OEv (Tcp.Model.TEstablished 1 1 false)]].
Proof. exact Tcp.Once.ws_history_ok. Qed.

(* non-vacuity, QUIC: dial refuses an address without /p2p; a dial answered by the named peer; an open
   none of whose addresses is a QUIC address with /p2p fails at the next poll *)
Example C05_quic_history :
  Tcp.Once.tcallers_ok V.C10.Model.TQuic Tcp.Model.init Tcp.Model.g0 Tcp.Once.quic_history = true /\
  snd (Tcp.Once.trun V.C10.Model.TQuic Tcp.Model.init Tcp.Once.quic_history) =
  [[Tcp.Model.OId 0]; [Tcp.Model.ORet false]; [Tcp.Model.ORet true];
   [Tcp.Model.OEv (Tcp.Model.TEstablished 0 1 false)]; [Tcp.Model.OId 1]; [Tcp.Model.ORet true];
   [Tcp.Model.OEv (Tcp.Model.TOpenFailure 1)]].
Proof. exact Tcp.Once.quic_history_ok. Qed.


(* ---- manager + ANY ONE installed socket transport (coq/C05/TrCompose.v) ----
   The composition of coq/C05/TcpCompose.v does not depend on the installed transport being TCP: the
   same development with the transport tag abstracted (Tg), for configurations in which Tg is the one
   installed transport — in particular WebSocket alone. What the bookkeeping model inside the composed
   system stands for is said by C05_sysT_calls_are_real / C05_sysT_transport_side_is_its_model: the
   model of that transport (coq/Tcp/Variants.v) run on the real trait calls with the canonical
   addresses. Two transports installed at once are not covered (the C05_sys_ and C05_sysT_ theorems are
   single-transport; for TCP + WebSocket together `feas` stays an assumption about the pair, although
   each transport model satisfies its own contract, the C05_tr_ theorems). *)

(* composition with ANY ONE installed transport (tag Tg: TCP or WebSocket): the transport contract is no assumption: every history of outside inputs makes the manager see an event history that satisfies `feas`, and the manager part of the composed run is the manager model run on that history *)
Theorem C05_sysT_feasible :
  forall (Tg : tr) (L : limits),
  (forall t : tr, installed L t = true <-> t = Tg) ->
  forall xs : list TrCompose.xev,
  TrCompose.xfeasible Tg L TrCompose.sys0 xs ->
  feasible L init g0 (TrCompose.sys_trace Tg L TrCompose.sys0 xs) /\
  (TrCompose.s_m (TrCompose.sys_run Tg L TrCompose.sys0 xs), TrCompose.s_g (TrCompose.sys_run Tg L TrCompose.sys0 xs)) =
  lrun L init g0 (TrCompose.sys_trace Tg L TrCompose.sys0 xs).
Proof. exact TrCompose.sys_feasible0. Qed.
Print Assumptions C05_sysT_feasible.

(* ... one input at a time, from any state the coupling invariant holds in *)
Theorem C05_sysT_step :
  forall (Tg : tr) (L : limits),
  (forall t : tr, installed L t = true <-> t = Tg) ->
  forall (st : TrCompose.sys) (x : TrCompose.xev),
  TrCompose.Inv Tg L st ->
  TrCompose.xok L st x ->
  feasible L (TrCompose.s_m st) (TrCompose.s_g st) (TrCompose.sys_evs Tg L st x) /\ TrCompose.Inv Tg L (TrCompose.sys_step Tg L st x).
Proof. exact TrCompose.sys_step_inv. Qed.
Print Assumptions C05_sysT_step.

(* the ledger theorems for manager + the one installed transport, without assuming anything about the transport *)
Theorem C05_sysT_at_most_one_outcome :
  forall (Tg : tr) (L : limits),
  (forall t : tr, installed L t = true <-> t = Tg) ->
  forall xs : list TrCompose.xev,
  TrCompose.xfeasible Tg L TrCompose.sys0 xs -> NoDup (terminals L init (TrCompose.sys_trace Tg L TrCompose.sys0 xs)).
Proof. exact TrCompose.sys_at_most_one_outcome. Qed.
Print Assumptions C05_sysT_at_most_one_outcome.

(* ... no silence *)
Theorem C05_sysT_no_silence :
  forall (Tg : tr) (L : limits),
  (forall t : tr, installed L t = true <-> t = Tg) ->
  forall xs : list TrCompose.xev,
  TrCompose.xfeasible Tg L TrCompose.sys0 xs ->
  let st := TrCompose.sys_run Tg L TrCompose.sys0 xs in
  quiescent (TrCompose.s_m st) (TrCompose.s_g st) ->
  forall (c : N) (p : peer),
  lookup c (g_att (TrCompose.s_g st)) = Some p ->
  In c (g_done (TrCompose.s_g st)) \/ In c (g_super (TrCompose.s_g st)) /\ In p (g_rep (TrCompose.s_g st)) \/ In c (g_limrej (TrCompose.s_g st)).
Proof. exact TrCompose.sys_no_silence. Qed.
Print Assumptions C05_sysT_no_silence.

(* ... no wedged peer *)
Theorem C05_sysT_no_wedge :
  forall (Tg : tr) (L : limits),
  (forall t : tr, installed L t = true <-> t = Tg) ->
  forall xs : list TrCompose.xev,
  TrCompose.xfeasible Tg L TrCompose.sys0 xs ->
  let st := TrCompose.sys_run Tg L TrCompose.sys0 xs in
  quiescent (TrCompose.s_m st) (TrCompose.s_g st) -> forall p : peer, settled (state_of (TrCompose.s_m st) p).
Proof. exact TrCompose.sys_no_wedge. Qed.
Print Assumptions C05_sysT_no_wedge.

(* ... no panic site is reached *)
Theorem C05_sysT_no_stuck :
  forall (Tg : tr) (L : limits),
  (forall t : tr, installed L t = true <-> t = Tg) ->
  forall (xs : list TrCompose.xev) (x : TrCompose.xev) (s : N),
  TrCompose.xfeasible Tg L TrCompose.sys0 (xs ++ [x]) ->
  forall (e : ev) (m : mgr) (g : ghost) (es2 : list ev),
  TrCompose.sys_evs Tg L (TrCompose.sys_run Tg L TrCompose.sys0 xs) x = e :: es2 ->
  (m, g) = (TrCompose.s_m (TrCompose.sys_run Tg L TrCompose.sys0 xs), TrCompose.s_g (TrCompose.sys_run Tg L TrCompose.sys0 xs)) ->
  ~ In (Stuck s) (snd (step L m e)).
Proof. exact TrCompose.sys_no_stuck. Qed.
Print Assumptions C05_sysT_no_stuck.

(* quiescence, read off the transport model's own ledger *)
Theorem C05_sysT_quiescent :
  forall (Tg : tr) (L : limits),
  (forall t : tr, installed L t = true <-> t = Tg) ->
  forall xs : list TrCompose.xev,
  TrCompose.xfeasible Tg L TrCompose.sys0 xs ->
  let st := TrCompose.sys_run Tg L TrCompose.sys0 xs in
  quiescent (TrCompose.s_m st) (TrCompose.s_g st) <->
  TrCompose.TM.g_open (TrCompose.s_tg st) = [] /\ TrCompose.TM.g_neg (TrCompose.s_tg st) = [] /\ accepting (TrCompose.s_m st) = [].
Proof. exact TrCompose.sys_quiescent0. Qed.
Print Assumptions C05_sysT_quiescent.

(* whatever the manager waits for is backed by a pending un-cancelled future of the transport model *)
Theorem C05_sysT_owed_is_pending :
  forall (Tg : tr) (L : limits),
  (forall t : tr, installed L t = true <-> t = Tg) ->
  forall (xs : list TrCompose.xev) (c : conn),
  TrCompose.xfeasible Tg L TrCompose.sys0 xs ->
  let st := TrCompose.sys_run Tg L TrCompose.sys0 xs in
  owed (TrCompose.s_g st) c ->
  (exists (f : N) (rem : list (N * TrCompose.TM.expect)),
     TrCompose.TM.lookup f (TrCompose.TM.praw (TrCompose.s_t st)) = Some c /\
     TrCompose.TM.lookup f (TrCompose.TM.attempts (TrCompose.s_t st)) = Some rem /\ ~ In f (TrCompose.TM.aborted (TrCompose.s_t st))) \/
  (exists (f : N) (k : TrCompose.TM.kind),
     TrCompose.TM.lookup f (TrCompose.TM.pconn (TrCompose.s_t st)) = Some (c, k) /\ TrCompose.TM.is_inb k = false).
Proof. exact TrCompose.sys_owed_is_pending0. Qed.
Print Assumptions C05_sysT_owed_is_pending.

(* ... and there is an allowed network / runtime input whose handling hands the manager an answer for it *)
Theorem C05_sysT_progress :
  forall (Tg : tr) (L : limits),
  (forall t : tr, installed L t = true <-> t = Tg) ->
  forall (xs : list TrCompose.xev) (c : conn),
  TrCompose.xfeasible Tg L TrCompose.sys0 xs ->
  let st := TrCompose.sys_run Tg L TrCompose.sys0 xs in
  owed (TrCompose.s_g st) c ->
  exists n : TrCompose.TM.ev,
    TrCompose.TM.polls n = true /\
    TrCompose.xfeasible Tg L TrCompose.sys0 (xs ++ [TrCompose.XNet n]) /\
    (exists e : ev, In e (TrCompose.sys_evs Tg L st (TrCompose.XNet n)) /\ TrCompose.answers c e).
Proof. exact TrCompose.sys_progress0. Qed.
Print Assumptions C05_sysT_progress.

(* what the bookkeeping model inside the composed system stands for: the model events the composition executes are exactly the images, under the front end of the transport of that tag (coq/Tcp/Variants.v ev_of; TCP -> TcpTransport, WS -> WebSocketTransport), of the REAL trait calls with the canonical addresses of the dialled peer *)
Theorem C05_sysT_calls_are_real :
  forall (Tg : tr) (p : peer) (k : nat) (o : out),
  Tg = TCP \/ Tg = WS -> TrCompose.fwd Tg p k o = map (TrCompose.TV.ev_of (TrCompose.transport_of Tg)) (TrCompose.fwdX Tg p k o).
Proof. exact TrCompose.fwd_real. Qed.
Print Assumptions C05_sysT_calls_are_real.

(* ... so when the manager handles an event the transport side of the composed system is the model of that transport run on the real trait calls *)
Theorem C05_sysT_transport_side_is_its_model :
  forall (Tg : tr) (L : limits) (k : nat) (st : TrCompose.sys) (e : ev),
  Tg = TCP \/ Tg = WS ->
  (TrCompose.s_t (TrCompose.deliver Tg L k st e), TrCompose.s_tg (TrCompose.deliver Tg L k st e)) =
  TrCompose.xrun (TrCompose.transport_of Tg) (TrCompose.s_t st) (TrCompose.s_tg st) (TrCompose.real_calls Tg L k st e).
Proof. exact TrCompose.deliver_real. Qed.
Print Assumptions C05_sysT_transport_side_is_its_model.

(* non-vacuity: WebSocket alone installed: add a /ws address, dial by peer (first address answered by another identity, second by the peer: ConnectionOpened, cancel + negotiate, ConnectionEstablished, accepted), an inbound socket, a dial_address through the handle whose attempt fails; nothing owed at the end *)
Example C05_sysws_history :
  TrCompose.xfeasible WS TrCompose.L_ws TrCompose.sys0 TrCompose.history_ws /\
  TrCompose.sys_trace WS TrCompose.L_ws TrCompose.sys0 TrCompose.history_ws =
  [CmdAddAddr 5 WS; CmdDialPeer 5 [WS] []; TrOpened 0 WS false; TrEstablished 5 0 WS false false; AcceptDone 0 true; AllocConn;
   TrPendingInbound 1 WS; TrEstablished 7 1 WS true false; AcceptDone 1 true; HDialAddr (canon 6 WS) false; TrDialFailure 2 WS 6] /\
  snd (run TrCompose.L_ws init (TrCompose.sys_trace WS TrCompose.L_ws TrCompose.sys0 TrCompose.history_ws)) =
  [[]; [CallOpen 0 WS; Ret RET_OK]; [CallCancel 0 WS; CallNegotiate 0 WS]; [CallAccept 0 WS]; [EvEstablished 5 0]; [
   Ret (RET_ALLOC + 1)]; [CallAcceptPending 1 WS]; [CallAccept 1 WS]; [EvEstablished 7 1]; [Ret RET_OK; CallDial 2 WS; Logged RET_OK];
   [ProtoDialFailure 6; EvDialFailure 2 6]] /\
  quiescent (TrCompose.s_m (TrCompose.sys_run WS TrCompose.L_ws TrCompose.sys0 TrCompose.history_ws))
    (TrCompose.s_g (TrCompose.sys_run WS TrCompose.L_ws TrCompose.sys0 TrCompose.history_ws)).
Proof. exact TrCompose.history_ws_ok. Qed.


(* ---- manager + TCP + WebSocket, BOTH installed (coq/C05/TwoCompose.v, TwoEvents.v, TwoCmd.v, TwoTheorems.v) ----
   The configuration the manager actually runs in: one instance of the transport model per transport
   (side TCP, side WS of TwoCompose.sys), the shared connection-id counter kept in step (an id the
   manager draws is a draw on both models; an id one transport draws for an inbound socket is the
   manager's AllocConn and a draw on the other model), every call `Call.. c t` of the manager executed
   by the model of transport t, every event a poll of one model emits handled by the manager with its
   calls on BOTH models executed before the next event. dial(peer) opens ONE id on both transports;
   ConnectionOpened from one transport cancels on both and negotiates on the winner. The coupling
   invariant (TwoCompose.Inv / BInv): per transport, its open ledger is the manager's open ledger for
   that tag, what it owes in the negotiate phase is owed in the manager's (unsplit) negotiate ledger,
   same peer named, same counter; across transports, the two never owe the same id and together they
   cover the manager's negotiate ledger. Inputs from outside: XCmd (user / protocol side), XNet t
   (network / runtime on transport t); xok asks only for the clauses of `feas` about the address store,
   the protocols and the calls that cannot fail in the models. *)

(* the transport contract is no assumption for the pair: every history of outside inputs makes the manager see an event history that satisfies `feas`, and the manager part of the composed run is the manager model run on that history *)
Theorem C05_sys2_feasible :
  forall L : limits,
  installed L TCP = true /\ installed L WS = true ->
  forall xs : list TwoCompose.xev,
  TwoCompose.xfeasible L TwoCompose.sys0 xs ->
  feasible L init g0 (TwoCompose.sys_trace L TwoCompose.sys0 xs) /\
  (TwoCompose.s_m (TwoCompose.sys_run L TwoCompose.sys0 xs), TwoCompose.s_g (TwoCompose.sys_run L TwoCompose.sys0 xs)) =
  lrun L init g0 (TwoCompose.sys_trace L TwoCompose.sys0 xs).
Proof. exact TwoTheorems.sys_feasible0. Qed.
Print Assumptions C05_sys2_feasible.

(* ... one input at a time, from any state the coupling invariant holds in *)
Theorem C05_sys2_step :
  forall L : limits,
  installed L TCP = true /\ installed L WS = true ->
  forall (st : TwoCompose.sys) (x : TwoCompose.xev),
  TwoCompose.Inv L st ->
  TwoCompose.xok L st x ->
  feasible L (TwoCompose.s_m st) (TwoCompose.s_g st) (TwoCompose.sys_evs L st x) /\ TwoCompose.Inv L (TwoCompose.sys_step L st x).
Proof. exact TwoTheorems.sys_step_inv. Qed.
Print Assumptions C05_sys2_step.

(* the ledger theorems for manager + TCP + WebSocket, without assuming anything about the transports: at most one terminal output per connection id *)
Theorem C05_sys2_at_most_one_outcome :
  forall L : limits,
  installed L TCP = true /\ installed L WS = true ->
  forall xs : list TwoCompose.xev,
  TwoCompose.xfeasible L TwoCompose.sys0 xs -> NoDup (terminals L init (TwoCompose.sys_trace L TwoCompose.sys0 xs)).
Proof. exact TwoTheorems.sys_at_most_one_outcome. Qed.
Print Assumptions C05_sys2_at_most_one_outcome.

(* ... no silence (the same two finding classes as in C05_no_silence: superseded by a reported connection of the same peer, limit-rejected outbound connection) *)
Theorem C05_sys2_no_silence :
  forall L : limits,
  installed L TCP = true /\ installed L WS = true ->
  forall xs : list TwoCompose.xev,
  TwoCompose.xfeasible L TwoCompose.sys0 xs ->
  let st := TwoCompose.sys_run L TwoCompose.sys0 xs in
  quiescent (TwoCompose.s_m st) (TwoCompose.s_g st) ->
  forall (c : N) (p : peer),
  lookup c (g_att (TwoCompose.s_g st)) = Some p ->
  In c (g_done (TwoCompose.s_g st)) \/ In c (g_super (TwoCompose.s_g st)) /\ In p (g_rep (TwoCompose.s_g st)) \/ In c (g_limrej (TwoCompose.s_g st)).
Proof. exact TwoTheorems.sys_no_silence. Qed.
Print Assumptions C05_sys2_no_silence.

(* ... no wedged peer *)
Theorem C05_sys2_no_wedge :
  forall L : limits,
  installed L TCP = true /\ installed L WS = true ->
  forall xs : list TwoCompose.xev,
  TwoCompose.xfeasible L TwoCompose.sys0 xs ->
  let st := TwoCompose.sys_run L TwoCompose.sys0 xs in
  quiescent (TwoCompose.s_m st) (TwoCompose.s_g st) -> forall p : peer, settled (state_of (TwoCompose.s_m st) p).
Proof. exact TwoTheorems.sys_no_wedge. Qed.
Print Assumptions C05_sys2_no_wedge.

(* ... no panic site is reached *)
Theorem C05_sys2_no_stuck :
  forall L : limits,
  installed L TCP = true /\ installed L WS = true ->
  forall (xs : list TwoCompose.xev) (x : TwoCompose.xev) (s : N),
  TwoCompose.xfeasible L TwoCompose.sys0 (xs ++ [x]) ->
  forall (e : ev) (m : mgr) (g : ghost) (es2 : list ev),
  TwoCompose.sys_evs L (TwoCompose.sys_run L TwoCompose.sys0 xs) x = e :: es2 ->
  (m, g) = (TwoCompose.s_m (TwoCompose.sys_run L TwoCompose.sys0 xs), TwoCompose.s_g (TwoCompose.sys_run L TwoCompose.sys0 xs)) ->
  ~ In (Stuck s) (snd (step L m e)).
Proof. exact TwoTheorems.sys_no_stuck. Qed.
Print Assumptions C05_sys2_no_stuck.

(* quiescence, read off the two transport models' own ledgers *)
Theorem C05_sys2_quiescent :
  forall L : limits,
  installed L TCP = true /\ installed L WS = true ->
  forall xs : list TwoCompose.xev,
  TwoCompose.xfeasible L TwoCompose.sys0 xs ->
  let st := TwoCompose.sys_run L TwoCompose.sys0 xs in
  quiescent (TwoCompose.s_m st) (TwoCompose.s_g st) <->
  (forall u : tr,
   TwoCompose.tagged u ->
   TwoCompose.TM.g_open (TwoCompose.t_g (TwoCompose.side st u)) = [] /\
   TwoCompose.TM.g_neg (TwoCompose.t_g (TwoCompose.side st u)) = []) /\
  accepting (TwoCompose.s_m st) = [].
Proof. exact TwoTheorems.sys_quiescent0. Qed.
Print Assumptions C05_sys2_quiescent.

(* whatever the manager waits for is backed by a pending un-cancelled future of one of the two transport models *)
Theorem C05_sys2_owed_is_pending :
  forall L : limits,
  installed L TCP = true /\ installed L WS = true ->
  forall (xs : list TwoCompose.xev) (c : conn),
  TwoCompose.xfeasible L TwoCompose.sys0 xs ->
  let st := TwoCompose.sys_run L TwoCompose.sys0 xs in
  owed (TwoCompose.s_g st) c ->
  exists u : tr,
    TwoCompose.tagged u /\
    ((exists (f : N) (rem : list (N * TwoCompose.TM.expect)),
        TwoCompose.TM.lookup f (TwoCompose.TM.praw (TwoCompose.t_s (TwoCompose.side st u))) = Some c /\
        TwoCompose.TM.lookup f (TwoCompose.TM.attempts (TwoCompose.t_s (TwoCompose.side st u))) = Some rem /\
        ~ In f (TwoCompose.TM.aborted (TwoCompose.t_s (TwoCompose.side st u)))) \/
     (exists (f : N) (k : TwoCompose.TM.kind),
        TwoCompose.TM.lookup f (TwoCompose.TM.pconn (TwoCompose.t_s (TwoCompose.side st u))) = Some (c, k) /\
        TwoCompose.TM.is_inb k = false)).
Proof. exact TwoTheorems.sys_owed_is_pending0. Qed.
Print Assumptions C05_sys2_owed_is_pending.

(* ... and there is an allowed network / runtime input on one of the two transports whose handling hands the manager an answer for it *)
Theorem C05_sys2_progress :
  forall L : limits,
  installed L TCP = true /\ installed L WS = true ->
  forall (xs : list TwoCompose.xev) (c : conn),
  TwoCompose.xfeasible L TwoCompose.sys0 xs ->
  let st := TwoCompose.sys_run L TwoCompose.sys0 xs in
  owed (TwoCompose.s_g st) c ->
  exists (u : tr) (n : TwoCompose.TM.ev),
    TwoCompose.tagged u /\
    TwoCompose.TM.polls n = true /\
    TwoCompose.xfeasible L TwoCompose.sys0 (xs ++ [TwoCompose.XNet u n]) /\
    (exists e : ev, In e (TwoCompose.sys_evs L st (TwoCompose.XNet u n)) /\ TrCompose.answers c e).
Proof. exact TwoTheorems.sys_progress0. Qed.
Print Assumptions C05_sys2_progress.

(* the three copies of the shared connection-id counter agree in every reachable state; the two transports never owe a negotiate-phase answer / an inbound answer for the same id *)
Theorem C05_sys2_counters_in_step :
  forall L : limits,
  installed L TCP = true /\ installed L WS = true ->
  forall xs : list TwoCompose.xev,
  TwoCompose.xfeasible L TwoCompose.sys0 xs ->
  let st := TwoCompose.sys_run L TwoCompose.sys0 xs in
  (forall u : tr, TwoCompose.tagged u -> TwoCompose.TM.ctr (TwoCompose.t_s (TwoCompose.side st u)) = next_conn (TwoCompose.s_m st)) /\
  (forall c : N, In c (TwoCompose.TM.g_neg (TwoCompose.t_g (TwoCompose.side st TCP))) ->
                 ~ In c (TwoCompose.TM.g_neg (TwoCompose.t_g (TwoCompose.side st WS)))) /\
  (forall c : N, In c (TwoCompose.TM.g_inb (TwoCompose.t_g (TwoCompose.side st TCP))) ->
                 ~ In c (TwoCompose.TM.g_inb (TwoCompose.t_g (TwoCompose.side st WS)))).
Proof. exact TwoTheorems.sys_counters0. Qed.
Print Assumptions C05_sys2_counters_in_step.

(* what the two bookkeeping models inside the composed system stand for: when the manager handles an event, side u is the model of the transport of tag u (TCP -> TcpTransport, WS -> WebSocketTransport; coq/Tcp/Variants.v) run on the REAL trait calls: the draws of the shared counter and the calls with the canonical addresses of the dialled peer (the calls themselves: C05_sysT_calls_are_real) *)
Theorem C05_sys2_sides_are_their_models :
  forall (L : limits) (src : option tr) (k : tr -> nat) (st : TwoCompose.sys) (e : ev) (u : tr),
  TwoCompose.tagged u ->
  TwoCompose.side (TwoCompose.deliver L src k st e) u =
  TwoTheorems.xexec (TrCompose.transport_of u) (TwoCompose.side st u) (TwoTheorems.real_calls L src k u (TwoCompose.s_m st) e).
Proof. exact TwoTheorems.side_real. Qed.
Print Assumptions C05_sys2_sides_are_their_models.

(* non-vacuity: both installed: dial(peer 5) opens id 0 on TCP and on WS; WS answers first with another identity (OpenFailure from WS, silent), TCP completes with peer 5 (ConnectionOpened, cancel, negotiate, ConnectionEstablished, accepted); a socket arrives at the WS listener (id 1 drawn by WS, the other counters follow); dial_address on TCP gets id 2 and fails (DialFailure); peer 8 is dialled through the handle on both transports, TCP wins while WS is still trying: cancel on TCP AND WS; nothing owed at the end, the cancelled WS future is gone, the three counters agree *)
Example C05_sys2_history :
  TwoCompose.xfeasible TwoTheorems.L_both TwoCompose.sys0 TwoTheorems.history2 /\
  TwoCompose.sys_trace TwoTheorems.L_both TwoCompose.sys0 TwoTheorems.history2 =
    [CmdAddAddr 5 TCP; CmdAddAddr 5 WS; CmdDialPeer 5 [TCP; WS] [];
     TrOpenFailure 0 WS 5; TrOpened 0 TCP false; TrEstablished 5 0 TCP false false; AcceptDone 0 true;
     AllocConn; TrPendingInbound 1 WS; TrEstablished 7 1 WS true false; AcceptDone 1 true;
     HDialAddr (canon 6 TCP) false; TrDialFailure 2 TCP 6;
     CmdAddAddr 8 TCP; CmdAddAddr 8 WS; HDialPeer 8 [TCP; WS] [] false;
     TrOpened 3 TCP false; TrEstablished 8 3 TCP false false; AcceptDone 3 true] /\
  snd (run TwoTheorems.L_both init (TwoCompose.sys_trace TwoTheorems.L_both TwoCompose.sys0 TwoTheorems.history2)) =
    [[]; []; [CallOpen 0 TCP; CallOpen 0 WS; Ret RET_OK]; [];
     [CallCancel 0 TCP; CallNegotiate 0 TCP]; [CallAccept 0 TCP]; [EvEstablished 5 0];
     [Ret (RET_ALLOC + 1)]; [CallAcceptPending 1 WS]; [CallAccept 1 WS]; [EvEstablished 7 1];
     [Ret RET_OK; CallDial 2 TCP; Logged RET_OK]; [ProtoDialFailure 6; EvDialFailure 2 6];
     []; []; [Ret RET_OK; CallOpen 3 TCP; CallOpen 3 WS; Logged RET_OK];
     [CallCancel 3 TCP; CallCancel 3 WS; CallNegotiate 3 TCP]; [CallAccept 3 TCP]; [EvEstablished 8 3]] /\
  (let st := TwoCompose.sys_run TwoTheorems.L_both TwoCompose.sys0 TwoTheorems.history2 in
   quiescent (TwoCompose.s_m st) (TwoCompose.s_g st) /\
   TwoCompose.TM.praw (TwoCompose.t_s (TwoCompose.side st WS)) = [] /\
   (TwoCompose.TM.ctr (TwoCompose.t_s (TwoCompose.side st TCP)), TwoCompose.TM.ctr (TwoCompose.t_s (TwoCompose.side st WS)),
    next_conn (TwoCompose.s_m st)) = (4, 4, 4)).
Proof. exact TwoTheorems.history2_ok. Qed.
