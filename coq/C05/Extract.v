From Coq Require Import ExtrOcamlBasic.
From V.C05 Require Import Glue.
Extraction Language OCaml.
Extraction "c05_model.ml" run_case prop_ok known_class.
