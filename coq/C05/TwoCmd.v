(* C05 — manager ⊗ TCP model ⊗ WebSocket model (coq/C05/TwoCompose.v): a request of the user /
   protocol side. A dial request draws ONE connection id and may hand it to several transports
   (dial(peer): open(id, addresses of that kind) on every transport the chosen addresses span;
   dial_address: dial(id, address) on the one transport the address is routed to); each transport
   model sees the draw and at most one call that uses the id just drawn. *)
From Coq Require Import List Arith NArith Bool Lia.
From Coq Require Import ZifyBool ZifyNat ZifyN.
From V.C10 Require Model.
From V.Mgr Require Import DialShape Model Caps Ledger LedgerInv Calls.
From V.Tcp Require Model Proofs Theorems Variants VariantTheorems.
From V.C05 Require TcpSide TrCompose.
From V.C05 Require Import TwoCompose.
Import ListNotations.
Open Scope N_scope.

Arguments N.add : simpl never.
Arguments N.sub : simpl never.
Arguments N.eqb : simpl never.
Arguments N.leb : simpl never.
Arguments N.ltb : simpl never.
Arguments N.of_nat : simpl never.
Arguments N.to_nat : simpl never.
Arguments TM.put : simpl never.
Arguments TM.lookup : simpl never.
Arguments TM.delk : simpl never.
Arguments TM.add : simpl never.
Arguments TM.del : simpl never.
Arguments TM.mem : simpl never.

(* ---------- which calls of a dial step reach transport u: one new id, possibly on several
   transports, at most one call per transport ---------- *)
Lemma newids_nil u p k os :
  Forall TR.cmdout os -> newids u os = [] ->
  flat_map (TR.fwd u p k) os = [] /\ (forall x, ~ In (CallOpen x u) os) /\ (forall x, ~ In (CallDial x u) os).
Proof.
  intros K. induction K as [|o r Ho Hr IH]; intros Hn; [split; [reflexivity | split; intros x []]|].
  assert (Hoth : newids u (o :: r) = newids u r -> TR.fwd u p k o = [] ->
                 (forall x, o <> CallOpen x u) -> (forall x, o <> CallDial x u) ->
                 flat_map (TR.fwd u p k) (o :: r) = [] /\
                 (forall x, ~ In (CallOpen x u) (o :: r)) /\ (forall x, ~ In (CallDial x u) (o :: r))).
  { intros En Ef N1 N2. rewrite En in Hn. destruct (IH Hn) as (F1 & F2 & F3).
    cbn [flat_map]. rewrite Ef, F1. split; [reflexivity|].
    split; intros x [E|H]; [exact (N1 x E) | exact (F2 x H) | exact (N2 x E) | exact (F3 x H)]. }
  destruct o; cbn [TR.cmdout] in Ho; try contradiction.
  - cbn [newids flat_map] in Hn. fold (newids u r) in Hn.
    destruct (t =? u) eqn:E; [discriminate|]. apply Hoth.
    + cbn [newids flat_map]. rewrite E. reflexivity.
    + cbn [TR.fwd]. rewrite E. reflexivity.
    + intros x [= _ ->]. lia.
    + intros x [=].
  - cbn [newids flat_map] in Hn. fold (newids u r) in Hn.
    destruct (t =? u) eqn:E; [discriminate|]. apply Hoth.
    + cbn [newids flat_map]. rewrite E. reflexivity.
    + cbn [TR.fwd]. rewrite E. reflexivity.
    + intros x [=].
    + intros x [= _ ->]. lia.
  - apply Hoth; try reflexivity; intros x [=].
  - apply Hoth; try reflexivity; intros x [=].
  - apply Hoth; try reflexivity; intros x [=].
  - apply Hoth; try reflexivity; intros x [=].
Qed.

Lemma calls_shape u p k c0 os :
  Forall TR.cmdout os ->
  (forall x t, In (CallOpen x t) os \/ In (CallDial x t) os -> x = c0) ->
  (length (newids u os) <= 1)%nat ->
  (flat_map (TR.fwd u p k) os = [] /\
   (forall x, ~ In (CallOpen x u) os) /\ (forall x, ~ In (CallDial x u) os)) \/
  (flat_map (TR.fwd u p k) os = [TM.EOpen c0 (repeat (Some p) (S k))] /\
   In (CallOpen c0 u) os /\ (forall x, ~ In (CallDial x u) os)) \/
  (flat_map (TR.fwd u p k) os = [TM.EDial c0 true (Some p)] /\
   In (CallDial c0 u) os /\ (forall x, ~ In (CallOpen x u) os)).
Proof.
  intros K. induction K as [|o r Ho Hr IH]; intros Hid Hn; [left; repeat split; auto|].
  assert (Hid' : forall x t, In (CallOpen x t) r \/ In (CallDial x t) r -> x = c0).
  { intros x t [H|H]; apply (Hid x t); [left | right]; now right. }
  assert (Hrest : forall F : Prop, (newids u (o :: r) = newids u r) -> TR.fwd u p k o = [] ->
            (forall x, o <> CallOpen x u) -> (forall x, o <> CallDial x u) ->
            (flat_map (TR.fwd u p k) (o :: r) = [] /\
             (forall x, ~ In (CallOpen x u) (o :: r)) /\ (forall x, ~ In (CallDial x u) (o :: r))) \/
            (flat_map (TR.fwd u p k) (o :: r) = [TM.EOpen c0 (repeat (Some p) (S k))] /\
             In (CallOpen c0 u) (o :: r) /\ (forall x, ~ In (CallDial x u) (o :: r))) \/
            (flat_map (TR.fwd u p k) (o :: r) = [TM.EDial c0 true (Some p)] /\
             In (CallDial c0 u) (o :: r) /\ (forall x, ~ In (CallOpen x u) (o :: r)))).
  { intros _ En Ef N1 N2. rewrite En in Hn. cbn [flat_map]. rewrite Ef. cbn [app].
    destruct (IH Hid' Hn) as [(F1 & F2 & F3)|[(F1 & F2 & F3)|(F1 & F2 & F3)]].
    - left. repeat split; [exact F1 | |]; intros x [E|H]; [exact (N1 x E) | exact (F2 x H) | exact (N2 x E) | exact (F3 x H)].
    - right. left. repeat split; [exact F1 | now right |]. intros x [E|H]; [exact (N2 x E) | exact (F3 x H)].
    - right. right. repeat split; [exact F1 | now right |]. intros x [E|H]; [exact (N1 x E) | exact (F3 x H)]. }
  destruct o; cbn [TR.cmdout] in Ho; try contradiction.
  - (* CallOpen c t *)
    assert (c = c0) as -> by (apply (Hid c t); left; now left).
    destruct (t =? u) eqn:E.
    + assert (t = u) by lia. subst t.
      cbn [newids flat_map] in Hn. rewrite E in Hn. cbn [app length] in Hn. fold (newids u r) in Hn.
      assert (Hr0 : newids u r = []) by (destruct (newids u r); [reflexivity | cbn in Hn; lia]).
      destruct (newids_nil u p k r Hr Hr0) as (F1 & F2 & F3).
      right. left. cbn [flat_map TR.fwd]. rewrite E, F1. repeat split; [now left|].
      intros x [[=]|H]. exact (F3 x H).
    + apply (Hrest True).
      * cbn [newids flat_map]. rewrite E. reflexivity.
      * cbn [TR.fwd]. rewrite E. reflexivity.
      * intros x [= _ ->]. lia.
      * intros x [=].
  - (* CallDial c t *)
    assert (c = c0) as -> by (apply (Hid c t); right; now left).
    destruct (t =? u) eqn:E.
    + assert (t = u) by lia. subst t.
      cbn [newids flat_map] in Hn. rewrite E in Hn. cbn [app length] in Hn. fold (newids u r) in Hn.
      assert (Hr0 : newids u r = []) by (destruct (newids u r); [reflexivity | cbn in Hn; lia]).
      destruct (newids_nil u p k r Hr Hr0) as (F1 & F2 & F3).
      right. right. cbn [flat_map TR.fwd]. rewrite E, F1. repeat split; [now left|].
      intros x [[=]|H]. exact (F2 x H).
    + apply (Hrest True).
      * cbn [newids flat_map]. rewrite E. reflexivity.
      * cbn [TR.fwd]. rewrite E. reflexivity.
      * intros x [=].
      * intros x [= _ ->]. lia.
  - apply (Hrest True); try reflexivity; intros x [=].
  - apply (Hrest True); try reflexivity; intros x [=].
  - apply (Hrest True); try reflexivity; intros x [=].
  - apply (Hrest True); try reflexivity; intros x [=].
Qed.

(* what a dial step does to the ledger of transport u's contract *)
Lemma cmd_side u x p k c0 d os :
  TT.reach (t_s x) (t_g x) -> c0 = TM.g_ctr (t_g x) ->
  Forall TR.cmdout os ->
  (forall y t, In (CallOpen y t) os \/ In (CallDial y t) os -> y = c0) ->
  (length (newids u os) <= 1)%nat ->
  (existsb new_id os = true -> d = 1%nat) ->
  let x' := exec x (repeat TM.EDraw d ++ flat_map (TR.fwd u p k) os) in
  TT.reach (t_s x') (t_g x') /\
  (forall c, In c (TM.g_open (t_g x')) <-> In (CallOpen c u) os \/ In c (TM.g_open (t_g x))) /\
  (forall c, In c (TM.g_neg (t_g x')) <-> In (CallDial c u) os \/ In c (TM.g_neg (t_g x))) /\
  TM.g_inb (t_g x') = TM.g_inb (t_g x) /\
  TM.g_ctr (t_g x') = TM.g_ctr (t_g x) + N.of_nat d /\
  (forall c, c <> c0 -> TM.lookup c (TM.g_att (t_g x')) = TM.lookup c (TM.g_att (t_g x))) /\
  (In (CallOpen c0 u) os \/ In (CallDial c0 u) os ->
     exists es, TM.lookup c0 (TM.g_att (t_g x')) = Some es /\ es <> [] /\ forall e, In e es -> e = Some p).
Proof.
  intros R Hc0 K Hid On Hd. cbn zeta.
  assert (Hnew : forall o, In o os -> new_id o = true -> d = 1%nat).
  { intros o Ho Hn. apply Hd. apply existsb_exists. eauto. }
  destruct (calls_shape u p k c0 os K Hid On) as [(F1 & F2 & F3)|[(F1 & F2 & F3)|(F1 & F2 & F3)]]; rewrite F1.
  - (* no call on u: the counter may have moved *)
    rewrite app_nil_r. destruct (tin_draws x d R) as (R' & Q1 & Q2 & Q3 & Q4 & Q5). cbn zeta in *.
    split; [exact R'|]. split; [intros c; rewrite Q1; split; [auto | intros [H|H]; [destruct (F2 c H) | exact H]]|].
    split; [intros c; rewrite Q2; split; [auto | intros [H|H]; [destruct (F3 c H) | exact H]]|].
    split; [exact Q3|]. split; [exact Q5|]. split; [intros c _; now rewrite Q4|].
    intros [H|H]; [destruct (F2 _ H) | destruct (F3 _ H)].
  - (* open(c0, ..) on u *)
    assert (d = 1%nat) as -> by (exact (Hnew _ F2 eq_refl)). change (repeat TM.EDraw 1) with [TM.EDraw]. cbn [app].
    destruct (TS.draw_open (t_s x) (t_g x) c0 (repeat (Some p) (S k)) R Hc0) as (R' & Q1 & Q2 & Q3 & Q4 & Q5).
    cbn zeta in *. unfold exec. cbn [t_s t_g].
    split; [exact R'|]. split.
    { intros c. rewrite Q1. cbn [In]. split.
      - intros [<-|H]; [now left | now right].
      - intros [H|H]; [left; symmetry; apply (Hid c u); now left | now right]. }
    split; [intros c; rewrite Q2; split; [auto | intros [H|H]; [destruct (F3 c H) | exact H]]|].
    split; [exact Q3|]. split; [rewrite Q5; reflexivity|].
    split; [intros c Hne; rewrite Q4; apply TP.lookup_put_ne; congruence|].
    intros _. rewrite Q4, TP.lookup_put_eq. eexists. split; [reflexivity|]. split; [discriminate|].
    intros e He. now apply repeat_spec in He.
  - (* dial(c0, ..) on u *)
    assert (d = 1%nat) as -> by (exact (Hnew _ F2 eq_refl)). change (repeat TM.EDraw 1) with [TM.EDraw]. cbn [app].
    destruct (TS.draw_dial (t_s x) (t_g x) c0 (Some p) R Hc0) as (R' & Q1 & Q2 & Q3 & Q4 & Q5).
    cbn zeta in *. unfold exec. cbn [t_s t_g].
    split; [exact R'|].
    split; [intros c; rewrite Q1; split; [auto | intros [H|H]; [destruct (F3 c H) | exact H]]|].
    split.
    { intros c. rewrite Q2. cbn [In]. split.
      - intros [<-|H]; [now left | now right].
      - intros [H|H]; [left; symmetry; apply (Hid c u); now right | now right]. }
    split; [exact Q3|]. split; [rewrite Q5; reflexivity|].
    split; [intros c Hne; rewrite Q4; apply TP.lookup_put_ne; congruence|].
    intros _. rewrite Q4, TP.lookup_put_eq. eexists. split; [reflexivity|]. split; [discriminate|].
    intros e [<-|[]]. reflexivity.
Qed.

(* the attempts recorded by the step: the drawn id with the named peer, or nothing new *)
Lemma gstep_att_cmd e os g c0 x q :
  Forall TR.cmdout os ->
  (forall y t, In (CallOpen y t) os \/ In (CallDial y t) os -> y = c0) ->
  lookup x (g_att (gstep e os g)) = Some q ->
  lookup x (g_att g) = Some q \/ (x = c0 /\ q = TR.tgt e).
Proof.
  intros K Hid. unfold gstep, TR.tgt. cbn [g_att].
  set (l := map fst (flat_map out_open os) ++ flat_map out_dialneg os).
  assert (Hl : forall y, In y l -> y = c0).
  { intros y Hy. unfold l in Hy. apply in_app_or in Hy. destruct Hy as [Hy|Hy].
    - apply in_map_iff in Hy. destruct Hy as ([y' t] & <- & Hy). apply TR.in_fm_open in Hy. apply (Hid y' t). now left.
    - apply TR.in_fm_dialneg in Hy. destruct Hy as (t & [Hy|Hy]); [apply (Hid y t); now right|].
      rewrite Forall_forall in K. destruct (K _ Hy). }
  destruct (ev_target e) as [p|]; [|cbn [app]; auto].
  destruct (ret_ok os); [|cbn [app]; auto].
  destruct l as [|y r]; cbn [first1 map app]; [auto|].
  cbn [lookup]. destruct (y =? x) eqn:E; [|auto].
  intros [= <-]. right. split; [|reflexivity]. rewrite <- (Hl y (or_introl eq_refl)). lia.
Qed.

Section Compose.
Variable L : limits.
Hypothesis both : installed L TCP = true /\ installed L WS = true.

(* dial(peer) calls open only; dial_address calls dial on one transport *)
Lemma open_calls_no_dial c ts fl x t : ~ In (CallDial x t) (fst (open_calls L c ts fl)).
Proof. intros H. exact (open_calls_kinds L c ts fl _ H). Qed.

Lemma dial_peer_no_dial m p ts fl x t : ~ In (CallDial x t) (snd (do_dial_peer L m p ts fl)).
Proof.
  unfold do_dial_peer. destruct (limit_reached _ _); [intros [E|[]]; discriminate|].
  destruct (p =? LOCAL); [intros [E|[]]; discriminate|].
  destruct (can_dial _); try (intros [E|[]]; discriminate). destruct (is_nil _); [intros [E|[]]; discriminate|].
  pose proof (open_calls_no_dial (next_conn m) ts fl x t) as H.
  destruct (open_calls L (next_conn m) ts fl) as [calls ok]. cbn [fst] in H.
  destruct ok; cbn [snd]; rewrite in_app_iff; cbn [In]; intros [Hin|[E|[]]]; try discriminate; exact (H Hin).
Qed.

Lemma dial_shape_dial_tag m a f x t x' t' :
  In (CallDial x t) (snd (do_dial_shape L m a f)) -> In (CallDial x' t') (snd (do_dial_shape L m a f)) -> t = t'.
Proof.
  assert (Hd : forall p u y v, In (CallDial y v) (snd (do_dial_addr L m p u a f)) -> v = u).
  { intros p u y v. unfold do_dial_addr. destruct (negb _); [intros [E|[]]; discriminate|].
    destruct (can_dial _); try (intros [E|[]]; discriminate).
    destruct f; cbn [snd In]; intros [[= _ ->]|[E|[]]]; try discriminate; reflexivity. }
  unfold do_dial_shape. destruct (limit_reached _ _); [intros [E|[]]; discriminate|].
  destruct (dial_shape LISTEN a) as [code|q|q]; [intros [E|[]]; discriminate| |];
    intros H1 H2; rewrite (Hd _ _ _ _ H1), (Hd _ _ _ _ H2); reflexivity.
Qed.

Lemma cmd_dial_tag m e x t x' t' :
  TR.is_cmd e = true ->
  In (CallDial x t) (snd (step L m e)) -> In (CallDial x' t') (snd (step L m e)) -> t = t'.
Proof.
  destruct e as [p ts fl|p u f|p u|c u pa|c u f|c u pa|p c u lst f|c u|c ok|p c| |a|p ts fl clog|a clog];
    try discriminate; intros _; cbn [step].
  - intros H. destruct (dial_peer_no_dial _ _ _ _ _ _ H).
  - apply dial_shape_dial_tag.
  - intros [].
  - intros H. pose proof (TR.cmd_kinds L m (AcceptDone c ok) eq_refl) as K. rewrite Forall_forall in K.
    unfold do_accept_done in H. destruct (lookup c (accepting m)) as [[q b]|]; [|destruct H].
    destruct ok; cbn [snd In] in H; [destruct H as [E|[]]; discriminate|]. destruct (do_closed _ q c). destruct H.
  - intros H. destruct (do_closed m p c) as [m1 rep]. destruct rep; cbn [snd In] in H; [destruct H as [E|[]]; discriminate | destruct H].
  - apply dial_shape_dial_tag.
  - unfold do_hdial_peer. destruct (handle_gate m p); try (intros [E|[]]; discriminate).
    destruct clog; [intros [E|[]]; discriminate|].
    pose proof (dial_peer_no_dial m p ts fl x t) as N. destruct (do_dial_peer L m p ts fl) as [m1 os]. cbn [snd In] in *.
    intros [E|H]; [discriminate|]. destruct (N (TR.in_demote_fresh _ _ t H eq_refl)).
  - unfold do_hdial_addr. destruct (negb _); [intros [E|[]]; discriminate|]. destruct clog; [intros [E|[]]; discriminate|].
    pose proof (dial_shape_dial_tag m a false x t x' t') as N. destruct (do_dial_shape L m a false) as [m1 os]. cbn [snd In] in *.
    intros [E|H1] [E'|H2]; try discriminate.
    exact (N (TR.in_demote_fresh _ _ t H1 eq_refl) (TR.in_demote_fresh _ _ t' H2 eq_refl)).
Qed.

Lemma ndraws_cmd src u e m m' : TR.is_cmd e = true -> ndraws src u e m m' = N.to_nat (next_conn m' - next_conn m).
Proof. destruct e; try discriminate; reflexivity. Qed.

(* a request of the user / protocol side *)
Lemma deliver_cmd st e k :
  Inv L st -> TR.is_cmd e = true -> feas L (s_m st) (s_g st) e -> Inv L (deliver L None k st e).
Proof.
  intros (I & Hs & (G1 & G2 & G3)) Hc Hf.
  set (m := s_m st) in *. set (g := s_g st) in *.
  pose proof (linv_step L m g e I Hf) as I'.
  pose proof (step_counter L m e) as Cn. cbn zeta in Cn. destruct Cn as (Cn1 & Cn2 & _ & _).
  pose proof (TR.cmd_kinds L m e Hc) as K.
  destruct (TR.cmd_ans e Hc) as [Hao Han].
  set (m' := fst (step L m e)) in *. set (os := snd (step L m e)) in *.
  set (c0 := next_conn m).
  set (d := N.to_nat (next_conn m' - next_conn m)).
  pose proof (TR.cmdout_no_cancel os K) as Fc.
  assert (Hid : forall y t, In (CallOpen y t) os \/ In (CallDial y t) os -> y = c0).
  { pose proof (step_prov L m e) as P. rewrite Forall_forall in P. intros y t [H|H]; exact (P _ H). }
  assert (Hd : existsb new_id os = true -> d = 1%nat).
  { intros E. unfold d. rewrite (Cn2 E). lia. }
  assert (Hinb : g_inb (gstep e os g) = g_inb g).
  { apply TR.gstep_inb_same; destruct e; try discriminate. }
  assert (Hlt : forall c, owed g c -> c < c0) by (intros c Ho; apply (li_fresh _ _ _ I c); now left).
  assert (Hfresh : lookup c0 (g_att g) = None).
  { destruct (lookup c0 (g_att g)) as [q|] eqn:E; [|reflexivity].
    pose proof (li_fresh _ _ _ I c0) as F. apply lookup_in_keys in E. assert (c0 < next_conn m) by (apply F; auto).
    unfold c0 in *. lia. }
  assert (Hgo : forall c u, In (c, u) (g_open (gstep e os g)) <-> In (CallOpen c u) os \/ In (c, u) (g_open g)).
  { intros c u. rewrite TR.gstep_open, Hao, Fc, TR.in_fm_open. cbn [app In]. tauto. }
  assert (Hgn : forall c, In c (g_neg (gstep e os g)) <-> (exists t, In (CallDial c t) os) \/ In c (g_neg g)).
  { intros c. rewrite TR.gstep_neg, Han, TR.in_fm_dialneg. cbn [In]. split.
    - intros [(t & [H|H])|[H _]]; [left; eauto | | now right]. rewrite Forall_forall in K. destruct (K _ H).
    - intros [(t & H)|H]; [left; eauto | right; tauto]. }
  assert (Hside : forall u, tagged u ->
            side (deliver L None k st e) u =
            exec (side st u) (repeat TM.EDraw d ++ flat_map (TR.fwd u (TR.tgt e) (k u)) os)).
  { intros u Hu. rewrite side_deliver by exact Hu. unfold calls_to. fold m m' os. rewrite (ndraws_cmd _ _ _ _ _ Hc). reflexivity. }
  assert (X : forall u, tagged u ->
            let x := side st u in let x' := side (deliver L None k st e) u in
            TT.reach (t_s x') (t_g x') /\
            (forall c, In c (TM.g_open (t_g x')) <-> In (CallOpen c u) os \/ In c (TM.g_open (t_g x))) /\
            (forall c, In c (TM.g_neg (t_g x')) <-> In (CallDial c u) os \/ In c (TM.g_neg (t_g x))) /\
            TM.g_inb (t_g x') = TM.g_inb (t_g x) /\
            TM.g_ctr (t_g x') = TM.g_ctr (t_g x) + N.of_nat d /\
            (forall c, c <> c0 -> TM.lookup c (TM.g_att (t_g x')) = TM.lookup c (TM.g_att (t_g x))) /\
            (In (CallOpen c0 u) os \/ In (CallDial c0 u) os ->
               exists es, TM.lookup c0 (TM.g_att (t_g x')) = Some es /\ es <> [] /\ forall a, In a es -> a = Some (TR.tgt e))).
  { intros u Hu. cbn zeta. rewrite (Hside u Hu). destruct (Hs u Hu) as [R (_ & _ & _ & _ & C5)].
    destruct (step_once L m g e u I Hf) as [On _].
    exact (cmd_side u (side st u) (TR.tgt e) (k u) c0 d os R (eq_sym C5) K Hid On Hd). }
  split; [exact I'|].
  split.
  - intros u Hu. destruct (X u Hu) as (R' & X1 & X2 & X3 & X4 & X5 & X6). cbn zeta in *.
    destruct (Hs u Hu) as [R (C1 & C2 & C3 & C4 & C5)].
    split; [exact R'|]. cbn [deliver s_m s_g]. fold m g os m'.
    split; [|split; [|split; [|split]]].
    + intros c. rewrite Hgo, X1, C1. reflexivity.
    + intros c. rewrite X2, Hgn. intros [H|H]; [left; eauto | right; now apply C2].
    + intros c. rewrite X3, Hinb. apply C3.
    + intros c q Hl Hown.
      assert (Hown' : In (CallOpen c u) os \/ In (CallDial c u) os \/ In c (TM.g_open (t_g (side st u))) \/ In c (TM.g_neg (t_g (side st u)))).
      { destruct Hown as [H|H]; [apply X1 in H | apply X2 in H]; tauto. }
      assert (Hold : In c (TM.g_open (t_g (side st u))) \/ In c (TM.g_neg (t_g (side st u))) -> c <> c0).
      { intros [H|H] ->; [apply C1 in H; assert (c0 < c0) by (apply Hlt; left; eauto) |
                          apply C2 in H; assert (c0 < c0) by (apply Hlt; now right)]; lia. }
      destruct (gstep_att_cmd e os g c0 c q K Hid Hl) as [Hl'|[-> ->]].
      * assert (Hne : c <> c0) by (intros ->; congruence).
        rewrite (X5 c Hne). apply (C4 c q Hl').
        destruct Hown' as [H|[H|[H|H]]]; auto; exfalso; apply Hne; apply (Hid c u); auto.
      * apply X6. destruct Hown' as [H|[H|H]]; auto. exfalso. exact (Hold H eq_refl).
    + rewrite X4, C5. unfold d. fold c0. destruct Cn1 as [E|E]; rewrite E; lia.
  - cbn [deliver s_g]. fold m g os.
    split; [|split].
    + intros u v c Hu Hv Huv Hcu Hcv.
      destruct (X u Hu) as (_ & _ & X2u & _). destruct (X v Hv) as (_ & _ & X2v & _). cbn zeta in *.
      apply X2u in Hcu. apply X2v in Hcv.
      destruct (Hs u Hu) as [_ (_ & C2u & _)]. destruct (Hs v Hv) as [_ (_ & C2v & _)].
      destruct Hcu as [Hu1|Hu1]; destruct Hcv as [Hv1|Hv1].
      * exact (Huv (cmd_dial_tag m e _ _ _ _ Hc Hu1 Hv1)).
      * assert (c = c0) by (apply (Hid c u); auto). subst c.
        assert (c0 < c0) by (apply Hlt; right; now apply C2v). lia.
      * assert (c = c0) by (apply (Hid c v); auto). subst c.
        assert (c0 < c0) by (apply Hlt; right; now apply C2u). lia.
      * exact (G1 u v c Hu Hv Huv Hu1 Hv1).
    + intros u v c Hu Hv Huv.
      destruct (X u Hu) as (_ & _ & _ & X3u & _). destruct (X v Hv) as (_ & _ & _ & X3v & _). cbn zeta in *.
      rewrite X3u, X3v. now apply G2.
    + intros c Hcn. apply Hgn in Hcn. destruct Hcn as [(t & H)|H].
      * assert (Ht : tagged t) by (apply (installed_lt L); exact (TR.cmd_fresh_inst L m e _ t Hc H eq_refl)).
        exists t. split; [exact Ht|]. destruct (X t Ht) as (_ & _ & X2 & _). cbn zeta in X2. apply X2. now left.
      * destruct (G3 c H) as (u & Hu & Hin). exists u. split; [exact Hu|].
        destruct (X u Hu) as (_ & _ & X2 & _). cbn zeta in X2. apply X2. now right.
Qed.

End Compose.
