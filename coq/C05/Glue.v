(* C05 — the shared manager model with the C05 oracle. *)
From Coq Require Import List NArith.
From V.Mgr Require Import Model Glue.
Definition run_case := V.Mgr.Glue.run_case.
Definition prop_ok := prop_ok_C05.
Definition known_class := known_class_C05.
