(* C05 — the shared manager model with the C05 oracle; cases that start with a stream tag 9000 /
   9001 / 9002 belong to the transport streams (real TcpTransport / WebSocketTransport / QuicTransport,
   coq/Tcp). *)
From Coq Require Import List NArith.
From V.Mgr Require Import Model Glue.
From V.Tcp Require Glue.
Import ListNotations.
Open Scope N_scope.
Definition is_tcp (l : list N) : bool := V.Tcp.Glue.is_stream_case l.
Definition run_case (l : list N) : list N :=
  if is_tcp l then V.Tcp.Glue.run_case l else V.Mgr.Glue.run_case l.
Definition prop_ok (case trace : list N) : bool :=
  if is_tcp case then V.Tcp.Glue.prop_ok case trace else prop_ok_C05 case trace.
Definition known_class (case trace : list N) : N :=
  if is_tcp case then V.Tcp.Glue.known_class case trace else known_class_C05 case trace.
