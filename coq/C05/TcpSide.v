(* C05 — facts about the TcpTransport model (coq/Tcp) that are needed to plug it into the manager
   model (coq/C05/TcpCompose.v): sequences of calls, what the calls made by the manager do to the
   ghost state of the transport contract, how they commute with events that were emitted by a poll
   but not delivered yet, and the shape of what one poll emits. Nothing here changes coq/Tcp. *)
From Coq Require Import List NArith Bool Lia.
From Coq Require Import ZifyBool ZifyNat ZifyN.
From V.Tcp Require Import Model Proofs Theorems.
Import ListNotations.
Open Scope N_scope.

Arguments N.add : simpl never.
Arguments N.eqb : simpl never.
Arguments N.leb : simpl never.
Arguments N.ltb : simpl never.
Arguments N.of_nat : simpl never.
Arguments put : simpl never.
Arguments lookup : simpl never.
Arguments delk : simpl never.
Arguments add : simpl never.
Arguments del : simpl never.
Arguments mem : simpl never.

(* ---------- a sequence of steps ---------- *)
Fixpoint trun (s : tcp) (g : ghost) (l : list ev) : tcp * ghost :=
  match l with
  | [] => (s, g)
  | e :: r => trun (fst (step s e)) (gstep e (snd (step s e)) g) r
  end.

Lemma trun_app l1 : forall s g l2,
  trun s g (l1 ++ l2) = trun (fst (trun s g l1)) (snd (trun s g l1)) l2.
Proof.
  induction l1 as [|e r IH]; intros s g l2; cbn [trun app fst snd]; [reflexivity | apply IH].
Qed.

Lemma trun_reach l : forall s g,
  reach s g -> callers_ok s g l = true -> reach (fst (trun s g l)) (snd (trun s g l)).
Proof.
  induction l as [|e r IH]; intros s g R H; cbn [trun]; [exact R|].
  cbn [callers_ok] in H. apply andb_prop in H. destruct H as [H1 H2].
  apply IH; [apply reachS; assumption | exact H2].
Qed.

(* ---------- lists of emitted events ---------- *)
Lemma in_events t os : In t (events os) <-> In (OEv t) os.
Proof.
  unfold events. rewrite in_flat_map. split.
  - intros (o & Ho & Ht). destruct o; cbn in Ht; try contradiction. destruct Ht as [<-|[]]. exact Ho.
  - intros H. exists (OEv t). split; [exact H | left; reflexivity].
Qed.

Lemma events_app o1 o2 : events (o1 ++ o2) = events o1 ++ events o2.
Proof. unfold events. apply flat_map_app. Qed.

Lemma events_map r : events (map OEv r) = r.
Proof. induction r as [|t r IH]; [reflexivity|]. cbn [map events flat_map app]. fold (events (map OEv r)). now rewrite IH. Qed.

Lemma audit_events g os : audit g os = audit g (map OEv (events os)).
Proof.
  revert g. induction os as [|o r IH]; intros g; [reflexivity|].
  destruct o as [b|c|t|m]; cbn [audit audit_by events flat_map app map]; try apply IH.
  fold (events r). f_equal. apply IH.
Qed.

Lemma fold_events os : forall g, fold_left gout os g = fold_left gout (map OEv (events os)) g.
Proof.
  induction os as [|o r IH]; intros g; [reflexivity|].
  destruct o as [b|c|t|m]; cbn [fold_left gout events flat_map app map]; apply IH.
Qed.

(* the ghost only shrinks (open / negotiate / inbound obligations) when an event is emitted *)
Lemma gev_open_sub t g c : In c (g_open (gev t g)) -> In c (g_open g).
Proof.
  destruct t as [x|x|x|x q [|]|x]; cbn [gev g_open]; intros H; try exact H; apply in_del in H; exact (proj1 H).
Qed.
Lemma gev_neg_sub t g c : In c (g_neg (gev t g)) -> In c (g_neg g).
Proof.
  destruct t as [x|x|x|x q [|]|x]; cbn [gev g_neg]; intros H; try exact H; apply in_del in H; exact (proj1 H).
Qed.
Lemma gev_inb_sub t g c : In c (g_inb (gev t g)) -> In c (g_inb g).
Proof.
  destruct t as [x|x|x|x q [|]|x]; cbn [gev g_inb]; intros H; try exact H; apply in_del in H; exact (proj1 H).
Qed.
Lemma gev_att t g : g_att (gev t g) = g_att g.
Proof. destruct t as [x|x|x|x q [|]|x]; reflexivity. Qed.

(* ---------- calls that add nothing to what the transport owes ---------- *)
Definition passive (e : ev) : bool :=
  match e with ECancel _ | EAccept _ | EReject _ | ERejectPending _ => true | _ => false end.

Definition gcancel (c : conn) (g : ghost) : ghost :=
  mkG (del c (g_open g)) (g_neg g) (g_inb g) (g_opened g) (g_drawn g) (g_used g) (g_inbids g) (g_ctr g) (g_att g).
Definition pghost (g : ghost) (e : ev) : ghost := match e with ECancel c => gcancel c g | _ => g end.

Lemma passive_gstep s g e : passive e = true -> gstep e (snd (step s e)) g = pghost g e.
Proof.
  destruct e; try discriminate; intros _; unfold gstep; cbn [step pghost].
  - destruct (lookup c (cancel_futures s)); reflexivity.
  - destruct (mem c (pending_open s)); reflexivity.
  - destruct (mem c (pending_open s)); reflexivity.
  - destruct (mem c (pending_inbound s)); reflexivity.
Qed.

Lemma passive_state s e : passive e = true ->
  opened (fst (step s e)) = opened s /\
  (forall y, In y (pending_open (fst (step s e))) <-> In y (pending_open s) /\ e <> EAccept y /\ e <> EReject y).
Proof.
  destruct e; try discriminate; intros _; cbn [step].
  - destruct (lookup c (cancel_futures s)); cbn [fst]; (split; [reflexivity|]); intros y;
      (split; [intros H; repeat split; [exact H | discriminate | discriminate] | intros [H _]; exact H]).
  - destruct (mem c (pending_open s)) eqn:E; cbn [fst set_popen opened pending_open]; (split; [reflexivity|]); intros y.
    + rewrite in_del. split.
      * intros [H1 H2]. repeat split; [exact H1 | congruence | discriminate].
      * intros (H1 & H2 & _). split; [exact H1 | congruence].
    + apply mem_false in E. split.
      * intros H. repeat split; [exact H | intros [= ->]; contradiction | discriminate].
      * intros [H _]. exact H.
  - destruct (mem c (pending_open s)) eqn:E; cbn [fst set_popen opened pending_open]; (split; [reflexivity|]); intros y.
    + rewrite in_del. split.
      * intros [H1 H2]. repeat split; [exact H1 | discriminate | congruence].
      * intros (H1 & _ & H2). split; [exact H1 | congruence].
    + apply mem_false in E. split.
      * intros H. repeat split; [exact H | discriminate | intros [= ->]; contradiction].
      * intros [H _]. exact H.
  - destruct (mem c (pending_inbound s)); cbn [fst]; (split; [reflexivity|]); intros y;
      (split; [intros H; repeat split; [exact H | discriminate | discriminate] | intros [H _]; exact H]).
Qed.

Lemma passive_caller g e : passive e = true -> caller_ok g e = true.
Proof. destruct e; try discriminate; reflexivity. Qed.

Lemma passive_callers l : forall s g, forallb passive l = true -> callers_ok s g l = true.
Proof.
  induction l as [|e r IH]; intros s g H; [reflexivity|]. cbn [forallb] in H. apply andb_prop in H.
  destruct H as [H1 H2]. cbn [callers_ok]. rewrite (passive_caller g e H1). apply IH. exact H2.
Qed.

Lemma trun_passive l : forall s g, forallb passive l = true ->
  snd (trun s g l) = fold_left pghost l g /\
  opened (fst (trun s g l)) = opened s /\
  (forall y, In y (pending_open (fst (trun s g l))) <->
             In y (pending_open s) /\ ~ In (EAccept y) l /\ ~ In (EReject y) l).
Proof.
  induction l as [|e r IH]; intros s g H.
  - cbn [trun fst snd fold_left]. repeat split; auto; tauto.
  - cbn [forallb] in H. apply andb_prop in H. destruct H as [H1 H2].
    cbn [trun fold_left]. rewrite (passive_gstep s g e H1).
    destruct (passive_state s e H1) as [Ho Hp].
    destruct (IH (fst (step s e)) (pghost g e) H2) as (I1 & I2 & I3).
    split; [exact I1|]. split; [now rewrite I2|].
    intros y. rewrite I3, Hp. cbn [In]. split.
    + intros ((A & B & C) & D & E). repeat split; auto; intros [F|F]; auto.
    + intros (A & B & C). repeat split; auto.
Qed.

Lemma pfold_open l : forall g y,
  In y (g_open (fold_left pghost l g)) <-> In y (g_open g) /\ ~ In (ECancel y) l.
Proof.
  induction l as [|e r IH]; intros g y; cbn [fold_left].
  - cbn [In]. tauto.
  - rewrite IH. cbn [In]. destruct e; cbn [pghost]; try (split; [intros [A B]; split; [exact A | intros [C|C]; [discriminate | auto]] | intros [A B]; split; [exact A | auto]]).
    unfold gcancel. cbn [g_open]. rewrite in_del. split.
    + intros [[A B] C]. split; [exact A|]. intros [D|D]; [congruence | auto].
    + intros [A B]. repeat split; auto. intros ->. apply B. now left.
Qed.

Lemma pghost_same g e :
  g_neg (pghost g e) = g_neg g /\ g_inb (pghost g e) = g_inb g /\ g_opened (pghost g e) = g_opened g /\
  g_drawn (pghost g e) = g_drawn g /\ g_used (pghost g e) = g_used g /\ g_inbids (pghost g e) = g_inbids g /\
  g_ctr (pghost g e) = g_ctr g /\ g_att (pghost g e) = g_att g.
Proof. destruct e; cbn [pghost]; repeat split; reflexivity. Qed.

Lemma pfold_same l : forall g,
  g_neg (fold_left pghost l g) = g_neg g /\ g_inb (fold_left pghost l g) = g_inb g /\
  g_opened (fold_left pghost l g) = g_opened g /\
  g_drawn (fold_left pghost l g) = g_drawn g /\ g_used (fold_left pghost l g) = g_used g /\
  g_inbids (fold_left pghost l g) = g_inbids g /\
  g_ctr (fold_left pghost l g) = g_ctr g /\ g_att (fold_left pghost l g) = g_att g.
Proof.
  induction l as [|e r IH]; intros g; cbn [fold_left]; [repeat split; reflexivity|].
  destruct (IH (pghost g e)) as (A1 & A2 & A3 & A4 & A5 & A6 & A7 & A8).
  destruct (pghost_same g e) as (B1 & B2 & B3 & B4 & B5 & B6 & B7 & B8).
  repeat split; congruence.
Qed.

(* ... and they commute with events that were emitted but not looked at yet *)
Lemma filter_comm {A} (f h : A -> bool) l : filter f (filter h l) = filter h (filter f l).
Proof.
  induction l as [|x r IH]; [reflexivity|]. cbn [filter].
  destruct (h x) eqn:Eh; destruct (f x) eqn:Ef; cbn [filter]; rewrite ?Eh, ?Ef, IH; reflexivity.
Qed.

Lemma del_del c c' l : del c (del c' l) = del c' (del c l).
Proof. unfold del. apply filter_comm. Qed.

Lemma pghost_gev e t g : pghost (gev t g) e = gev t (pghost g e).
Proof.
  destruct e; cbn [pghost]; try reflexivity.
  destruct t as [x|x|x|x q [|]|x]; unfold gcancel; cbn [gev g_open g_neg g_inb g_opened g_drawn g_used g_inbids g_ctr g_att];
    try reflexivity; f_equal; apply del_del.
Qed.

Lemma pghost_fold e os : forall g, pghost (fold_left gout os g) e = fold_left gout os (pghost g e).
Proof.
  induction os as [|o r IH]; intros g; [reflexivity|]. cbn [fold_left]. rewrite IH. f_equal.
  destruct o; cbn [gout]; try reflexivity. apply pghost_gev.
Qed.

Lemma pfold_fold l os : forall g, fold_left pghost l (fold_left gout os g) = fold_left gout os (fold_left pghost l g).
Proof.
  induction l as [|e r IH]; intros g; [reflexivity|]. cbn [fold_left]. rewrite pghost_fold. apply IH.
Qed.

(* ---------- negotiate ---------- *)
Definition gneg (c : conn) (g : ghost) : ghost :=
  mkG (g_open g) (c :: g_neg g) (g_inb g) (del c (g_opened g)) (g_drawn g) (g_used g) (g_inbids g) (g_ctr g) (g_att g).

Lemma neg_step s g c : In c (opened s) ->
  snd (step s (ENegotiate c)) = [ORet true] /\ gstep (ENegotiate c) (snd (step s (ENegotiate c))) g = gneg c g.
Proof.
  intros H. apply mem_in in H. cbn [step]. rewrite H. split; reflexivity.
Qed.

Lemma neg_state s c y : In c (opened s) ->
  In y (pending_open (fst (step s (ENegotiate c)))) <-> In y (pending_open s).
Proof. intros H. apply mem_in in H. cbn [step]. rewrite H. reflexivity. Qed.

Definition noneg (c : conn) (t : tev) : Prop :=
  t <> TOpened c /\ (forall q, t <> TEstablished c q false) /\ t <> TDialFailure c.

Lemma mem_del_ne x c l : x <> c -> mem x (del c l) = mem x l.
Proof.
  intros H. destruct (mem x l) eqn:E.
  - apply mem_in. apply in_del. apply mem_in in E. auto.
  - apply mem_false. apply mem_false in E. intros K. apply in_del in K. tauto.
Qed.

Lemma del_cons_ne x c l : x <> c -> del c (x :: l) = x :: del c l.
Proof. intros H. unfold del. cbn [filter]. assert (x =? c = false) as -> by lia. reflexivity. Qed.

Lemma del_add_ne x c l : x <> c -> del c (add x l) = add x (del c l).
Proof.
  intros H. unfold add. rewrite (mem_del_ne x c l H). destruct (mem x l); [reflexivity | now apply del_cons_ne].
Qed.

Lemma gneg_gev c t g : noneg c t -> gneg c (gev t g) = gev t (gneg c g).
Proof.
  intros (H1 & H2 & H3).
  destruct t as [x|x|x|x q [|]|x]; unfold gneg; cbn [gev g_open g_neg g_inb g_opened g_drawn g_used g_inbids g_ctr g_att];
    try reflexivity.
  - f_equal. apply del_add_ne. congruence.
  - f_equal. symmetry. apply del_cons_ne. intros ->. exact (H2 q eq_refl).
  - f_equal. symmetry. apply del_cons_ne. congruence.
Qed.

Lemma gneg_fold c os : forall g,
  (forall t, In (OEv t) os -> noneg c t) -> gneg c (fold_left gout os g) = fold_left gout os (gneg c g).
Proof.
  induction os as [|o r IH]; intros g H; [reflexivity|]. cbn [fold_left].
  rewrite IH by (intros t Ht; apply H; now right). f_equal.
  destruct o; cbn [gout]; try reflexivity. apply gneg_gev. apply H. now left.
Qed.

(* an id for which nothing is owed (open, negotiate) is not answered *)
Lemma audit_noneg c os : forall g,
  audit g os = true -> ~ In c (g_open g) -> ~ In c (g_neg g) -> forall t, In (OEv t) os -> noneg c t.
Proof.
  induction os as [|o r IH]; intros g A Ho Hn t Hin; [destruct Hin|].
  destruct o as [b|x|t0|m]; cbn [audit audit_by] in A.
  - destruct Hin as [E|Hin]; [discriminate|]. exact (IH g A Ho Hn t Hin).
  - destruct Hin as [E|Hin]; [discriminate|]. exact (IH g A Ho Hn t Hin).
  - apply andb_prop in A. destruct A as [A1 A2]. destruct Hin as [E|Hin].
    + injection E as ->. repeat split.
      * intros ->. cbn [tfeas] in A1. apply mem_in in A1. contradiction.
      * intros q ->. cbn [tfeas] in A1. apply andb_prop in A1. destruct A1 as [A1 _]. apply mem_in in A1. contradiction.
      * intros ->. cbn [tfeas] in A1. apply mem_in in A1. contradiction.
    + apply (IH (gev t0 g) A2); [intros K; apply Ho; eapply gev_open_sub; eauto | intros K; apply Hn; eapply gev_neg_sub; eauto | exact Hin].
  - destruct Hin as [E|Hin]; [discriminate|]. exact (IH g A Ho Hn t Hin).
Qed.

(* an id that was answered by an outbound ConnectionEstablished is not answered again *)
Lemma audit_no_second_est c os : forall g,
  audit g os = true -> ~ In c (g_neg g) -> ~ In c (g_inb g) -> forall q l, ~ In (OEv (TEstablished c q l)) os.
Proof.
  induction os as [|o r IH]; intros g A Hn Hi q l Hin; [destruct Hin|].
  destruct o as [b|x|t0|m]; cbn [audit audit_by] in A.
  - destruct Hin as [E|Hin]; [discriminate|]. exact (IH g A Hn Hi q l Hin).
  - destruct Hin as [E|Hin]; [discriminate|]. exact (IH g A Hn Hi q l Hin).
  - apply andb_prop in A. destruct A as [A1 A2]. destruct Hin as [E|Hin].
    + injection E as ->. cbn [tfeas] in A1. destruct l.
      * apply mem_in in A1. contradiction.
      * apply andb_prop in A1. destruct A1 as [A1 _]. apply mem_in in A1. contradiction.
    + apply (IH (gev t0 g) A2) with (q := q) (l := l);
        [intros K; apply Hn; eapply gev_neg_sub; eauto | intros K; apply Hi; eapply gev_inb_sub; eauto | exact Hin].
  - destruct Hin as [E|Hin]; [discriminate|]. exact (IH g A Hn Hi q l Hin).
Qed.

(* ---------- a ghost state that owes at least as much ---------- *)
Definition gle (G G' : ghost) : Prop :=
  (forall c, In c (g_open G) -> In c (g_open G')) /\ (forall c, In c (g_neg G) -> In c (g_neg G')) /\
  (forall c, In c (g_inb G) -> In c (g_inb G')) /\
  g_att G = g_att G' /\ g_ctr G = g_ctr G' /\ g_drawn G = g_drawn G' /\ g_used G = g_used G' /\
  g_inbids G = g_inbids G'.

Lemma gle_refl G : gle G G.
Proof. repeat split; auto. Qed.

Lemma gle_gev t G G' : gle G G' -> gle (gev t G) (gev t G').
Proof.
  intros (H1 & H2 & H3 & H4 & H5 & H6 & H7 & H8).
  destruct t as [x|x|x|x q [|]|x]; unfold gle; cbn [gev g_open g_neg g_inb g_opened g_drawn g_used g_inbids g_ctr g_att];
    repeat split; auto; try congruence;
    intros c Hc; apply in_del in Hc; apply in_del; destruct Hc; auto.
Qed.

Lemma tfeas_gle t G G' : gle G G' -> tfeas G t = true -> tfeas G' t = true.
Proof.
  intros (H1 & H2 & H3 & H4 & H5 & H6 & H7 & H8).
  destruct t as [x|x|x|x q [|]|x]; cbn [tfeas].
  - rewrite H5, H6, H7, H8. auto.
  - intros H. apply mem_in. apply mem_in in H. auto.
  - intros H. apply mem_in. apply mem_in in H. auto.
  - intros H. apply mem_in. apply mem_in in H. auto.
  - intros H. apply andb_prop in H. destruct H as [A B]. apply andb_true_intro. split.
    + apply mem_in. apply mem_in in A. auto.
    + unfold named in *. rewrite <- H4. exact B.
  - intros H. apply mem_in. apply mem_in in H. auto.
Qed.

Lemma audit_gle os : forall G G', gle G G' -> audit G os = true -> audit G' os = true.
Proof.
  induction os as [|o r IH]; intros G G' H A; [reflexivity|].
  destruct o as [b|x|t|m]; cbn [audit audit_by] in *; try (eapply IH; eauto).
  apply andb_prop in A. destruct A as [A1 A2]. apply andb_true_intro. split.
  - eapply tfeas_gle; eauto.
  - eapply IH; [apply gle_gev; exact H | exact A2].
Qed.

(* ---------- the shape of what one step emits ---------- *)
(* events about inbound sockets *)
Definition inbk (t : tev) : bool :=
  match t with TPendingInbound _ | TEstablished _ _ true => true | _ => false end.

Definition last_only (r : list tev) : Prop :=
  forall r1 t r2, r = r1 ++ t :: r2 -> inbk t = true -> r2 = [].

Lemma last_only_tail t r : last_only (t :: r) -> last_only r.
Proof. intros H r1 t' r2 E. apply (H (t :: r1) t' r2). now rewrite E. Qed.

Lemma last_only_head t r : last_only (t :: r) -> inbk t = true -> r = [].
Proof. intros H. apply (H [] t r). reflexivity. Qed.

Lemma last_only_app l1 l2 :
  (forall t, In t l1 -> inbk t = false) -> (length l2 <= 1)%nat -> last_only (l1 ++ l2).
Proof.
  revert l2. induction l1 as [|a l1 IH]; intros l2 Hq Hl r1 t r2 E Hk.
  - cbn [app] in E. destruct l2 as [|x [|y l2]]; [destruct r1; discriminate| |cbn in Hl; lia].
    destruct r1 as [|z r1]; [injection E as _ <-; reflexivity|]. injection E as _ E. destruct r1; discriminate.
  - destruct r1 as [|z r1].
    + injection E as <- _. rewrite (Hq a (or_introl eq_refl)) in Hk. discriminate.
    + injection E as _ E. apply (IH l2 (fun t0 H0 => Hq t0 (or_intror H0)) Hl r1 t r2 E Hk).
Qed.

(* what a state transformer of poll_next does: pending_open only grows, an established connection
   is in pending_open, no event about an inbound socket, at most one output *)
Definition keepsPO (tr : tcp -> tcp * list outp) : Prop := forall s,
  (forall c, In c (pending_open s) -> In c (pending_open (fst (tr s)))) /\
  (forall c q l, In (OEv (TEstablished c q l)) (snd (tr s)) -> In c (pending_open (fst (tr s)))).
Definition quietT (tr : tcp -> tcp * list outp) : Prop :=
  forall s t, In (OEv t) (snd (tr s)) -> inbk t = false.
Definition shortT (tr : tcp -> tcp * list outp) : Prop := forall s, (length (snd (tr s)) <= 1)%nat.

Lemma keepsPO_seq tr1 tr2 :
  keepsPO tr1 -> keepsPO tr2 ->
  keepsPO (fun s => let '(s1, o1) := tr1 s in let '(s2, o2) := tr2 s1 in (s2, o1 ++ o2)).
Proof.
  intros H1 H2 s. specialize (H1 s). destruct (tr1 s) as [s1 o1]. cbn [fst snd] in H1. destruct H1 as [A1 B1].
  specialize (H2 s1). destruct (tr2 s1) as [s2 o2]. cbn [fst snd] in *. destruct H2 as [A2 B2].
  split; [auto|]. intros c q l H. apply in_app_or in H. destruct H as [H|H]; eauto.
Qed.

Lemma quietT_seq tr1 tr2 :
  quietT tr1 -> quietT tr2 ->
  quietT (fun s => let '(s1, o1) := tr1 s in let '(s2, o2) := tr2 s1 in (s2, o1 ++ o2)).
Proof.
  intros H1 H2 s t. specialize (H1 s). destruct (tr1 s) as [s1 o1]. specialize (H2 s1). destruct (tr2 s1) as [s2 o2].
  cbn [fst snd] in *. intros H. apply in_app_or in H. destruct H as [H|H]; eauto.
Qed.

Lemma keepsPO_id : keepsPO (fun s => (s, [])).
Proof. intros s. cbn [fst snd]. split; [auto | intros c q l []]. Qed.
Lemma quietT_id : quietT (fun s => (s, [])).
Proof. intros s t []. Qed.

Lemma observe_raw_PO f inner : keepsPO (observe_raw f inner).
Proof.
  intros s. unfold observe_raw.
  destruct (lookup f (praw s)) as [c|]; [|cbn [fst snd]; split; [auto | intros c q l []]].
  destruct (mem f (aborted s)).
  - destruct (lookup c (cancel_futures s)); cbn [fst snd]; (split; [auto | intros c' q l H; cbn [In] in H; intuition discriminate]).
  - destruct inner as [res|]; [|cbn [fst snd]; split; [auto | intros c' q l []]].
    destruct (lookup c (cancel_futures s)) as [h|]; [|cbn [fst snd]; split; [auto | intros c' q l H; cbn [In] in H; intuition discriminate]].
    destruct (mem h (aborted s)); [cbn [fst snd]; split; [auto | intros c' q l H; cbn [In] in H; intuition discriminate]|].
    destruct res; cbn [fst snd]; (split; [auto | intros c' q' l H; cbn [In] in H; intuition discriminate]).
Qed.

Lemma observe_raw_quiet f inner : quietT (observe_raw f inner).
Proof.
  intros s t. unfold observe_raw.
  destruct (lookup f (praw s)) as [c|]; [|intros []].
  destruct (mem f (aborted s)).
  - destruct (lookup c (cancel_futures s)); cbn [snd In]; intuition discriminate.
  - destruct inner as [res|]; [|intros []].
    destruct (lookup c (cancel_futures s)) as [h|]; [|cbn [snd In]; intuition discriminate].
    destruct (mem h (aborted s)); [cbn [snd In]; intuition discriminate|].
    destruct res; cbn [snd In]; intros [E|[]]; injection E as <-; reflexivity.
Qed.

Lemma observe_raw_short f inner : shortT (observe_raw f inner).
Proof.
  intros s. unfold observe_raw.
  destruct (lookup f (praw s)) as [c|]; [|cbn; lia].
  destruct (mem f (aborted s)).
  - destruct (lookup c (cancel_futures s)); cbn; lia.
  - destruct inner as [res|]; [|cbn; lia].
    destruct (lookup c (cancel_futures s)) as [h|]; [|cbn; lia].
    destruct (mem h (aborted s)); [cbn; lia|]. destruct res; cbn; lia.
Qed.

Lemma observe_conn_PO f inner : keepsPO (observe_conn f inner).
Proof.
  intros s. unfold observe_conn.
  destruct (lookup f (pconn s)) as [[c k]|]; [|cbn [fst snd]; split; [auto | intros c q l []]].
  destruct (match k with KNeg => Some (Some (peer_or0 (lookup f (neg_peer s)))) | _ => inner end) as [r|];
    [|cbn [fst snd]; split; [auto | intros c' q l []]].
  destruct r as [q|].
  - cbn [fst snd set_popen set_dials set_pconn pending_open]. split.
    + intros c' H. apply in_add. now right.
    + intros c' q' l [E|[]]. injection E as <- _ _. apply in_add. now left.
  - destruct (mem c (pending_dials s)); cbn [fst snd]; (split; [auto | intros c' q l H; cbn [In] in H; intuition discriminate]).
Qed.

Lemma observe_conn_quiet f : quietT (observe_conn f None).
Proof.
  intros s t. unfold observe_conn.
  destruct (lookup f (pconn s)) as [[c k]|]; [|intros []].
  destruct k; cbn [snd In is_inb]; [intros [] | intros [] |].
  intros [E|[]]. injection E as <-. reflexivity.
Qed.

Lemma observe_conn_short f inner : shortT (observe_conn f inner).
Proof.
  intros s. unfold observe_conn.
  destruct (lookup f (pconn s)) as [[c k]|]; [|cbn; lia].
  destruct (match k with KNeg => Some (Some (peer_or0 (lookup f (neg_peer s)))) | _ => inner end) as [r|]; [|cbn; lia].
  destruct r; [cbn; lia|]. destruct (mem c (pending_dials s)); cbn; lia.
Qed.

Lemma flush_raw_PO fs : keepsPO (flush_raw fs).
Proof.
  induction fs as [|f t IH]; [exact keepsPO_id|].
  exact (keepsPO_seq (fun s => observe_raw f (if no_attempt_left f s then Some None else None) s) _
           (fun s => observe_raw_PO f _ s) IH).
Qed.
Lemma flush_raw_quiet fs : quietT (flush_raw fs).
Proof.
  induction fs as [|f t IH]; [exact quietT_id|].
  exact (quietT_seq (fun s => observe_raw f (if no_attempt_left f s then Some None else None) s) _
           (fun s => observe_raw_quiet f _ s) IH).
Qed.
Lemma flush_conn_PO fs : keepsPO (flush_conn fs).
Proof.
  induction fs as [|f t IH]; [exact keepsPO_id|]. exact (keepsPO_seq _ _ (observe_conn_PO f None) IH).
Qed.
Lemma flush_conn_quiet fs : quietT (flush_conn fs).
Proof.
  induction fs as [|f t IH]; [exact quietT_id|]. exact (quietT_seq _ _ (observe_conn_quiet f) IH).
Qed.

Lemma flush_PO : keepsPO flush.
Proof.
  intros s. unfold flush.
  pose proof (flush_raw_PO (map fst (praw s)) s) as H1.
  destruct (flush_raw (map fst (praw s)) s) as [s1 o1]. cbn [fst snd] in H1. destruct H1 as [A1 B1].
  pose proof (flush_conn_PO (map fst (pconn s1)) s1) as H2.
  destruct (flush_conn (map fst (pconn s1)) s1) as [s2 o2]. cbn [fst snd] in *. destruct H2 as [A2 B2].
  split; [auto|]. intros c q l H. apply in_app_or in H. destruct H as [H|H]; eauto.
Qed.

Lemma flush_quiet : quietT flush.
Proof.
  intros s t. unfold flush.
  pose proof (flush_raw_quiet (map fst (praw s)) s) as H1.
  destruct (flush_raw (map fst (praw s)) s) as [s1 o1].
  pose proof (flush_conn_quiet (map fst (pconn s1)) s1) as H2.
  destruct (flush_conn (map fst (pconn s1)) s1) as [s2 o2]. cbn [fst snd] in *.
  intros H. apply in_app_or in H. destruct H as [H|H]; eauto.
Qed.

Lemma PO_attempts v s : pending_open (set_attempts v s) = pending_open s.
Proof. reflexivity. Qed.

Lemma attempt_raw_PO f i ans : keepsPO (attempt_raw f i ans).
Proof.
  intros s. unfold attempt_raw.
  destruct (lookup f (attempts s)) as [rem|]; [|cbn [fst snd]; split; [auto | intros c q l []]].
  destruct (lookup i rem) as [e|]; [|cbn [fst snd]; split; [auto | intros c q l []]].
  destruct (match ans with Some q => if matches e q then Some q else None | None => None end) as [q|].
  - apply observe_raw_PO.
  - cbv zeta. destruct (delk i rem) as [|x r].
    + exact (observe_raw_PO f (Some None) (set_attempts (put f [] (attempts s)) s)).
    + cbn [fst snd]. split; [auto | intros c q l []].
Qed.

Lemma attempt_raw_short f i ans : shortT (attempt_raw f i ans).
Proof.
  intros s. unfold attempt_raw.
  destruct (lookup f (attempts s)) as [rem|]; [|cbn; lia].
  destruct (lookup i rem) as [e|]; [|cbn; lia].
  destruct (match ans with Some q => if matches e q then Some q else None | None => None end) as [q|].
  - apply observe_raw_short.
  - cbv zeta. destruct (delk i rem) as [|x r]; [apply observe_raw_short | cbn; lia].
Qed.

Lemma attempt_conn_PO f ans : keepsPO (attempt_conn f ans).
Proof.
  intros s. unfold attempt_conn.
  destruct (lookup f (pconn s)) as [[c k]|]; [|cbn [fst snd]; split; [auto | intros c q l []]].
  destruct k; try (cbn [fst snd]; split; [auto | intros c' q l []]); apply observe_conn_PO.
Qed.

Lemma attempt_conn_short f ans : shortT (attempt_conn f ans).
Proof.
  intros s. unfold attempt_conn.
  destruct (lookup f (pconn s)) as [[c k]|]; [|cbn; lia].
  destruct k; try (cbn; lia); apply observe_conn_short.
Qed.

(* one step: the events about inbound sockets come last; every established connection it reports
   is in pending_open afterwards *)
Lemma in_events_quiet os : (forall t, In (OEv t) os -> inbk t = false) -> forall t, In t (events os) -> inbk t = false.
Proof. intros H t Ht. apply H. now apply in_events. Qed.

Lemma events_short os : (length os <= 1)%nat -> (length (events os) <= 1)%nat.
Proof. destruct os as [|o [|o' r]]; cbn; try lia. destruct o; cbn; lia. Qed.

Theorem step_last_only s e : last_only (events (snd (step s e))).
Proof.
  assert (Hnil : last_only []) by (intros r1 t r2 E; destruct r1; discriminate).
  assert (Hcall : forall b, last_only (events [ORet b])) by (intros b r1 t r2 E; destruct r1; discriminate).
  destruct e as [|c valid ex|c es|c|c|c|c|c|c| | |f i ans|f]; cbn [step].
  - intros r1 t r2 E. destruct r1; discriminate.
  - destruct valid; apply Hcall.
  - apply Hcall.
  - destruct (mem c (opened s)); apply Hcall.
  - destruct (lookup c (cancel_futures s)); exact Hnil.
  - destruct (mem c (pending_open s)); apply Hcall.
  - destruct (mem c (pending_open s)); apply Hcall.
  - destruct (mem c (pending_inbound s)); apply Hcall.
  - destruct (mem c (pending_inbound s)); apply Hcall.
  - rewrite <- (app_nil_r (events (snd (flush s)))). apply last_only_app; [|cbn; lia].
    apply in_events_quiet. apply flush_quiet.
  - pose proof (flush_quiet s) as Q. destruct (flush s) as [s1 o1]. cbn [fst snd] in *.
    rewrite events_app. apply last_only_app; [apply in_events_quiet; exact Q | cbn; lia].
  - pose proof (flush_quiet s) as Q. destruct (flush s) as [s1 o1]. cbn [fst snd] in *.
    assert (Hs : (length (snd (match lookup f (praw s1) with
                               | Some _ => attempt_raw f i ans s1 | None => attempt_conn f ans s1 end)) <= 1)%nat).
    { destruct (lookup f (praw s1)); [apply attempt_raw_short | apply attempt_conn_short]. }
    destruct (match lookup f (praw s1) with Some _ => attempt_raw f i ans s1 | None => attempt_conn f ans s1 end) as [s2 o2].
    cbn [fst snd] in *. rewrite events_app. apply last_only_app; [apply in_events_quiet; exact Q | now apply events_short].
  - pose proof (flush_quiet s) as Q. destruct (flush s) as [s1 o1]. cbn [fst snd] in *.
    pose proof (observe_raw_short f (Some None) s1) as Hs.
    destruct (observe_raw f (Some None) s1) as [s2 o2].
    cbn [fst snd] in *. rewrite events_app. apply last_only_app; [apply in_events_quiet; exact Q | now apply events_short].
Qed.

Theorem step_established_pending_open s e c q l :
  In (OEv (TEstablished c q l)) (snd (step s e)) -> In c (pending_open (fst (step s e))).
Proof.
  destruct e as [|c0 valid ex|c0 es|c0|c0|c0|c0|c0|c0| | |f i ans|f]; cbn [step].
  - cbn [snd In]. intuition discriminate.
  - destruct valid; cbn [snd In]; intuition discriminate.
  - cbn [snd In]. intuition discriminate.
  - destruct (mem c0 (opened s)); cbn [snd In]; intuition discriminate.
  - destruct (lookup c0 (cancel_futures s)); intros [].
  - destruct (mem c0 (pending_open s)); cbn [snd In]; intuition discriminate.
  - destruct (mem c0 (pending_open s)); cbn [snd In]; intuition discriminate.
  - destruct (mem c0 (pending_inbound s)); cbn [snd In]; intuition discriminate.
  - destruct (mem c0 (pending_inbound s)); cbn [snd In]; intuition discriminate.
  - apply (proj2 (flush_PO s)).
  - pose proof (flush_PO s) as P. destruct (flush s) as [s1 o1]. cbn [fst snd] in *. destruct P as [_ P].
    intros H. apply in_app_or in H. destruct H as [H|[H|[]]]; [|discriminate]. exact (P _ _ _ H).
  - pose proof (flush_PO s) as P. destruct (flush s) as [s1 o1]. cbn [fst snd] in *. destruct P as [_ P].
    assert (P2 : keepsPO (fun s1 => match lookup f (praw s1) with
                                   | Some _ => attempt_raw f i ans s1 | None => attempt_conn f ans s1 end)).
    { intros s'. destruct (lookup f (praw s')); [apply attempt_raw_PO | apply attempt_conn_PO]. }
    specialize (P2 s1). cbv beta in P2.
    destruct (match lookup f (praw s1) with Some _ => attempt_raw f i ans s1 | None => attempt_conn f ans s1 end) as [s2 o2].
    cbn [fst snd] in *. destruct P2 as [A2 B2].
    intros H. apply in_app_or in H. destruct H as [H|H]; eauto.
  - pose proof (flush_PO s) as P. destruct (flush s) as [s1 o1]. cbn [fst snd] in *. destruct P as [_ P].
    pose proof (observe_raw_PO f (Some None) s1) as P2.
    destruct (observe_raw f (Some None) s1) as [s2 o2]. cbn [fst snd] in *. destruct P2 as [A2 B2].
    intros H. apply in_app_or in H. destruct H as [H|H]; eauto.
Qed.

(* a polling step moves the ghost only through the events it emits *)
Lemma polls_gstep e os g : polls e = true -> gstep e os g = fold_left gout os g.
Proof. destruct e; try discriminate; reflexivity. Qed.

Lemma polls_caller g e : polls e = true -> caller_ok g e = true.
Proof. destruct e; try discriminate; reflexivity. Qed.

(* calls that pass no new id to the transport need no hygiene *)
Definition noid (e : ev) : bool := match e with EDial _ _ _ | EOpen _ _ => false | _ => true end.

Lemma noid_callers l : forall s g, forallb noid l = true -> callers_ok s g l = true.
Proof.
  induction l as [|e r IH]; intros s g H; [reflexivity|]. cbn [forallb] in H. apply andb_prop in H.
  destruct H as [H1 H2]. cbn [callers_ok]. rewrite IH by exact H2. destruct e; try discriminate; reflexivity.
Qed.

Lemma passive_noid l : forallb passive l = true -> forallb noid l = true.
Proof.
  induction l as [|e r IH]; [reflexivity|]. cbn [forallb]. intros H. apply andb_prop in H. destruct H as [H1 H2].
  rewrite (IH H2). destruct e; try discriminate; reflexivity.
Qed.

(* drawing an id *)
Lemma draw_step s g :
  snd (step s EDraw) = [OId (ctr s)] /\
  gstep EDraw (snd (step s EDraw)) g =
  mkG (g_open g) (g_neg g) (g_inb g) (g_opened g) (ctr s :: g_drawn g) (g_used g) (g_inbids g) (g_ctr g + 1) (g_att g).
Proof. split; reflexivity. Qed.

Lemma open_step s g c es :
  snd (step s (EOpen c es)) = [ORet true] /\
  gstep (EOpen c es) (snd (step s (EOpen c es))) g =
  mkG (c :: g_open g) (g_neg g) (g_inb g) (g_opened g) (del c (g_drawn g)) (c :: g_used g) (g_inbids g) (g_ctr g)
      (put c es (g_att g)).
Proof. split; reflexivity. Qed.

Lemma dial_step s g c ex :
  snd (step s (EDial c true ex)) = [ORet true] /\
  gstep (EDial c true ex) (snd (step s (EDial c true ex))) g =
  mkG (g_open g) (c :: g_neg g) (g_inb g) (g_opened g) (del c (g_drawn g)) (c :: g_used g) (g_inbids g) (g_ctr g)
      (put c [ex] (g_att g)).
Proof. split; reflexivity. Qed.

Lemma accept_pending_ghost s g c :
  let g' := gstep (EAcceptPending c) (snd (step s (EAcceptPending c))) g in
  g_open g' = g_open g /\ g_neg g' = g_neg g /\ (forall x, In x (g_inb g') -> x = c \/ In x (g_inb g)) /\
  g_att g' = g_att g /\ g_ctr g' = g_ctr g.
Proof.
  cbn zeta. unfold gstep. cbn [step]. destruct (mem c (pending_inbound s)); cbn; repeat split; auto.
  intros x [H|H]; auto.
Qed.

(* the answer of the manager to PendingInboundConnection *)
Lemma pinb_call s g c e :
  e = ERejectPending c \/ e = EAcceptPending c -> reach s g ->
  let r := trun s g [e] in
  reach (fst r) (snd r) /\ g_open (snd r) = g_open g /\ g_neg (snd r) = g_neg g /\
  (forall x, In x (g_inb (snd r)) -> x = c \/ In x (g_inb g)) /\
  g_att (snd r) = g_att g /\ g_ctr (snd r) = g_ctr g.
Proof.
  intros He R. cbn zeta. cbn [trun fst snd].
  split; [apply reachS; [exact R | destruct He as [-> | ->]; reflexivity]|].
  destruct He as [-> | ->].
  - unfold gstep. cbn [step]. destruct (mem c (pending_inbound s)); cbn; repeat split; auto.
  - apply accept_pending_ghost.
Qed.

Lemma last_only_nil : last_only [].
Proof. intros r1 t r2 E. destruct r1; discriminate. Qed.

Lemma polls_gcall e os g : polls e = true -> gcall e os g = g.
Proof. destruct e; try discriminate; reflexivity. Qed.

(* the ids the owner draws, and the one dial / open call that uses the id just drawn *)
Lemma draws_only d : forall s g, reach s g ->
  let r := trun s g (repeat EDraw d) in
  reach (fst r) (snd r) /\ g_open (snd r) = g_open g /\ g_neg (snd r) = g_neg g /\ g_inb (snd r) = g_inb g /\
  g_att (snd r) = g_att g /\ g_ctr (snd r) = g_ctr g + N.of_nat d.
Proof.
  induction d as [|d IH]; intros s g R; cbn zeta.
  - cbn [repeat trun fst snd]. repeat split; auto. lia.
  - cbn [repeat trun].
    assert (R1 : reach (fst (step s EDraw)) (gstep EDraw (snd (step s EDraw)) g)) by (apply reachS; [exact R | reflexivity]).
    destruct (draw_step s g) as [_ E]. rewrite E in *.
    destruct (IH _ _ R1) as (A1 & A2 & A3 & A4 & A5 & A6). cbn zeta in *.
    cbn [g_open g_neg g_inb g_att g_ctr] in *.
    repeat split; auto. rewrite A6. lia.
Qed.

Lemma draw_open s g c es : reach s g -> c = g_ctr g ->
  let r := trun s g [EDraw; EOpen c es] in
  reach (fst r) (snd r) /\ g_open (snd r) = c :: g_open g /\ g_neg (snd r) = g_neg g /\ g_inb (snd r) = g_inb g /\
  g_att (snd r) = put c es (g_att g) /\ g_ctr (snd r) = g_ctr g + 1.
Proof.
  intros R Hc. cbn zeta. cbn [trun fst snd].
  destruct (reach_inv _ _ R) as [U _]. pose proof (u_ctr _ _ U) as Hu.
  destruct (draw_step s g) as [_ E]. rewrite E.
  set (g1 := mkG (g_open g) (g_neg g) (g_inb g) (g_opened g) (ctr s :: g_drawn g) (g_used g) (g_inbids g) (g_ctr g + 1) (g_att g)).
  assert (R1 : reach (fst (step s EDraw)) g1) by (unfold g1; rewrite <- E; apply reachS; [exact R | reflexivity]).
  destruct (open_step (fst (step s EDraw)) g1 c es) as [_ E2]. rewrite E2.
  split; [|unfold g1; cbn [g_open g_neg g_inb g_att g_ctr]; repeat split; reflexivity].
  rewrite <- E2. apply reachS; [exact R1|]. cbn [caller_ok g1 g_drawn]. apply mem_in. left. congruence.
Qed.

Lemma draw_dial s g c ex : reach s g -> c = g_ctr g ->
  let r := trun s g [EDraw; EDial c true ex] in
  reach (fst r) (snd r) /\ g_open (snd r) = g_open g /\ g_neg (snd r) = c :: g_neg g /\ g_inb (snd r) = g_inb g /\
  g_att (snd r) = put c [ex] (g_att g) /\ g_ctr (snd r) = g_ctr g + 1.
Proof.
  intros R Hc. cbn zeta. cbn [trun fst snd].
  destruct (reach_inv _ _ R) as [U _]. pose proof (u_ctr _ _ U) as Hu.
  destruct (draw_step s g) as [_ E]. rewrite E.
  set (g1 := mkG (g_open g) (g_neg g) (g_inb g) (g_opened g) (ctr s :: g_drawn g) (g_used g) (g_inbids g) (g_ctr g + 1) (g_att g)).
  assert (R1 : reach (fst (step s EDraw)) g1) by (unfold g1; rewrite <- E; apply reachS; [exact R | reflexivity]).
  destruct (dial_step (fst (step s EDraw)) g1 c ex) as [_ E2]. rewrite E2.
  split; [|unfold g1; cbn [g_open g_neg g_inb g_att g_ctr]; repeat split; reflexivity].
  rewrite <- E2. apply reachS; [exact R1|]. cbn [caller_ok g1 g_drawn]. apply mem_in. left. congruence.
Qed.
