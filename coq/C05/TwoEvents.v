(* C05 — manager ⊗ TCP model ⊗ WebSocket model (coq/C05/TwoCompose.v): one event of one transport
   handled by the manager, one command of the user / protocol side. For every kind of event: what
   the manager is handed satisfies the transport contract `feas`, and the coupling invariant holds
   for the events that are left. The handlers call BOTH transports (ConnectionOpened and an inbound
   ConnectionEstablished cancel on every transport of the Opening set), so every lemma has a part
   about the transport that is being polled and a part about the other one. *)
From Coq Require Import List Arith NArith Bool Lia.
From Coq Require Import ZifyBool ZifyNat ZifyN.
From V.C10 Require Model.
From V.Mgr Require Import DialShape Model Caps Ledger LedgerInv Calls.
From V.Tcp Require Model Proofs Theorems Variants VariantTheorems.
From V.C05 Require TcpSide TrCompose.
From V.C05 Require Import TwoCompose.
Import ListNotations.
Open Scope N_scope.

Arguments N.add : simpl never.
Arguments N.sub : simpl never.
Arguments N.eqb : simpl never.
Arguments N.leb : simpl never.
Arguments N.ltb : simpl never.
Arguments N.of_nat : simpl never.
Arguments N.to_nat : simpl never.
Arguments TM.put : simpl never.
Arguments TM.lookup : simpl never.
Arguments TM.delk : simpl never.
Arguments TM.add : simpl never.
Arguments TM.del : simpl never.
Arguments TM.mem : simpl never.

Section Compose.
Variable L : limits.
Hypothesis both : installed L TCP = true /\ installed L WS = true.

Lemma inst_tagged u : tagged u -> installed L u = true.
Proof. intros [-> | ->]; [exact (proj1 both) | exact (proj2 both)]. Qed.

Lemma tagged_inst u : installed L u = true -> tagged u.
Proof. intros H. exact (installed_lt _ _ H). Qed.

Lemma ndraws_zero src u e m m' : e <> AllocConn -> next_conn m' = next_conn m -> ndraws src u e m m' = 0%nat.
Proof. intros He H. unfold ndraws. rewrite H, N.sub_diag. destruct e; try reflexivity. congruence. Qed.

(* what the head of the undelivered events says about the ledger of its transport *)
Lemma tfeas_owed vg te :
  TM.tfeas vg te = true ->
  (forall c, TR.topen te = Some c -> In c (TM.g_open vg)) /\
  (forall c, TR.tneg te = Some c -> In c (TM.g_neg vg)) /\
  (forall c, TR.tinb te = Some c -> In c (TM.g_inb vg)).
Proof.
  intros A. destruct te as [c0|c0|c0|c0 q [|]|c0]; cbn [TR.topen TR.tneg TR.tinb TM.tfeas] in *;
    repeat split; intros c E; try discriminate; injection E as <-;
    try (apply andb_prop in A; destruct A as [A _]); now apply TP.mem_in.
Qed.

(* the open ledger of the manager after a step that makes no open call *)
Lemma gopen_noopen me os g c u :
  flat_map out_open os = [] ->
  (In (c, u) (g_open (gstep me os g)) <->
   In (c, u) (g_open g) /\ ~ In (c, u) (TR.ans_open me) /\ ~ In (CallCancel c u) os).
Proof.
  intros H. rewrite TR.gstep_open, H, in_app_iff, TR.in_fm_cancel. cbn [In]. tauto.
Qed.

Lemma in_ans_open (o : option conn) (t : tr) (c : conn) (u : tr) :
  In (c, u) (match o with Some c0 => [(c0, t)] | None => [] end) <-> u = t /\ o = Some c.
Proof.
  destruct o as [c0|]; cbn [In]; split.
  - intros [[= -> ->]|[]]. auto.
  - intros [-> [= ->]]. now left.
  - intros [].
  - intros [_ E]. discriminate.
Qed.

Lemma in_ans_neg (o : option conn) (c : conn) :
  In c (match o with Some c0 => [c0] | None => [] end) <-> o = Some c.
Proof.
  destruct o as [c0|]; cbn [In]; split.
  - intros [->|[]]. reflexivity.
  - intros [= ->]. now left.
  - intros [].
  - discriminate.
Qed.

(* ---------- an event whose handler makes no call that adds to what a transport owes ---------- *)
Lemma deliver_calm st t te rest me :
  tagged t ->
  BInv L st t (te :: rest) ->
  (forall c, te <> TM.TPendingInbound c) ->
  no_draw me = true -> (forall c u f, me <> TrOpened c u f) -> (forall c u, me <> TrPendingInbound c u) ->
  ev_target me = None ->
  TR.ans_open me = match TR.topen te with Some c => [(c, t)] | None => [] end ->
  TR.ans_neg me = match TR.tneg te with Some c => [c] | None => [] end ->
  (forall x, In x (g_inb (gstep me (snd (step L (s_m st) me)) (s_g st))) <-> In x (g_inb (s_g st)) /\ TR.tinb te <> Some x) ->
  feas L (s_m st) (s_g st) me ->
  ((forall y u, ~ In (CallCancel y u) (snd (step L (s_m st) me))) \/ rest = []) ->
  (forall y, In (CallAccept y t) (snd (step L (s_m st) me)) \/ In (CallReject y t) (snd (step L (s_m st) me)) ->
             forall q l, ~ In (TM.TEstablished y q l) rest) ->
  BInv L (deliver L (Some t) k0 st me) t rest.
Proof.
  intros Ht (vgs & I & Hs & (G1 & G2 & G3)) Hnp Hn H1 H2 Htg Hao Han Hinb Hf Hcan Hacc.
  destruct (TR.calm_step L (s_m st) me Hn H1 H2) as [Hcalm Hctr].
  assert (Hne : me <> AllocConn) by (intros ->; discriminate).
  destruct (Hs t Ht) as [Tt Ct]. rewrite rs_same in Tt. destruct (tin_head _ _ _ _ Tt) as [A1 Tt'].
  destruct (tfeas_owed _ _ A1) as (Fo & Fn & Fi).
  set (m := s_m st) in *. set (g := s_g st) in *. set (os := snd (step L m me)) in *.
  set (vg0 := fun u => if u =? t then TM.gev te (vgs u) else vgs u).
  set (cs := fun u => flat_map (TR.fwd u (TR.tgt me) (k0 u)) os).
  assert (Evt : vg0 t = TM.gev te (vgs t)) by (unfold vg0; assert (t =? t = true) as -> by lia; reflexivity).
  assert (Evo : forall u, u <> t -> vg0 u = vgs u).
  { intros u Hu. unfold vg0. assert (u =? t = false) as -> by lia. reflexivity. }
  assert (Hside : forall u, tagged u -> side (deliver L (Some t) k0 st me) u = exec (side st u) (cs u)).
  { intros u Hu. rewrite side_deliver by exact Hu. unfold calls_to. fold m os.
    rewrite (ndraws_zero _ _ _ _ _ Hne Hctr). reflexivity. }
  assert (Hp : forall u, forallb TS.passive (cs u) = true) by (intros u; apply TR.calm_passive; exact Hcalm).
  exists (fun u => fold_left TS.pghost (cs u) (vg0 u)).
  cbn [deliver s_m s_g]. fold m g os.
  split; [apply linv_step; assumption|].
  split.
  - intros u Hu. rewrite (Hside u Hu).
    destruct (TS.pfold_same (cs u) (vg0 u)) as (P1 & P2 & P3 & P4 & P5 & P6 & P7 & P8).
    destruct (tagged_dec u t Hu Ht) as [-> | Hut].
    + (* the transport that is being polled *)
      rewrite rs_same. rewrite Evt in *.
      split.
      * apply tin_passive; [exact Tt' | apply Hp | |].
        -- destruct Hcan as [Hcan | ->]; [left | now right]. intros y K. apply in_fwd_cancel in K.
           exfalso. exact (Hcan y t K).
        -- intros y [K|K] q l; [apply in_fwd_accept in K | apply in_fwd_reject in K]; apply Hacc; auto.
      * destruct Ct as (C1 & C2 & C3 & C4 & C5).
        split; [|split; [|split; [|split]]].
        -- intros c. rewrite (gopen_noopen me os g c t (TR.calm_no_open os Hcalm)), Hao, in_ans_open,
             TS.pfold_open, TR.gev_open_iff, <- C1.
           unfold cs. rewrite in_fwd_cancel. assert (t = t) by reflexivity. tauto.
        -- intros c. rewrite P1, TR.gev_neg_iff, TR.gstep_neg, (TR.calm_no_dialneg os Hcalm), Han, in_ans_neg.
           intros [Hc Hne']. right. split; [now apply C2 | exact Hne'].
        -- intros c. rewrite P2, TR.gev_inb_iff, Hinb. intros [Hc Hne']. split; [now apply C3 | exact Hne'].
        -- intros c p. rewrite (TR.gstep_att me os g Htg), P8, TS.gev_att, P1, TS.pfold_open.
           intros Hl Ho. apply (C4 c p Hl).
           destruct Ho as [[Ho _]|Ho]; [left; exact (TS.gev_open_sub _ _ _ Ho) | right; exact (TS.gev_neg_sub _ _ _ Ho)].
        -- rewrite P7, (TR.gev_ctr te _ Hnp), Hctr. exact C5.
    + (* the other transport *)
      destruct (Hs u Hu) as [Tu Cu]. rewrite (rs_other t (te :: rest) u Hut) in Tu.
      rewrite (rs_other t rest u Hut). rewrite (Evo u Hut) in *.
      split.
      * apply tin_passive; [exact Tu | apply Hp | now right | intros y _ q l []].
      * destruct Cu as (C1 & C2 & C3 & C4 & C5).
        split; [|split; [|split; [|split]]].
        -- intros c. rewrite (gopen_noopen me os g c u (TR.calm_no_open os Hcalm)), Hao, in_ans_open,
             TS.pfold_open, <- C1.
           unfold cs. rewrite in_fwd_cancel. tauto.
        -- intros c. rewrite P1, TR.gstep_neg, (TR.calm_no_dialneg os Hcalm), Han, in_ans_neg.
           intros Hc. right. split; [now apply C2|]. intros En.
           exact (G1 u t c Hu Ht Hut Hc (Fn c En)).
        -- intros c. rewrite P2, Hinb. intros Hc. split; [now apply C3|].
           intros En. exact (G2 u t c Hu Ht Hut Hc (Fi c En)).
        -- intros c p. rewrite (TR.gstep_att me os g Htg), P8, P1, TS.pfold_open.
           intros Hl Ho. apply (C4 c p Hl). tauto.
        -- rewrite P7, Hctr. exact C5.
  - (* the two transports together *)
    assert (Hsub : forall u c, tagged u -> In c (TM.g_neg (fold_left TS.pghost (cs u) (vg0 u))) -> In c (TM.g_neg (vgs u))).
    { intros u c Hu. destruct (TS.pfold_same (cs u) (vg0 u)) as (P1 & _). rewrite P1.
      destruct (tagged_dec u t Hu Ht) as [-> | Hut]; [rewrite Evt; apply TS.gev_neg_sub | now rewrite (Evo u Hut)]. }
    assert (Hsubi : forall u c, tagged u -> In c (TM.g_inb (fold_left TS.pghost (cs u) (vg0 u))) -> In c (TM.g_inb (vgs u))).
    { intros u c Hu. destruct (TS.pfold_same (cs u) (vg0 u)) as (_ & P2 & _). rewrite P2.
      destruct (tagged_dec u t Hu Ht) as [-> | Hut]; [rewrite Evt; apply TS.gev_inb_sub | now rewrite (Evo u Hut)]. }
    split; [|split].
    + intros u v c Hu Hv Hne' Hc K. exact (G1 u v c Hu Hv Hne' (Hsub u c Hu Hc) (Hsub v c Hv K)).
    + intros u v c Hu Hv Hne' Hc K. exact (G2 u v c Hu Hv Hne' (Hsubi u c Hu Hc) (Hsubi v c Hv K)).
    + intros c. rewrite TR.gstep_neg, (TR.calm_no_dialneg os Hcalm), Han, in_ans_neg. intros [[]|[Hc Hno]].
      destruct (G3 c Hc) as (u & Hu & Hin). exists u. split; [exact Hu|].
      destruct (TS.pfold_same (cs u) (vg0 u)) as (P1 & _). rewrite P1.
      destruct (tagged_dec u t Hu Ht) as [-> | Hut]; [|now rewrite (Evo u Hut)].
      rewrite Evt. apply TR.gev_neg_iff. split; [exact Hin | exact Hno].
Qed.


(* ---------- the events of transport t are feasible for the manager, one kind at a time ---------- *)
Lemma att_named u m g vg c p tg :
  Cpl u m g vg -> lookup c (g_att g) = Some p -> In c (TM.g_open vg) \/ In c (TM.g_neg vg) ->
  TM.g_att tg = TM.g_att vg -> TR.named_peer tg c = p.
Proof.
  intros (_ & _ & _ & C4 & _) H Ho E. destruct (C4 c p H Ho) as (es & H1 & H2 & H3).
  unfold TR.named_peer. rewrite E, H1. destruct es as [|x r]; [congruence|].
  rewrite (H3 x (or_introl eq_refl)). reflexivity.
Qed.

Lemma binv_head st t te rest :
  tagged t -> BInv L st t (te :: rest) ->
  exists vg, LInv L (s_m st) (s_g st) /\ Cpl t (s_m st) (s_g st) vg /\ TM.tfeas vg te = true /\
             TIn (side st t) (TM.gev te vg) rest /\ TM.g_att (t_g (side st t)) = TM.g_att vg.
Proof.
  intros Ht (vgs & I & Hs & _). destruct (Hs t Ht) as [Tt Ct]. rewrite rs_same in Tt.
  destruct (tin_head _ _ _ _ Tt) as [A1 Tt']. exists (vgs t).
  split; [exact I|]. split; [exact Ct|]. split; [exact A1|]. split; [exact Tt'|]. exact (tin_att _ _ _ Tt).
Qed.

Lemma deliver_open_failure st t c rest :
  tagged t -> BInv L st t (TM.TOpenFailure c :: rest) ->
  let me := TrOpenFailure c t (TR.named_peer (t_g (side st t)) c) in
  feas L (s_m st) (s_g st) me /\ BInv L (deliver L (Some t) k0 st me) t rest.
Proof.
  intros Ht B me. destruct (binv_head _ _ _ _ Ht B) as (vg & I & C & A1 & _ & Eatt).
  cbn [TM.tfeas] in A1. apply TP.mem_in in A1.
  pose proof C as (C1 & _). pose proof A1 as Ho. apply C1 in Ho.
  destruct (owed_open_facts _ _ _ _ _ I Ho) as (p & ts & Hp & Hat & _).
  assert (Hf : feas L (s_m st) (s_g st) me).
  { cbn [feas]. split; [exact (inst_tagged t Ht)|]. split; [exact Ho|].
    rewrite (att_named _ _ _ _ _ _ _ C Hat (or_introl A1) Eatt). exact Hat. }
  split; [exact Hf|].
  apply (deliver_calm st t (TM.TOpenFailure c) rest me Ht B); try reflexivity; try exact Hf; try discriminate.
  - intros x. rewrite TR.gstep_inb_same by discriminate. cbn [TR.tinb]. intuition discriminate.
  - left. intros y u K. apply (TR.failure_outputs L (s_m st) me) in K; [exact K|].
    exists c, t, (TR.named_peer (t_g (side st t)) c). now right.
  - intros y [K|K]; (apply (TR.failure_outputs L (s_m st) me) in K; [destruct K|]);
      exists c, t, (TR.named_peer (t_g (side st t)) c); now right.
Qed.

Lemma deliver_dial_failure st t c rest :
  tagged t -> BInv L st t (TM.TDialFailure c :: rest) ->
  let me := TrDialFailure c t (TR.named_peer (t_g (side st t)) c) in
  feas L (s_m st) (s_g st) me /\ BInv L (deliver L (Some t) k0 st me) t rest.
Proof.
  intros Ht B me. destruct (binv_head _ _ _ _ Ht B) as (vg & I & C & A1 & _ & Eatt).
  cbn [TM.tfeas] in A1. apply TP.mem_in in A1.
  pose proof C as (_ & C2 & _). pose proof A1 as Hn. apply C2 in Hn.
  destruct (TR.neg_att _ _ _ _ I Hn) as [p Hat].
  assert (Hf : feas L (s_m st) (s_g st) me).
  { cbn [feas]. split; [exact (inst_tagged t Ht)|]. split; [exact Hn|].
    rewrite (att_named _ _ _ _ _ _ _ C Hat (or_intror A1) Eatt). exact Hat. }
  split; [exact Hf|].
  apply (deliver_calm st t (TM.TDialFailure c) rest me Ht B); try reflexivity; try exact Hf; try discriminate.
  - intros x. rewrite TR.gstep_inb_same by discriminate. cbn [TR.tinb]. intuition discriminate.
  - left. intros y u K. apply (TR.failure_outputs L (s_m st) me) in K; [exact K|].
    exists c, t, (TR.named_peer (t_g (side st t)) c). now left.
  - intros y [K|K]; (apply (TR.failure_outputs L (s_m st) me) in K; [destruct K|]);
      exists c, t, (TR.named_peer (t_g (side st t)) c); now left.
Qed.

Lemma deliver_established st t c q l rest :
  tagged t -> BInv L st t (TM.TEstablished c q l :: rest) ->
  let me := TrEstablished q c t l false in
  mevs t st (TM.TEstablished c q l) = [me] /\
  feas L (s_m st) (s_g st) me /\ BInv L (deliver L (Some t) k0 st me) t rest.
Proof.
  intros Ht B me. pose proof B as (vgs0 & _ & Hs0 & _).
  destruct (Hs0 t Ht) as [(_ & _ & _ & PO & LO) _]. rewrite rs_same in PO, LO. clear Hs0 vgs0.
  destruct (binv_head _ _ _ _ Ht B) as (vg & I & C & A1 & Tt' & Eatt).
  assert (Hm : mevs t st (TM.TEstablished c q l) = [me]).
  { cbn [mevs]. assert (Hin : In c (TM.pending_open (t_s (side st t)))) by (apply (PO c q l); now left).
    apply TP.mem_in in Hin. rewrite Hin. reflexivity. }
  split; [exact Hm|].
  pose proof C as (C1 & C2 & C3 & C4 & C5).
  destruct l.
  - (* the listener side of an accepted inbound socket: the last event of the poll *)
    cbn [TM.tfeas] in A1. apply TP.mem_in in A1.
    assert (Hf : feas L (s_m st) (s_g st) me).
    { cbn [feas]. split; [reflexivity|]. split; [exact (inst_tagged t Ht) | now apply C3]. }
    split; [exact Hf|].
    pose proof (TS.last_only_head _ _ LO eq_refl) as ->.
    apply (deliver_calm st t (TM.TEstablished c q true) [] me Ht B); try reflexivity; try exact Hf; try discriminate.
    + intros x. unfold me. rewrite TR.gstep_inb_est. cbn [TR.tinb].
      split; intros [H1 H2]; (split; [exact H1|]); [intros [= E]; symmetry in E; exact (H2 E) | intros E; apply H2; now rewrite E].
    + now right.
    + intros y _ q0 l0 [].
  - cbn [TM.tfeas] in A1. apply andb_prop in A1. destruct A1 as [A1 An]. apply TP.mem_in in A1.
    pose proof A1 as Hn. apply C2 in Hn.
    destruct (TR.neg_att _ _ _ _ I Hn) as [p Hat].
    assert (p = q) as ->.
    { destruct (C4 c p Hat (or_intror A1)) as (es & H1 & H2 & H3). unfold TM.named in An. rewrite H1 in An.
      apply existsb_exists in An. destruct An as (x & Hx & Hmx). rewrite (H3 x Hx) in Hmx.
      cbn [TM.matches] in Hmx. lia. }
    assert (Hf : feas L (s_m st) (s_g st) me).
    { cbn [feas]. split; [reflexivity|]. split; [exact (inst_tagged t Ht)|]. split; assumption. }
    split; [exact Hf|].
    destruct (owed_neg_facts _ _ _ _ _ I Hn Hat) as (Hp & Hd & Hnop & _).
    destruct Tt' as (_ & _ & A2 & _).
    apply (deliver_calm st t (TM.TEstablished c q false) rest me Ht B); try reflexivity; try exact Hf; try discriminate.
    + intros x. rewrite TR.gstep_inb_same by discriminate. cbn [TR.tinb]. intuition discriminate.
    + left. intros y u K. apply TR.est_cancel_peer in K. destruct K as [ts Hst].
      rewrite Hst in Hd. cbn [dial_record] in Hd. injection Hd as ->. exact (Hnop ts Hst).
    + intros y K q0 l0 Hin. apply TR.est_accept_id in K. subst y.
      apply (TS.audit_no_second_est c _ _ A2) with (q := q0) (l := l0).
      * cbn [TM.gev TM.g_neg]. rewrite TP.in_del. tauto.
      * cbn [TM.gev TM.g_inb]. intros K. apply C3 in K.
        destruct (inb_facts _ _ _ _ I K) as (Hno & _). apply Hno. now right.
      * now apply TR.in_map_oev.
Qed.


(* ---------- ConnectionOpened from t: cancel on every transport of the set, negotiate on t ---------- *)
Lemma deliver_opened st t c rest :
  tagged t -> BInv L st t (TM.TOpened c :: rest) ->
  let me := TrOpened c t false in
  mevs t st (TM.TOpened c) = [me] /\ feas L (s_m st) (s_g st) me /\ BInv L (deliver L (Some t) k0 st me) t rest.
Proof.
  intros Ht B me. pose proof B as (vgs & I & Hs & (G1 & G2 & G3)).
  destruct (Hs t Ht) as [Tt Ct]. rewrite rs_same in Tt. destruct (tin_head _ _ _ _ Tt) as [A1 Tt'].
  cbn [TM.tfeas] in A1. apply TP.mem_in in A1.
  destruct Ct as (C1 & C2 & C3 & C4 & C5). pose proof A1 as Ho. apply C1 in Ho.
  assert (Hop : In c (TM.opened (t_s (side st t)))).
  { destruct Tt as (R & Etg & _). destruct (TT.reach_inv _ _ R) as [U _]. apply (TP.u_opened _ _ U). rewrite Etg.
    apply TT.g_opened_gout_in. now left. }
  assert (Hm : mevs t st (TM.TOpened c) = [me]).
  { cbn [mevs]. apply TP.mem_in in Hop. rewrite Hop. reflexivity. }
  set (m := s_m st) in *. set (g := s_g st) in *.
  assert (Hf : feas L m g me) by (cbn [feas]; split; [reflexivity|]; split; [exact (inst_tagged t Ht) | exact Ho]).
  split; [exact Hm|]. split; [exact Hf|].
  destruct (opened_step L m g c t I Hf) as (p & ts & Hp & Hst & Hin_t & H).
  pose proof (step_counter L m me) as Cn. cbn zeta in Cn. destruct Cn as (_ & _ & Hd & _).
  destruct (Hd eq_refl) as [Hctr _].
  pose proof (linv_step L m g me I Hf) as I'.
  assert (Hne : me <> AllocConn) by discriminate.
  assert (Hos : snd (step L m me) = map (CallCancel c) ts ++ [CallNegotiate c t]).
  { revert H. fold me. destruct (step L m me) as [m' os0]. cbn [snd]. tauto. }
  clear H.
  set (os := snd (step L m me)) in *.
  set (cs := fun u => flat_map (TR.fwd u (TR.tgt me) (k0 u)) (map (CallCancel c) ts)).
  assert (Hcalls : forall u, flat_map (TR.fwd u (TR.tgt me) (k0 u)) os = cs u ++ (if t =? u then [TM.ENegotiate c] else [])).
  { intros u. rewrite Hos, flat_map_app. cbn [flat_map TR.fwd]. rewrite app_nil_r. reflexivity. }
  assert (Hside : forall u, tagged u ->
            side (deliver L (Some t) k0 st me) u = exec (side st u) (cs u ++ (if t =? u then [TM.ENegotiate c] else []))).
  { intros u Hu. rewrite side_deliver by exact Hu. unfold calls_to. fold m os.
    rewrite (ndraws_zero _ _ _ _ _ Hne Hctr), Hcalls. reflexivity. }
  assert (Fo : flat_map out_open os = []) by (rewrite Hos, flat_map_app, fm_open_cancels; reflexivity).
  assert (Fc : flat_map out_cancel os = map (pair c) ts).
  { rewrite Hos, flat_map_app, fm_cancel_cancels. cbn [flat_map out_cancel app]. apply app_nil_r. }
  assert (Fd : flat_map out_dialneg os = [c]) by (rewrite Hos, flat_map_app, fm_dialneg_cancels; reflexivity).
  assert (Hng : ~ In c (g_neg g)) by (exact (li_open_neg _ _ _ I c t Ho)).
  assert (Hcan : forall u y, In (TM.ECancel y) (cs u) <-> y = c /\ In u ts).
  { intros u y. unfold cs. rewrite in_fwd_cancel, in_map_iff. split.
    - intros (x & [= <- <-] & Hx). auto.
    - intros [-> Hx]. exists u. auto. }
  (* the open ledger of the manager afterwards *)
  assert (Hgo : forall c' u, In (c', u) (g_open (gstep me os g)) <->
                              In (c', u) (g_open g) /\ ~ (c' = c /\ u = t) /\ ~ (c' = c /\ In u ts)).
  { intros c' u. rewrite TR.gstep_open, Fo, Fc, in_app_iff, in_map_pair. cbn [TR.ans_open me In].
    split.
    - intros [[]|[Hg Hno]]. split; [exact Hg|]. split; [intros [-> ->]; apply Hno; left; now left | tauto].
    - intros (Hg & N1 & N2). right. split; [exact Hg|]. intros [[[= <- <-]|[]]|K]; tauto. }
  assert (Hgn : forall c', In c' (g_neg (gstep me os g)) <-> c' = c \/ In c' (g_neg g)).
  { intros c'. rewrite TR.gstep_neg, Fd. cbn [TR.ans_neg me In]. split; [intros [[<-|[]]|[K _]]; auto | intros [<-|K]; auto]. }
  set (vt := TS.gneg c (fold_left TS.pghost (cs t) (TM.gev (TM.TOpened c) (vgs t)))).
  set (vgs' := fun u => if u =? t then vt else fold_left TS.pghost (cs u) (vgs u)).
  assert (Evt : vgs' t = vt) by (unfold vgs'; assert (t =? t = true) as -> by lia; reflexivity).
  assert (Evo : forall u, u <> t -> vgs' u = fold_left TS.pghost (cs u) (vgs u)).
  { intros u Hu. unfold vgs'. assert (u =? t = false) as -> by lia. reflexivity. }
  assert (Hnegt : forall c', In c' (TM.g_neg vt) <-> c' = c \/ In c' (TM.g_neg (vgs t))).
  { intros c'. unfold vt. cbn [TS.gneg TM.g_neg In].
    destruct (TS.pfold_same (cs t) (TM.gev (TM.TOpened c) (vgs t))) as (P1 & _). rewrite P1.
    cbn [TM.gev TM.g_neg]. split; intros [K|K]; auto. }
  assert (Hnego : forall u, TM.g_neg (fold_left TS.pghost (cs u) (vgs u)) = TM.g_neg (vgs u)).
  { intros u. exact (proj1 (TS.pfold_same (cs u) (vgs u))). }
  assert (Hnc : forall u, tagged u -> ~ In c (TM.g_neg (vgs u))).
  { intros u Hu K. destruct (Hs u Hu) as [_ (_ & C2u & _)]. exact (Hng (C2u c K)). }
  exists vgs'. cbn [deliver s_m s_g]. fold m g os.
  split; [exact I'|].
  split.
  - intros u Hu. rewrite (Hside u Hu).
    destruct (fwd_cancels u (TR.tgt me) (k0 u) c ts) as (Hp1 & Hp2 & Hp3 & Hp4). fold (cs u) in Hp1, Hp2, Hp3, Hp4.
    destruct (tagged_dec u t Hu Ht) as [-> | Hut].
    + (* the transport that reported the connection *)
      rewrite rs_same, Evt. assert (t =? t = true) as -> by lia. rewrite <- exec_exec.
      assert (Hnot : ~ In c (TM.g_open (TM.gev (TM.TOpened c) (vgs t)))).
      { cbn [TM.gev TM.g_open]. rewrite TP.in_del. tauto. }
      destruct (tin_passive (side st t) (TM.gev (TM.TOpened c) (vgs t)) rest (cs t) Tt' Hp1) as [T1 Eop].
      { left. intros y K. apply Hp2 in K. subst y. exact Hnot. }
      { intros y [K|K]; [destruct (Hp3 y K) | destruct (Hp4 y K)]. }
      destruct (TS.pfold_same (cs t) (TM.gev (TM.TOpened c) (vgs t))) as (P1 & P2 & P3 & P4 & P5 & P6 & P7 & P8).
      split.
      * apply tin_negotiate; [exact T1 | rewrite Eop; exact Hop | |].
        -- rewrite TS.pfold_open. tauto.
        -- rewrite P1. cbn [TM.gev TM.g_neg]. intros K. exact (Hng (C2 c K)).
      * split; [|split; [|split; [|split]]].
        -- intros c'. rewrite Hgo. unfold vt. cbn [TS.gneg TM.g_open].
           rewrite TS.pfold_open, TR.gev_open_iff, <- C1, Hcan. cbn [TR.topen].
           split.
           ++ intros (Hg & N1 & N2). repeat split; [exact Hg | intros [= ->]; tauto | tauto].
           ++ intros ((Hg & N1) & N2). repeat split; [exact Hg | intros [-> _]; now apply N1 | tauto].
        -- intros c'. rewrite Hnegt, Hgn. intros [->|K]; [now left | right; now apply C2].
        -- intros c'. unfold vt. cbn [TS.gneg TM.g_inb]. rewrite P2. cbn [TM.gev TM.g_inb].
           rewrite TR.gstep_inb_same by discriminate. apply C3.
        -- intros c' q. rewrite (TR.gstep_att me os g eq_refl). unfold vt. cbn [TS.gneg TM.g_att TM.g_open TM.g_neg In].
           rewrite P8, P1. cbn [TM.gev TM.g_att TM.g_neg].
           intros Hl Hown. apply (C4 c' q Hl). destruct Hown as [K|[<-|K]]; [|now left|now right].
           apply TS.pfold_open in K. destruct K as [K _]. cbn [TM.g_open] in K. apply TP.in_del in K. left. exact (proj1 K).
        -- unfold vt. cbn [TS.gneg TM.g_ctr]. rewrite P7. cbn [TM.gev TM.g_ctr]. rewrite Hctr. exact C5.
    + (* the other transport: cancelled if it is in the set *)
      destruct (Hs u Hu) as [Tu Cu]. rewrite (rs_other t (TM.TOpened c :: rest) u Hut) in Tu.
      rewrite (rs_other t rest u Hut), (Evo u Hut). assert (t =? u = false) as -> by lia. rewrite app_nil_r.
      destruct (TS.pfold_same (cs u) (vgs u)) as (P1 & P2 & P3 & P4 & P5 & P6 & P7 & P8).
      split.
      * apply tin_passive; [exact Tu | exact Hp1 | now right | intros y _ q l []].
      * destruct Cu as (D1 & D2 & D3 & D4 & D5).
        split; [|split; [|split; [|split]]].
        -- intros c'. rewrite Hgo, TS.pfold_open, <- D1, Hcan. tauto.
        -- intros c'. rewrite P1, Hgn. intros K. right. now apply D2.
        -- intros c'. rewrite P2, TR.gstep_inb_same by discriminate. apply D3.
        -- intros c' q. rewrite (TR.gstep_att me os g eq_refl), P8, P1, TS.pfold_open.
           intros Hl Hown. apply (D4 c' q Hl). tauto.
        -- rewrite P7, Hctr. exact D5.
  - (* the two transports together *)
    assert (Hn' : forall u c', tagged u -> In c' (TM.g_neg (vgs' u)) -> (c' = c /\ u = t) \/ In c' (TM.g_neg (vgs u))).
    { intros u c' Hu. destruct (tagged_dec u t Hu Ht) as [-> | Hut].
      - rewrite Evt, Hnegt. intros [->|K]; auto.
      - rewrite (Evo u Hut), Hnego. auto. }
    assert (Hi' : forall u, tagged u -> TM.g_inb (vgs' u) = TM.g_inb (vgs u)).
    { intros u Hu. destruct (tagged_dec u t Hu Ht) as [-> | Hut].
      - rewrite Evt. unfold vt. cbn [TS.gneg TM.g_inb].
        destruct (TS.pfold_same (cs t) (TM.gev (TM.TOpened c) (vgs t))) as (_ & P2 & _). rewrite P2. reflexivity.
      - rewrite (Evo u Hut). exact (proj1 (proj2 (TS.pfold_same (cs u) (vgs u)))). }
    split; [|split].
    + intros u v c' Hu Hv Huv Hc K.
      destruct (Hn' u c' Hu Hc) as [[E1 E2]|Hc']; destruct (Hn' v c' Hv K) as [[E3 E4]|K'].
      * congruence.
      * subst c'. exact (Hnc v Hv K').
      * subst c'. exact (Hnc u Hu Hc').
      * exact (G1 u v c' Hu Hv Huv Hc' K').
    + intros u v c' Hu Hv Huv. rewrite (Hi' u Hu), (Hi' v Hv). now apply G2.
    + intros c'. rewrite Hgn. intros [->|K].
      * exists t. split; [exact Ht|]. rewrite Evt, Hnegt. now left.
      * destruct (G3 c' K) as (u & Hu & Hin). exists u. split; [exact Hu|].
        destruct (tagged_dec u t Hu Ht) as [-> | Hut]; [rewrite Evt, Hnegt; now right | now rewrite (Evo u Hut), Hnego].
Qed.


(* ---------- PendingInboundConnection from t: t drew the id, the other transport's counter
   follows, the manager answers on t ---------- *)
Lemma deliver_pinb st t c rest :
  tagged t -> BInv L st t (TM.TPendingInbound c :: rest) ->
  feasible L (s_m st) (s_g st) (mevs t st (TM.TPendingInbound c)) /\
  BInv L (deliver_tev L t st (TM.TPendingInbound c)) t rest.
Proof.
  intros Ht B. pose proof B as (vgs & I & Hs & (G1 & G2 & G3)).
  destruct (Hs t Ht) as [Tt Ct]. rewrite rs_same in Tt.
  pose proof Tt as (Rt & Etg & A & _ & LO).
  pose proof (TS.last_only_head _ _ LO eq_refl) as ->.
  split; [cbn [mevs feasible feas]; repeat split|].
  cbn [map TM.audit TM.audit_by TM.tfeas] in A. rewrite andb_true_r in A.
  repeat (apply andb_prop in A; destruct A as [A ?]).
  destruct Ct as (C1 & C2 & C3 & C4 & C5).
  set (m := s_m st) in *. set (g := s_g st) in *.
  assert (Hc : c = next_conn m) by lia.
  cbn [map fold_left TM.gout] in Etg.
  unfold deliver_tev. cbn [mevs fold_left].
  (* AllocConn *)
  set (st1 := deliver L (Some t) k0 st AllocConn).
  pose proof (linv_step L m g AllocConn I Logic.I) as I1. cbn [step fst snd] in I1.
  set (m1 := bump_conn m) in *. set (g1 := gstep AllocConn [Ret (RET_ALLOC + next_conn m)] g) in *.
  assert (Em1 : s_m st1 = m1) by reflexivity. assert (Eg1 : s_g st1 = g1) by reflexivity.
  assert (Hside1 : forall u, tagged u -> side st1 u = exec (side st u) (repeat TM.EDraw (if u =? t then 0%nat else 1%nat))).
  { intros u Hu. unfold st1. rewrite side_deliver by exact Hu. unfold calls_to.
    cbn [step snd flat_map TR.fwd ndraws app]. rewrite app_nil_r. reflexivity. }
  assert (Hg1o : forall x, In x (g_open g1) <-> In x (g_open g)).
  { intros x. unfold g1. rewrite TR.gstep_open. cbn [flat_map out_open out_cancel TR.ans_open app In]. tauto. }
  assert (Hg1n : forall x, In x (g_neg g1) <-> In x (g_neg g)).
  { intros x. unfold g1. rewrite TR.gstep_neg. cbn [flat_map out_dialneg TR.ans_neg app In]. tauto. }
  assert (Hg1i : forall x, In x (g_inb g1) <-> x = next_conn m \/ In x (g_inb g)).
  { intros x. unfold g1, gstep. cbn [g_inb]. rewrite alloc_of_ret. cbn [app In]. intuition. }
  assert (Hg1a : g_att g1 = g_att g) by (exact (TR.gstep_att AllocConn _ g eq_refl)).
  (* PendingInboundConnection *)
  assert (Hstep : exists o, (o = CallRejectPending c t \/ o = CallAcceptPending c t) /\
                            step L m1 (TrPendingInbound c t) = (m1, [o])).
  { cbn [step]. rewrite (inst_tagged t Ht). destruct (limit_reached (max_in L) (ins m1)); [exists (CallRejectPending c t) | exists (CallAcceptPending c t)]; split; auto. }
  destruct Hstep as (o & Ho & Es).
  set (st2 := deliver L (Some t) k0 st1 (TrPendingInbound c t)).
  assert (Em2 : s_m st2 = m1) by (unfold st2; cbn [deliver s_m]; rewrite Em1, Es; reflexivity).
  assert (Eg2 : s_g st2 = g1).
  { unfold st2. cbn [deliver s_g]. rewrite Em1, Eg1, Es. cbn [snd]. apply gstep_quiet_cmd; [|exact Logic.I].
    destruct Ho as [-> | ->]; unfold quiet, alloc_of; cbn; repeat split. }
  assert (Hfw : exists e, (e = TM.ERejectPending c \/ e = TM.EAcceptPending c) /\
            forall u, flat_map (TR.fwd u (TR.tgt (TrPendingInbound c t)) (k0 u)) [o] = if t =? u then [e] else []).
  { destruct Ho as [-> | ->]; [exists (TM.ERejectPending c) | exists (TM.EAcceptPending c)]; (split; [auto|]);
      intros u; cbn [flat_map TR.fwd]; destruct (t =? u); reflexivity. }
  destruct Hfw as (e & He & Hfw).
  assert (Hside2 : forall u, tagged u -> side st2 u = exec (side st1 u) (if t =? u then [e] else [])).
  { intros u Hu. unfold st2. rewrite side_deliver by exact Hu. unfold calls_to. rewrite Em1, Es. cbn [fst snd].
    rewrite (ndraws_zero _ _ _ m1 m1) by (discriminate || reflexivity). cbn [repeat app]. rewrite (Hfw u). reflexivity. }
  (* the polled transport *)
  assert (Xt : let x' := side st2 t in
            TT.reach (t_s x') (t_g x') /\ TM.g_open (t_g x') = TM.g_open (vgs t) /\ TM.g_neg (t_g x') = TM.g_neg (vgs t) /\
            (forall y, In y (TM.g_inb (t_g x')) -> y = c \/ In y (TM.g_inb (vgs t))) /\
            TM.g_att (t_g x') = TM.g_att (vgs t) /\ TM.g_ctr (t_g x') = TM.g_ctr (vgs t) + 1).
  { cbn zeta. rewrite (Hside2 t Ht), (Hside1 t Ht). assert (t =? t = true) as -> by lia. cbn [repeat].
    rewrite exec_exec. cbn [app].
    destruct (tin_pinb (side st t) c e He Rt) as (R' & Q1 & Q2 & Q3 & Q4 & Q5). cbn zeta in *.
    rewrite Etg in Q1, Q2, Q3, Q4, Q5. cbn [TM.gev TM.g_open TM.g_neg TM.g_inb TM.g_att TM.g_ctr] in Q1, Q2, Q3, Q4, Q5.
    repeat split; assumption. }
  (* the other transport *)
  assert (Xo : forall u, tagged u -> u <> t -> let x' := side st2 u in
            TT.reach (t_s x') (t_g x') /\ TM.g_open (t_g x') = TM.g_open (vgs u) /\ TM.g_neg (t_g x') = TM.g_neg (vgs u) /\
            TM.g_inb (t_g x') = TM.g_inb (vgs u) /\
            TM.g_att (t_g x') = TM.g_att (vgs u) /\ TM.g_ctr (t_g x') = TM.g_ctr (vgs u) + 1).
  { intros u Hu Hut. cbn zeta. rewrite (Hside2 u Hu), (Hside1 u Hu).
    assert (t =? u = false) as -> by lia. assert (u =? t = false) as -> by lia. rewrite exec_exec, app_nil_r.
    destruct (Hs u Hu) as [Tu _]. rewrite (rs_other t _ u Hut) in Tu. destruct (tin_nil_inv _ _ Tu) as [Ru ->].
    destruct (tin_draws (side st u) 1 Ru) as (R' & Q1 & Q2 & Q3 & Q4 & Q5). cbn zeta in *.
    repeat split; assumption. }
  apply inv_binv. split; [rewrite Em2, Eg2; exact I1|].
  split.
  - intros u Hu. rewrite Em2, Eg2. destruct (tagged_dec u t Hu Ht) as [-> | Hut].
    + cbn zeta in Xt. destruct Xt as (R' & Q1 & Q2 & Q3 & Q4 & Q5). split; [exact R'|].
      split; [|split; [|split; [|split]]].
      * intros x. rewrite Hg1o, Q1. apply C1.
      * intros x. rewrite Hg1n, Q2. apply C2.
      * intros x Hx. apply Hg1i. destruct (Q3 x Hx) as [-> | Hx']; [now left | right; now apply C3].
      * intros x p. rewrite Hg1a, Q1, Q2, Q4. apply C4.
      * rewrite Q5, C5. unfold m1. cbn [bump_conn next_conn]. reflexivity.
    + destruct (Xo u Hu Hut) as (R' & Q1 & Q2 & Q3 & Q4 & Q5). cbn zeta in *. split; [exact R'|].
      destruct (Hs u Hu) as [_ (D1 & D2 & D3 & D4 & D5)].
      split; [|split; [|split; [|split]]].
      * intros x. rewrite Hg1o, Q1. apply D1.
      * intros x. rewrite Hg1n, Q2. apply D2.
      * intros x. rewrite Q3. intros Hx. apply Hg1i. right. now apply D3.
      * intros x p. rewrite Hg1a, Q1, Q2, Q4. apply D4.
      * rewrite Q5, D5. unfold m1. cbn [bump_conn next_conn]. reflexivity.
  - rewrite Eg2.
    assert (Hn' : forall u, tagged u -> TM.g_neg (t_g (side st2 u)) = TM.g_neg (vgs u)).
    { intros u Hu. destruct (tagged_dec u t Hu Ht) as [-> | Hut]; [exact (proj1 (proj2 (proj2 Xt)))|].
      exact (proj1 (proj2 (proj2 (Xo u Hu Hut)))). }
    assert (Hi' : forall u x, tagged u -> In x (TM.g_inb (t_g (side st2 u))) -> (x = c /\ u = t) \/ In x (TM.g_inb (vgs u))).
    { intros u x Hu. destruct (tagged_dec u t Hu Ht) as [-> | Hut].
      - cbn zeta in Xt. destruct Xt as (_ & _ & _ & Q3 & _). intros Hx. destruct (Q3 x Hx); auto.
      - destruct (Xo u Hu Hut) as (_ & _ & _ & Q3 & _). cbn zeta in Q3. rewrite Q3. auto. }
    assert (Hfr : forall u, tagged u -> ~ In c (TM.g_inb (vgs u))).
    { intros u Hu K. destruct (Hs u Hu) as [_ (_ & _ & D3 & _)]. apply D3 in K.
      destruct (inb_facts _ _ _ _ I K) as (_ & _ & _ & _ & _ & Hlt). lia. }
    split; [|split].
    + intros u v x Hu Hv Huv. rewrite (Hn' u Hu), (Hn' v Hv). now apply G1.
    + intros u v x Hu Hv Huv Hx K.
      destruct (Hi' u x Hu Hx) as [[E1 E2]|Hx']; destruct (Hi' v x Hv K) as [[E3 E4]|K'].
      * congruence.
      * subst x. exact (Hfr v Hv K').
      * subst x. exact (Hfr u Hu Hx').
      * exact (G2 u v x Hu Hv Huv Hx' K').
    + intros x Hx. apply Hg1n in Hx. destruct (G3 x Hx) as (u & Hu & Hin). exists u. split; [exact Hu|].
      now rewrite (Hn' u Hu).
Qed.

(* one event of transport t: what the manager is handed is feasible, and the invariant holds for the rest *)
Lemma deliver_tev_inv st t te rest :
  tagged t -> BInv L st t (te :: rest) ->
  feasible L (s_m st) (s_g st) (mevs t st te) /\ BInv L (deliver_tev L t st te) t rest.
Proof.
  intros Ht B. destruct te as [c|c|c|c q l|c].
  - now apply deliver_pinb.
  - destruct (deliver_opened st t c rest Ht B) as (Hm & Hf & B'). unfold deliver_tev. rewrite Hm.
    cbn [fold_left feasible]. split; [split; [exact Hf | exact Logic.I] | exact B'].
  - destruct (deliver_open_failure st t c rest Ht B) as (Hf & B'). unfold deliver_tev.
    cbn [mevs fold_left feasible]. split; [split; [exact Hf | exact Logic.I] | exact B'].
  - destruct (deliver_established st t c q l rest Ht B) as (Hm & Hf & B'). unfold deliver_tev. rewrite Hm.
    cbn [fold_left feasible]. split; [split; [exact Hf | exact Logic.I] | exact B'].
  - destruct (deliver_dial_failure st t c rest Ht B) as (Hf & B'). unfold deliver_tev.
    cbn [mevs fold_left feasible]. split; [split; [exact Hf | exact Logic.I] | exact B'].
Qed.

End Compose.
