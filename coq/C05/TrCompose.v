(* C05 — the manager model (coq/Mgr) composed with the model of ANY ONE installed socket transport.

   coq/C05/TcpCompose.v plugs the manager model and the bookkeeping model of coq/Tcp into each other for
   configurations in which TCP is the only installed transport. Nothing in that development depends
   on the transport being TCP: this file is the same composition for an arbitrary transport tag `Tg`
   (Section Transport; the proofs are those of TcpCompose.v with the tag abstracted), and then says
   what the bookkeeping model stands for: by coq/Tcp/Variants.v the calls the composition forwards
   (`fwd`) are exactly the images under `ev_of t` of the REAL trait calls with the canonical
   addresses of the dialled peer (`canon p Tg`), for t the transport of that tag — TCP -> TTcp,
   WS -> TWs — so the instance of the bookkeeping model inside the composed system is the model of
   WebSocketTransport when Tg = WS (theorems `fwd_real`, `sys_transport_history`). Hence for
   configurations with WebSocket as the only installed transport the contract `feas` is discharged
   as well (theorems C05_sysws_...).

   Two transports installed at the same time (one connection id opened on both) are NOT covered:
   that needs one instance of the bookkeeping model per transport, the shared counter kept in step
   between them, and the negotiate ledger of the manager split by transport. *)
From Coq Require Import List Arith NArith Bool Lia.
From Coq Require Import ZifyBool ZifyNat ZifyN.
From V.C10 Require Model.
From V.Mgr Require Import DialShape Model Caps Ledger LedgerInv Calls.
From V.Tcp Require Model Proofs Theorems Variants VariantTheorems.
From V.C05 Require TcpSide.
Import ListNotations.
Open Scope N_scope.

Module TM := V.Tcp.Model.
Module TP := V.Tcp.Proofs.
Module TT := V.Tcp.Theorems.
Module TS := V.C05.TcpSide.

Arguments N.add : simpl never.
Arguments N.sub : simpl never.
Arguments N.eqb : simpl never.
Arguments N.leb : simpl never.
Arguments N.ltb : simpl never.
Arguments N.of_nat : simpl never.
Arguments N.to_nat : simpl never.
Arguments TM.put : simpl never.
Arguments TM.lookup : simpl never.
Arguments TM.delk : simpl never.
Arguments TM.add : simpl never.
Arguments TM.del : simpl never.
Arguments TM.mem : simpl never.

(* ====================================================================================== *)
(* The composed system                                                                     *)
(* ====================================================================================== *)

Section Transport.
Variable Tg : tr.

(* a call of the manager on the Tg transport. `p`: the peer the dial request names (every address
   the manager hands to open / dial ends in /p2p/p); `k`: how many addresses beyond the first the
   address store handed out for this transport. A call on another transport does not reach Tg. *)
Definition fwd (p : peer) (k : nat) (o : out) : list TM.ev :=
  match o with
  | CallOpen c t => if t =? Tg then [TM.EOpen c (repeat (Some p) (S k))] else []
  | CallDial c t => if t =? Tg then [TM.EDial c true (Some p)] else []
  | CallNegotiate c t => if t =? Tg then [TM.ENegotiate c] else []
  | CallCancel c t => if t =? Tg then [TM.ECancel c] else []
  | CallAccept c t => if t =? Tg then [TM.EAccept c] else []
  | CallReject c t => if t =? Tg then [TM.EReject c] else []
  | CallAcceptPending c t => if t =? Tg then [TM.EAcceptPending c] else []
  | CallRejectPending c t => if t =? Tg then [TM.ERejectPending c] else []
  | _ => []
  end.

Record sys := mkSys {
  s_m : mgr; s_g : ghost;            (* the manager model and its ledger *)
  s_t : TM.tcp; s_tg : TM.ghost      (* the Tg model and the ghost state of its contract *)
}.

Definition sys0 : sys := mkSys init g0 TM.init TM.g0.

Definition tgt (e : ev) : peer := match ev_target e with Some p => p | None => 0 end.

(* ids the manager draws from the shared counter in a step (`next_connection_id()`); for AllocConn
   it is the transport that draws *)
Definition ndraws (e : ev) (m m' : mgr) : nat :=
  match e with AllocConn => 0%nat | _ => N.to_nat (next_conn m' - next_conn m) end.

Section Compose.
Variable L : limits.

(* the manager handles one event; the ids it draws and the calls it makes go to the Tg model *)
Definition deliver (k : nat) (st : sys) (e : ev) : sys :=
  let m' := fst (step L (s_m st) e) in
  let os := snd (step L (s_m st) e) in
  let calls := repeat TM.EDraw (ndraws e (s_m st) m') ++ flat_map (fwd (tgt e) k) os in
  let r := TS.trun (s_t st) (s_tg st) calls in
  mkSys m' (gstep e os (s_g st)) (fst r) (snd r).

(* the peer the addresses of a dial / open call named: the address a failure reports is one the
   transport was handed (the Tg model keeps the addresses in the ghost component g_att) *)
Definition named_peer (tg : TM.ghost) (c : conn) : peer :=
  match TM.lookup c (TM.g_att tg) with Some (Some p :: _) => p | _ => 0 end.

(* a TransportEvent of Tg as the manager sees it. The outcome of the negotiate / accept call the
   handler is going to make is the Tg model's: negotiate(c) fails unless c is in `opened`,
   accept(c) fails unless c is in `pending_open`. *)
Definition mevs (st : sys) (t : TM.tev) : list ev :=
  match t with
  | TM.TPendingInbound c => [AllocConn; TrPendingInbound c Tg]
  | TM.TOpened c => [TrOpened c Tg (negb (TM.mem c (TM.opened (s_t st))))]
  | TM.TOpenFailure c => [TrOpenFailure c Tg (named_peer (s_tg st) c)]
  | TM.TEstablished c q l => [TrEstablished q c Tg l (negb (TM.mem c (TM.pending_open (s_t st))))]
  | TM.TDialFailure c => [TrDialFailure c Tg (named_peer (s_tg st) c)]
  end.

Definition deliver_tev (st : sys) (t : TM.tev) : sys := fold_left (deliver 0) (mevs st t) st.

Fixpoint tevs_trace (st : sys) (ts : list TM.tev) : list ev :=
  match ts with
  | [] => []
  | t :: r => mevs st t ++ tevs_trace (deliver_tev st t) r
  end.

(* inputs from outside the two models *)
Inductive xev :=
| XCmd (e : ev) (k : nat)     (* the user / protocol side *)
| XNet (n : TM.ev).           (* the network / the runtime *)

Definition after_net (st : sys) (n : TM.ev) : sys :=
  mkSys (s_m st) (s_g st) (fst (TM.step (s_t st) n)) (TM.gstep n (snd (TM.step (s_t st) n)) (s_tg st)).

Definition sys_step (st : sys) (x : xev) : sys :=
  match x with
  | XCmd e k => deliver k st e
  | XNet n => fold_left deliver_tev (TM.events (snd (TM.step (s_t st) n))) (after_net st n)
  end.

(* the events the manager handles in that step *)
Definition sys_evs (st : sys) (x : xev) : list ev :=
  match x with
  | XCmd e _ => [e]
  | XNet n => tevs_trace (after_net st n) (TM.events (snd (TM.step (s_t st) n)))
  end.

Fixpoint sys_run (st : sys) (xs : list xev) : sys :=
  match xs with [] => st | x :: r => sys_run (sys_step st x) r end.

Fixpoint sys_trace (st : sys) (xs : list xev) : list ev :=
  match xs with [] => [] | x :: r => sys_evs st x ++ sys_trace (sys_step st x) r end.

(* what is still assumed: the inputs from outside are of the right kind, and satisfy the clauses of
   `feas` that speak about the address store (`choice_ok`), the calls that cannot fail in the Tg
   model (open, dial of a well-formed address) and the protocols (accept futures succeed) *)
Definition is_cmd (e : ev) : bool :=
  match e with
  | CmdDialPeer _ _ _ | CmdDialAddr _ _ _ | CmdAddAddr _ _ | AcceptDone _ _ | Closed _ _
  | CmdDialShape _ | HDialPeer _ _ _ _ | HDialAddr _ _ => true
  | _ => false
  end.

Definition xok (st : sys) (x : xev) : Prop :=
  match x with
  | XCmd e _ => is_cmd e = true /\ feas L (s_m st) (s_g st) e
  | XNet n => TM.polls n = true
  end.

Fixpoint xfeasible (st : sys) (xs : list xev) : Prop :=
  match xs with [] => True | x :: r => xok st x /\ xfeasible (sys_step st x) r end.

(* ---------- the manager part of the composed run is the manager model run on the trace ---------- *)
Lemma lrun_app es1 : forall m g es2,
  lrun L m g (es1 ++ es2) = lrun L (fst (lrun L m g es1)) (snd (lrun L m g es1)) es2.
Proof.
  induction es1 as [|e r IH]; intros m g es2; cbn [lrun app fst snd]; [reflexivity | apply IH].
Qed.

Lemma deliver_mgr k st e :
  (s_m (deliver k st e), s_g (deliver k st e)) = lrun L (s_m st) (s_g st) [e].
Proof. reflexivity. Qed.

Lemma fold_deliver_mgr k es : forall st,
  (s_m (fold_left (deliver k) es st), s_g (fold_left (deliver k) es st)) = lrun L (s_m st) (s_g st) es.
Proof.
  induction es as [|e r IH]; intros st; cbn [fold_left lrun]; [reflexivity|]. rewrite IH. reflexivity.
Qed.

Lemma tevs_mgr ts : forall st,
  (s_m (fold_left deliver_tev ts st), s_g (fold_left deliver_tev ts st)) =
  lrun L (s_m st) (s_g st) (tevs_trace st ts).
Proof.
  induction ts as [|t r IH]; intros st; cbn [fold_left tevs_trace]; [reflexivity|].
  rewrite IH, lrun_app. unfold deliver_tev at 1 2. rewrite <- (fold_deliver_mgr 0 (mevs st t) st). reflexivity.
Qed.

Lemma sys_step_mgr st x :
  (s_m (sys_step st x), s_g (sys_step st x)) = lrun L (s_m st) (s_g st) (sys_evs st x).
Proof. destruct x as [e k|n]; cbn [sys_step sys_evs]; [reflexivity | apply (tevs_mgr _ (after_net st n))]. Qed.

Theorem sys_run_mgr xs : forall st,
  (s_m (sys_run st xs), s_g (sys_run st xs)) = lrun L (s_m st) (s_g st) (sys_trace st xs).
Proof.
  induction xs as [|x r IH]; intros st; cbn [sys_run sys_trace]; [reflexivity|].
  rewrite IH, lrun_app, <- (sys_step_mgr st x). reflexivity.
Qed.


(* ====================================================================================== *)
(* What a manager step does to its ledger and which calls it makes, read off its outputs   *)
(* ====================================================================================== *)
Hypothesis only_tcp : forall t, installed L t = true <-> t = Tg.

Lemma inst_tcp : installed L Tg = true.
Proof. now apply only_tcp. Qed.

Lemma tcp_eqb : Tg =? Tg = true.
Proof. apply N.eqb_refl. Qed.

Definition ans_open (e : ev) : list (conn * tr) :=
  match e with TrOpened c t _ | TrOpenFailure c t _ => [(c, t)] | _ => [] end.
Definition ans_neg (e : ev) : list conn :=
  match e with TrDialFailure c _ _ | TrEstablished _ c _ false _ => [c] | _ => [] end.

Lemma gstep_open e os g x :
  In x (g_open (gstep e os g)) <->
  In x (flat_map out_open os) \/ (In x (g_open g) /\ ~ In x (ans_open e ++ flat_map out_cancel os)).
Proof. unfold gstep, ans_open. cbn [g_open]. rewrite in_app_iff, in_removes_p. reflexivity. Qed.

Lemma gstep_neg e os g x :
  In x (g_neg (gstep e os g)) <-> In x (flat_map out_dialneg os) \/ (In x (g_neg g) /\ ~ In x (ans_neg e)).
Proof. unfold gstep, ans_neg. cbn [g_neg]. rewrite in_app_iff, in_removes. reflexivity. Qed.

Lemma gstep_att e os g : ev_target e = None -> g_att (gstep e os g) = g_att g.
Proof. intros H. unfold gstep. rewrite H. reflexivity. Qed.

Lemma gstep_inb_same e os g :
  e <> AllocConn -> (forall p c t f, e <> TrEstablished p c t true f) -> g_inb (gstep e os g) = g_inb g.
Proof.
  intros H1 H2. unfold gstep. cbn [g_inb]. destruct e; try reflexivity; try congruence.
  destruct listener; [exfalso; eapply H2; reflexivity | reflexivity].
Qed.

Lemma gstep_inb_est p c t f os g x :
  In x (g_inb (gstep (TrEstablished p c t true f) os g)) <-> In x (g_inb g) /\ x <> c.
Proof. unfold gstep. cbn [g_inb app]. apply in_removes1. Qed.

Lemma in_fm_open os x t : In (x, t) (flat_map out_open os) <-> In (CallOpen x t) os.
Proof.
  rewrite in_flat_map. split.
  - intros (o & Ho & H). destruct o; cbn [out_open] in H; try contradiction.
    destruct H as [[= <- <-]|[]]. exact Ho.
  - intros H. exists (CallOpen x t). split; [exact H | now left].
Qed.

Lemma in_fm_cancel os x t : In (x, t) (flat_map out_cancel os) <-> In (CallCancel x t) os.
Proof.
  rewrite in_flat_map. split.
  - intros (o & Ho & H). destruct o; cbn [out_cancel] in H; try contradiction.
    destruct H as [[= <- <-]|[]]. exact Ho.
  - intros H. exists (CallCancel x t). split; [exact H | now left].
Qed.

Lemma in_fm_dialneg os x :
  In x (flat_map out_dialneg os) <-> exists t, In (CallDial x t) os \/ In (CallNegotiate x t) os.
Proof.
  rewrite in_flat_map. split.
  - intros (o & Ho & H). destruct o; cbn [out_dialneg] in H; try contradiction;
      destruct H as [<-|[]]; exists t; auto.
  - intros (t & [H|H]); [exists (CallDial x t) | exists (CallNegotiate x t)]; (split; [exact H | now left]).
Qed.

(* which calls reach Tg *)
Ltac fwd_inv H :=
  match type of H with
  | In _ (fwd _ _ ?o) =>
      destruct o; cbn [fwd] in H; try contradiction;
      match type of H with
      | In _ (if ?t =? Tg then _ else _) =>
          let E := fresh "E" in destruct (t =? Tg) eqn:E; cbn [In] in H; try contradiction;
          destruct H as [H|[]]; try discriminate; assert (t = Tg) by lia; subst t
      end
  end.

Lemma in_fwd_cancel p k os y : In (TM.ECancel y) (flat_map (fwd p k) os) <-> In (CallCancel y Tg) os.
Proof.
  rewrite in_flat_map. split.
  - intros (o & Ho & H). fwd_inv H. injection H as <-. exact Ho.
  - intros H. exists (CallCancel y Tg). split; [exact H | cbn [fwd]; rewrite tcp_eqb; now left].
Qed.

Lemma in_fwd_accept p k os y : In (TM.EAccept y) (flat_map (fwd p k) os) <-> In (CallAccept y Tg) os.
Proof.
  rewrite in_flat_map. split.
  - intros (o & Ho & H). fwd_inv H. injection H as <-. exact Ho.
  - intros H. exists (CallAccept y Tg). split; [exact H | cbn [fwd]; rewrite tcp_eqb; now left].
Qed.

Lemma in_fwd_reject p k os y : In (TM.EReject y) (flat_map (fwd p k) os) <-> In (CallReject y Tg) os.
Proof.
  rewrite in_flat_map. split.
  - intros (o & Ho & H). fwd_inv H. injection H as <-. exact Ho.
  - intros H. exists (CallReject y Tg). split; [exact H | cbn [fwd]; rewrite tcp_eqb; now left].
Qed.

(* outputs that make no call the transport would owe an answer for *)
Definition calm (o : out) : Prop :=
  match o with
  | CallOpen _ _ | CallDial _ _ | CallNegotiate _ _ | CallAcceptPending _ _ => False
  | _ => True
  end.

Lemma calm_passive p k os : Forall calm os -> forallb TS.passive (flat_map (fwd p k) os) = true.
Proof.
  intros H. induction H as [|o r Ho Hr IH]; [reflexivity|]. cbn [flat_map]. rewrite forallb_app, IH, andb_true_r.
  destruct o; cbn [calm] in Ho; try contradiction; cbn [fwd]; try reflexivity; destruct (t =? Tg); reflexivity.
Qed.

Lemma calm_no_open os : Forall calm os -> flat_map out_open os = [].
Proof.
  intros H. induction H as [|o r Ho Hr IH]; [reflexivity|]. cbn [flat_map]. rewrite IH.
  destruct o; cbn [calm] in Ho; try contradiction; reflexivity.
Qed.

Lemma calm_no_dialneg os : Forall calm os -> flat_map out_dialneg os = [].
Proof.
  intros H. induction H as [|o r Ho Hr IH]; [reflexivity|]. cbn [flat_map]. rewrite IH.
  destruct o; cbn [calm] in Ho; try contradiction; reflexivity.
Qed.

Lemma no_new_id os o : existsb new_id os = false -> In o os -> new_id o = false.
Proof.
  intros H Hin. destruct (new_id o) eqn:E; [|reflexivity].
  assert (existsb new_id os = true) by (apply existsb_exists; eauto). congruence.
Qed.

(* the handlers of the transport events other than ConnectionOpened / PendingInboundConnection
   (and the commands that are no dial requests) only make such calls *)
Lemma calm_step m e :
  no_draw e = true -> (forall c t f, e <> TrOpened c t f) -> (forall c t, e <> TrPendingInbound c t) ->
  Forall calm (snd (step L m e)) /\ next_conn (fst (step L m e)) = next_conn m.
Proof.
  intros Hn H1 H2. pose proof (step_counter L m e) as C. cbn zeta in C. destruct C as (_ & _ & Hd & _).
  destruct (Hd Hn) as [Hc Hid]. split; [|exact Hc].
  apply Forall_forall. intros o Ho.
  pose proof (step_prov L m e) as P. rewrite Forall_forall in P. specialize (P o Ho).
  pose proof (no_new_id _ _ Hid Ho) as Hnew.
  destruct o; cbn [calm]; auto; try discriminate.
  - cbn [prov] in P. destruct P as (c0 & f & p & ts & -> & _). eapply H1. reflexivity.
  - cbn [prov] in P. subst e. eapply H2. reflexivity.
Qed.

(* an accept / reject call of the ConnectionEstablished handler names the connection of the event *)
Lemma est_accept_id m p c t l f y u :
  In (CallAccept y u) (snd (step L m (TrEstablished p c t l f))) \/
  In (CallReject y u) (snd (step L m (TrEstablished p c t l f))) -> y = c.
Proof.
  pose proof (step_prov L m (TrEstablished p c t l f)) as P. rewrite Forall_forall in P.
  intros [H|H]; specialize (P _ H); cbn [prov] in P; destruct P as (p0 & l0 & f0 & [= _ -> _ _ _]); reflexivity.
Qed.

(* a cancel call names the connection id of a peer in the opening phase *)
Lemma cancel_opening m e y u :
  In (CallCancel y u) (snd (step L m e)) -> exists p ts, state_of m p = Opening y ts /\ In u ts.
Proof.
  pose proof (step_prov L m e) as P. rewrite Forall_forall in P. intros H. exact (P _ H).
Qed.

(* ====================================================================================== *)
(* The coupling between the two ledgers                                                    *)
(* ====================================================================================== *)
(* what the manager's ledger says Tg owes is what the ledger of the Tg contract says; the
   attempts of the manager are the dial / open calls the transport saw, naming the same peer;
   the two sides agree on the id counter *)
Definition Cpl (m : mgr) (g : ghost) (vg : TM.ghost) : Prop :=
  (forall c, In (c, Tg) (g_open g) <-> In c (TM.g_open vg)) /\
  (forall c, In c (g_neg g) <-> In c (TM.g_neg vg)) /\
  (forall c, In c (TM.g_inb vg) -> In c (g_inb g)) /\
  (forall c p, lookup c (g_att g) = Some p ->
     exists es, TM.lookup c (TM.g_att vg) = Some es /\ es <> [] /\ forall x, In x es -> x = Some p) /\
  TM.g_ctr vg = next_conn m.

(* The invariant while the events of one poll are being handled. `rest`: the events the Tg model
   has emitted (its ghost s_tg has accounted for them) and the manager has not seen yet; `vg` is the
   Tg ledger as the manager has seen it. Between two inputs rest = []. *)
Definition BInv (st : sys) (rest : list TM.tev) : Prop :=
  exists vg,
    LInv L (s_m st) (s_g st) /\ TT.reach (s_t st) (s_tg st) /\
    s_tg st = fold_left TM.gout (map TM.OEv rest) vg /\
    Cpl (s_m st) (s_g st) vg /\
    TM.audit vg (map TM.OEv rest) = true /\
    (forall c q l, In (TM.TEstablished c q l) rest -> In c (TM.pending_open (s_t st))) /\
    TS.last_only rest.

Definition Inv (st : sys) : Prop := BInv st [].

Definition topen (t : TM.tev) : option conn :=
  match t with TM.TOpened c | TM.TOpenFailure c => Some c | _ => None end.
Definition tneg (t : TM.tev) : option conn :=
  match t with TM.TDialFailure c | TM.TEstablished c _ false => Some c | _ => None end.
Definition tinb (t : TM.tev) : option conn :=
  match t with TM.TEstablished c _ true => Some c | _ => None end.

Lemma gev_open_iff t g x : In x (TM.g_open (TM.gev t g)) <-> In x (TM.g_open g) /\ topen t <> Some x.
Proof.
  destruct t as [c|c|c|c q [|]|c]; cbn [TM.gev TM.g_open topen]; rewrite ?TP.in_del;
    intuition congruence.
Qed.

Lemma gev_neg_iff t g x : In x (TM.g_neg (TM.gev t g)) <-> In x (TM.g_neg g) /\ tneg t <> Some x.
Proof.
  destruct t as [c|c|c|c q [|]|c]; cbn [TM.gev TM.g_neg tneg]; rewrite ?TP.in_del;
    intuition congruence.
Qed.

Lemma gev_inb_iff t g x : In x (TM.g_inb (TM.gev t g)) <-> In x (TM.g_inb g) /\ tinb t <> Some x.
Proof.
  destruct t as [c|c|c|c q [|]|c]; cbn [TM.gev TM.g_inb tinb]; rewrite ?TP.in_del;
    intuition congruence.
Qed.

Lemma gev_ctr t g : (forall c, t <> TM.TPendingInbound c) -> TM.g_ctr (TM.gev t g) = TM.g_ctr g.
Proof. destruct t as [c|c|c|c q [|]|c]; intros H; try reflexivity. exfalso. eapply H. reflexivity. Qed.

Lemma ndraws_zero e m m' : next_conn m' = next_conn m -> ndraws e m m' = 0%nat.
Proof. intros H. unfold ndraws. rewrite H, N.sub_diag. destruct e; reflexivity. Qed.

(* ---------- an event whose handler makes no call that adds to what the transport owes ---------- *)
Lemma deliver_calm st t rest me :
  BInv st (t :: rest) ->
  (forall c, t <> TM.TPendingInbound c) ->
  no_draw me = true -> (forall c u f, me <> TrOpened c u f) -> (forall c u, me <> TrPendingInbound c u) ->
  ev_target me = None ->
  ans_open me = match topen t with Some c => [(c, Tg)] | None => [] end ->
  ans_neg me = match tneg t with Some c => [c] | None => [] end ->
  (forall x, In x (g_inb (gstep me (snd (step L (s_m st) me)) (s_g st))) <-> In x (g_inb (s_g st)) /\ tinb t <> Some x) ->
  feas L (s_m st) (s_g st) me ->
  ((forall y, ~ In (CallCancel y Tg) (snd (step L (s_m st) me))) \/ rest = []) ->
  (forall y, In (CallAccept y Tg) (snd (step L (s_m st) me)) \/ In (CallReject y Tg) (snd (step L (s_m st) me)) ->
             forall q l, ~ In (TM.TEstablished y q l) rest) ->
  BInv (deliver 0 st me) rest.
Proof.
  intros (vg & I & R & Etg & C & A & PO & LO) Hnp Hn H1 H2 Htg Hao Han Hinb Hf Hcan Hacc.
  destruct st as [m g s tg]. cbn [s_m s_g s_t s_tg] in *.
  destruct (calm_step m me Hn H1 H2) as [Hcalm Hctr].
  unfold deliver. cbn [s_m s_g s_t s_tg]. rewrite (ndraws_zero me m _ Hctr). cbn [repeat app].
  set (os := snd (step L m me)) in *. set (cs := flat_map (fwd (tgt me) 0) os).
  pose proof (calm_passive (tgt me) 0 os Hcalm) as Hp. fold cs in Hp.
  destruct (TS.trun_passive cs s tg Hp) as (E1 & E2 & E3).
  cbn [map fold_left TM.gout] in Etg.
  cbn [map TM.audit TM.audit_by] in A. apply andb_prop in A. destruct A as [A1 A2].
  destruct C as (C1 & C2 & C3 & C4 & C5).
  destruct (TS.pfold_same cs (TM.gev t vg)) as (P1 & P2 & P3 & P4 & P5 & P6 & P7 & P8).
  exists (fold_left TS.pghost cs (TM.gev t vg)). cbn [s_m s_g s_t s_tg].
  split; [apply linv_step; assumption|].
  split; [apply TS.trun_reach; [exact R | apply TS.noid_callers, TS.passive_noid; exact Hp]|].
  split; [rewrite E1, Etg; apply TS.pfold_fold|].
  split.
  { repeat split.
    - (* open *)
      rewrite gstep_open, (calm_no_open os Hcalm), Hao. rewrite TS.pfold_open, gev_open_iff, <- C1.
      intros [[]|[Hg Hno]]. rewrite in_app_iff in Hno. repeat split.
      + exact Hg.
      + intros E. apply Hno. left. rewrite E. now left.
      + intros K. apply Hno. right. apply in_fm_cancel. now apply (in_fwd_cancel (tgt me) 0 os c).
    - rewrite gstep_open, (calm_no_open os Hcalm), Hao. rewrite TS.pfold_open, gev_open_iff, <- C1.
      intros [[Hg Hne] Hnc]. right. split; [exact Hg|]. rewrite in_app_iff. intros [K|K].
      + destruct (topen t) as [c0|]; [|destruct K]. destruct K as [[= ->]|[]]. now apply Hne.
      + apply Hnc. apply (in_fwd_cancel (tgt me) 0 os c). now apply in_fm_cancel.
    - (* negotiate *)
      rewrite gstep_neg, (calm_no_dialneg os Hcalm), Han, P1, gev_neg_iff, <- C2.
      intros [[]|[Hg Hno]]. split; [exact Hg|]. intros E. apply Hno. rewrite E. now left.
    - rewrite gstep_neg, (calm_no_dialneg os Hcalm), Han, P1, gev_neg_iff, <- C2.
      intros [Hg Hne]. right. split; [exact Hg|]. destruct (tneg t) as [c0|]; [|intros []].
      intros [->|[]]. now apply Hne.
    - (* inbound *)
      intros c. rewrite P2, gev_inb_iff, Hinb. intros [Hg Hne]. split; [now apply C3 | exact Hne].
    - (* attempts *)
      intros c p. rewrite (gstep_att me os g Htg), P8, TS.gev_att. apply C4.
    - rewrite P7, (gev_ctr t vg Hnp), Hctr. exact C5. }
  split.
  { destruct Hcan as [Hcan | ->]; [|reflexivity].
    apply (TS.audit_gle _ (TM.gev t vg)); [|exact A2].
    repeat split; try (symmetry; assumption).
    - intros c Hc. apply TS.pfold_open. split; [exact Hc|]. intros K. apply (Hcan c).
      now apply (in_fwd_cancel (tgt me) 0 os c).
    - intros c Hc. now rewrite P1.
    - intros c Hc. now rewrite P2. }
  split.
  { intros c q l Hin. apply E3. split; [apply (PO c q l); now right|].
    split; intros K.
    - apply in_fwd_accept in K. exact (Hacc c (or_introl K) q l Hin).
    - apply in_fwd_reject in K. exact (Hacc c (or_intror K) q l Hin). }
  exact (TS.last_only_tail _ _ LO).
Qed.

(* ---------- the events of Tg are feasible for the manager, one kind at a time ---------- *)
Lemma att_named m g vg c p tg :
  Cpl m g vg -> lookup c (g_att g) = Some p -> TM.g_att tg = TM.g_att vg -> named_peer tg c = p.
Proof.
  intros (_ & _ & _ & C4 & _) H E. destruct (C4 c p H) as (es & H1 & H2 & H3).
  unfold named_peer. rewrite E, H1. destruct es as [|x r]; [congruence|].
  rewrite (H3 x (or_introl eq_refl)). reflexivity.
Qed.

Lemma binv_head st t rest :
  BInv st (t :: rest) ->
  exists vg, LInv L (s_m st) (s_g st) /\ Cpl (s_m st) (s_g st) vg /\ TM.tfeas vg t = true /\
             TM.audit (TM.gev t vg) (map TM.OEv rest) = true /\ TM.g_att (s_tg st) = TM.g_att vg /\
             s_tg st = fold_left TM.gout (map TM.OEv rest) (TM.gev t vg).
Proof.
  intros (vg & I & R & Etg & C & A & PO & LO). exists vg.
  cbn [map TM.audit TM.audit_by] in A. apply andb_prop in A. destruct A as [A1 A2].
  split; [exact I|]. split; [exact C|]. split; [exact A1|]. split; [exact A2|].
  split; [rewrite Etg; apply TT.g_att_gout | exact Etg].
Qed.

(* the failure handlers make no call at all *)
Lemma failure_outputs m e o :
  (exists c t pa, e = TrDialFailure c t pa \/ e = TrOpenFailure c t pa) -> In o (snd (step L m e)) ->
  match o with ProtoDialFailure _ | EvDialFailure _ _ | EvOpenFailure _ _ => True | _ => False end.
Proof.
  intros (c & t & pa & [-> | ->]); cbn [step]; (destruct (installed L t); [|intros []]).
  - unfold do_dial_failure. destruct (lookup c (pending _)); cbn [snd In]; [|tauto].
    intros [<-|[<-|[]]]; exact I.
  - unfold do_open_failure. destruct (lookup c (pending _)); [|intros []].
    destruct (state_of _ _); try (intros []). destruct (mem t _); [|intros []].
    destruct (remove_tr t _); cbn [snd In]; [|tauto]. intros [<-|[<-|[]]]; exact I.
Qed.

Lemma deliver_open_failure st c rest :
  BInv st (TM.TOpenFailure c :: rest) ->
  let me := TrOpenFailure c Tg (named_peer (s_tg st) c) in
  feas L (s_m st) (s_g st) me /\ BInv (deliver 0 st me) rest.
Proof.
  intros B me. destruct (binv_head _ _ _ B) as (vg & I & C & A1 & A2 & Eatt & _).
  cbn [TM.tfeas] in A1. apply TP.mem_in in A1.
  pose proof C as (C1 & _). apply C1 in A1.
  destruct (owed_open_facts _ _ _ _ _ I A1) as (p & ts & Hp & Hat & _).
  assert (Hf : feas L (s_m st) (s_g st) me).
  { cbn [feas]. split; [exact inst_tcp|]. split; [exact A1|].
    rewrite (att_named _ _ _ _ _ _ C Hat Eatt). exact Hat. }
  split; [exact Hf|].
  apply (deliver_calm st (TM.TOpenFailure c) rest me B); try reflexivity; try exact Hf; try discriminate.
  - intros x. rewrite gstep_inb_same by discriminate. cbn [tinb]. intuition discriminate.
  - left. intros y K. apply (failure_outputs (s_m st) me) in K; [exact K|]. exists c, Tg, (named_peer (s_tg st) c). now right.
  - intros y [K|K]; (apply (failure_outputs (s_m st) me) in K; [destruct K|]); exists c, Tg, (named_peer (s_tg st) c); now right.
Qed.

Lemma neg_att m g c : LInv L m g -> In c (g_neg g) -> exists p, lookup c (g_att g) = Some p.
Proof.
  intros I H. destruct (li_owed _ _ _ I c (or_intror H)) as [p Hp].
  destruct (li_pending _ _ _ I _ _ Hp) as (_ & Hat & _). eauto.
Qed.

Lemma deliver_dial_failure st c rest :
  BInv st (TM.TDialFailure c :: rest) ->
  let me := TrDialFailure c Tg (named_peer (s_tg st) c) in
  feas L (s_m st) (s_g st) me /\ BInv (deliver 0 st me) rest.
Proof.
  intros B me. destruct (binv_head _ _ _ B) as (vg & I & C & A1 & A2 & Eatt & _).
  cbn [TM.tfeas] in A1. apply TP.mem_in in A1.
  pose proof C as (_ & C2 & _). apply C2 in A1.
  destruct (neg_att _ _ _ I A1) as [p Hat].
  assert (Hf : feas L (s_m st) (s_g st) me).
  { cbn [feas]. split; [exact inst_tcp|]. split; [exact A1|].
    rewrite (att_named _ _ _ _ _ _ C Hat Eatt). exact Hat. }
  split; [exact Hf|].
  apply (deliver_calm st (TM.TDialFailure c) rest me B); try reflexivity; try exact Hf; try discriminate.
  - intros x. rewrite gstep_inb_same by discriminate. cbn [tinb]. intuition discriminate.
  - left. intros y K. apply (failure_outputs (s_m st) me) in K; [exact K|]. exists c, Tg, (named_peer (s_tg st) c). now left.
  - intros y [K|K]; (apply (failure_outputs (s_m st) me) in K; [destruct K|]); exists c, Tg, (named_peer (s_tg st) c); now left.
Qed.

(* a cancel call of the ConnectionEstablished handler: the peer of the event is in the opening phase *)
Lemma est_cancel_peer m p c t lst f y u :
  In (CallCancel y u) (snd (step L m (TrEstablished p c t lst f))) -> exists ts, state_of m p = Opening y ts.
Proof.
  cbn [step]. destruct (installed L t); [|intros []]. unfold do_established.
  set (me := set_oerrs m (remove_key c (oerrs m))).
  set (m0 := if lst then me else add_addr me p (canon p t)).
  assert (Hst : forall pd q, state_of (set_pending m0 pd) q = state_of m q).
  { intros pd q. rewrite so_pending. subst m0 me. destruct lst; [reflexivity | now rewrite so_add_addr]. }
  assert (Hchk : forall pd, In (CallCancel y u) (snd (do_established_checked L (set_pending m0 pd) p c t lst f)) ->
                            exists ts, state_of m p = Opening y ts).
  { intros pd. unfold do_established_checked.
    destruct (limit_reached _ _); [cbn [snd In]; intuition discriminate|].
    rewrite Hst. destruct (st_on_established (state_of m p) c) as [s' acc]. destruct acc; cbn [negb].
    2:{ cbn [snd In]. intuition discriminate. }
    assert (Hfin : forall m4 cancels, In (CallCancel y u) (snd (est_finish m4 p c t lst f cancels)) ->
                                      In (CallCancel y u) cancels).
    { intros m4 cancels. unfold est_finish. destruct f; [destruct (do_closed m4 p c)|]; cbn [snd];
        rewrite in_app_iff; cbn [In]; intuition discriminate. }
    destruct (state_of m p) as [r sc|d ts|d|d] eqn:Es; cbv beta iota zeta;
      try (intros H; apply Hfin in H; destruct H).
    destruct (negb (forallb (installed L) ts)); [cbn [snd In]; intuition discriminate|].
    intros H. apply Hfin in H. apply in_map_iff in H. destruct H as (x & [= <- <-] & _). eauto. }
  destruct (lookup c (pending m0)) as [dp|]; [destruct (dp =? p)|]; try apply Hchk.
  cbn [snd In]. intuition discriminate.
Qed.

Lemma in_map_oev x rest : In (TM.OEv x) (map TM.OEv rest) <-> In x rest.
Proof.
  rewrite in_map_iff. split; [intros (y & [= ->] & H); exact H | intros H; eauto].
Qed.

Lemma deliver_established st c q l rest :
  BInv st (TM.TEstablished c q l :: rest) ->
  let me := TrEstablished q c Tg l false in
  mevs st (TM.TEstablished c q l) = [me] /\
  feas L (s_m st) (s_g st) me /\ BInv (deliver 0 st me) rest.
Proof.
  intros B me. pose proof B as (vg0 & _ & R & _ & _ & _ & PO & LO).
  destruct (binv_head _ _ _ B) as (vg & I & C & A1 & A2 & Eatt & _).
  assert (Hm : mevs st (TM.TEstablished c q l) = [me]).
  { cbn [mevs]. assert (Hin : In c (TM.pending_open (s_t st))) by (apply (PO c q l); now left).
    apply TP.mem_in in Hin. rewrite Hin. reflexivity. }
  split; [exact Hm|].
  pose proof C as (C1 & C2 & C3 & C4 & C5).
  destruct l.
  - (* the listener side of an accepted inbound socket: the last event of the poll *)
    cbn [TM.tfeas] in A1. apply TP.mem_in in A1.
    assert (Hf : feas L (s_m st) (s_g st) me).
    { cbn [feas]. split; [reflexivity|]. split; [exact inst_tcp | now apply C3]. }
    split; [exact Hf|].
    pose proof (TS.last_only_head _ _ LO eq_refl) as ->.
    apply (deliver_calm st (TM.TEstablished c q true) [] me B); try reflexivity; try exact Hf; try discriminate.
    + intros x. unfold me. rewrite gstep_inb_est. cbn [tinb]. split; intros [H1 H2]; (split; [exact H1|]); [intros [= E]; symmetry in E; exact (H2 E) | intros E; apply H2; now rewrite E].
    + now right.
    + intros y _ q0 l0 [].
  - cbn [TM.tfeas] in A1. apply andb_prop in A1. destruct A1 as [A1 An]. apply TP.mem_in in A1.
    pose proof A1 as Hn. apply C2 in Hn.
    destruct (neg_att _ _ _ I Hn) as [p Hat].
    assert (p = q) as ->.
    { destruct (C4 c p Hat) as (es & H1 & H2 & H3). unfold TM.named in An. rewrite H1 in An.
      apply existsb_exists in An. destruct An as (x & Hx & Hmx). rewrite (H3 x Hx) in Hmx.
      cbn [TM.matches] in Hmx. lia. }
    assert (Hf : feas L (s_m st) (s_g st) me).
    { cbn [feas]. split; [reflexivity|]. split; [exact inst_tcp|]. split; assumption. }
    split; [exact Hf|].
    destruct (owed_neg_facts _ _ _ _ _ I Hn Hat) as (Hp & Hd & Hnop & _).
    apply (deliver_calm st (TM.TEstablished c q false) rest me B); try reflexivity; try exact Hf; try discriminate.
    + intros x. rewrite gstep_inb_same by discriminate. cbn [tinb]. intuition discriminate.
    + left. intros y K. apply est_cancel_peer in K. destruct K as [ts Hs].
      rewrite Hs in Hd. cbn [dial_record] in Hd. injection Hd as ->. exact (Hnop ts Hs).
    + intros y K q0 l0 Hin. apply est_accept_id in K. subst y.
      apply (TS.audit_no_second_est c _ _ A2) with (q := q0) (l := l0).
      * cbn [TM.gev TM.g_neg]. rewrite TP.in_del. tauto.
      * cbn [TM.gev TM.g_inb]. intros K. apply C3 in K.
        destruct (inb_facts _ _ _ _ I K) as (Hno & _). apply Hno. now right.
      * now apply in_map_oev.
Qed.

(* ---------- ConnectionOpened: cancel on the set, negotiate on the winner ---------- *)
Lemma fwd_cancels p k c ts :
  let cs := flat_map (fwd p k) (map (CallCancel c) ts) in
  forallb TS.passive cs = true /\ (forall y, In (TM.ECancel y) cs -> y = c) /\
  (forall y, ~ In (TM.EAccept y) cs) /\ (forall y, ~ In (TM.EReject y) cs).
Proof.
  cbn zeta. split; [|split; [|split]].
  - apply calm_passive. apply Forall_forall. intros o Ho. apply in_map_iff in Ho. destruct Ho as (t & <- & _). exact I.
  - intros y H. apply in_fwd_cancel in H. apply in_map_iff in H. destruct H as (t & [= <- _] & _). reflexivity.
  - intros y H. apply in_fwd_accept in H. apply in_map_iff in H. destruct H as (t & E & _). discriminate.
  - intros y H. apply in_fwd_reject in H. apply in_map_iff in H. destruct H as (t & E & _). discriminate.
Qed.

Lemma deliver_opened st c rest :
  BInv st (TM.TOpened c :: rest) ->
  let me := TrOpened c Tg false in
  mevs st (TM.TOpened c) = [me] /\ feas L (s_m st) (s_g st) me /\ BInv (deliver 0 st me) rest.
Proof.
  intros B me. pose proof B as (vg & I & R & Etg & C & A & PO & LO).
  destruct st as [m g s tg]. cbn [s_m s_g s_t s_tg] in *.
  cbn [map TM.audit TM.audit_by] in A. apply andb_prop in A. destruct A as [A1 A2].
  cbn [TM.tfeas] in A1. apply TP.mem_in in A1.
  destruct C as (C1 & C2 & C3 & C4 & C5). pose proof A1 as Ho. apply C1 in Ho.
  assert (Hop : In c (TM.opened s)).
  { destruct (TT.reach_inv _ _ R) as [U _]. apply (TP.u_opened _ _ U). rewrite Etg.
    apply TT.g_opened_gout_in. now left. }
  assert (Hm : mevs (mkSys m g s tg) (TM.TOpened c) = [me]).
  { cbn [mevs s_t]. apply TP.mem_in in Hop. rewrite Hop. reflexivity. }
  assert (Hf : feas L m g me) by (cbn [feas]; split; [reflexivity|]; split; [exact inst_tcp | exact Ho]).
  split; [exact Hm|]. split; [exact Hf|].
  cbn [map fold_left TM.gout] in Etg.
  destruct (opened_step L m g c Tg I Hf) as (p & ts & Hp & Hs & Ht & H).
  pose proof (step_counter L m me) as Cn. cbn zeta in Cn. destruct Cn as (_ & _ & Hd & _).
  destruct (Hd eq_refl) as [Hctr _].
  pose proof (linv_step L m g me I Hf) as I'.
  unfold deliver. cbn [s_m s_g s_t s_tg]. rewrite (ndraws_zero me m _ Hctr). cbn [repeat app].
  fold me in H. destruct (step L m me) as [m' os]. cbn [fst snd] in *.
  destruct H as (Hos & _ & _ & _ & _ & _ & _). subst os.
  rewrite flat_map_app. cbn [flat_map fwd app]. rewrite tcp_eqb.
  destruct (fwd_cancels (tgt me) 0 c ts) as (Hp1 & Hp2 & Hp3 & Hp4).
  set (cs := flat_map (fwd (tgt me) 0) (map (CallCancel c) ts)) in *.
  rewrite TS.trun_app. destruct (TS.trun_passive cs s tg Hp1) as (E1 & E2 & E3).
  set (s1 := fst (TS.trun s tg cs)) in *. set (tg1 := snd (TS.trun s tg cs)) in *.
  cbn [app TS.trun fst snd].
  destruct (TS.neg_step s1 tg1 c) as [N1 N2]; [rewrite E2; exact Hop|]. rewrite N2.
  destruct (TS.pfold_same cs (TM.gev (TM.TOpened c) vg)) as (P1 & P2 & P3 & P4 & P5 & P6 & P7 & P8).
  set (os := map (CallCancel c) ts ++ [CallNegotiate c Tg]) in *.
  assert (Fo : flat_map out_open os = []).
  { unfold os. rewrite flat_map_app, fm_open_cancels. reflexivity. }
  assert (Fc : flat_map out_cancel os = map (pair c) ts).
  { unfold os. rewrite flat_map_app, fm_cancel_cancels. cbn [flat_map out_cancel app]. apply app_nil_r. }
  assert (Fd : flat_map out_dialneg os = [c]).
  { unfold os. rewrite flat_map_app, fm_dialneg_cancels. reflexivity. }
  assert (Hng : ~ In c (g_neg g)) by (exact (li_open_neg _ _ _ I c Tg Ho)).
  exists (TS.gneg c (fold_left TS.pghost cs (TM.gev (TM.TOpened c) vg))). cbn [s_m s_g s_t s_tg].
  split; [exact I'|].
  split.
  { assert (Hcall : TT.callers_ok s tg (cs ++ [TM.ENegotiate c]) = true).
    { apply TS.noid_callers. rewrite forallb_app, (TS.passive_noid cs Hp1). reflexivity. }
    pose proof (TS.trun_reach (cs ++ [TM.ENegotiate c]) s tg R Hcall) as R'.
    rewrite TS.trun_app in R'. fold s1 tg1 in R'. cbn [TS.trun fst snd] in R'. rewrite N2 in R'. exact R'. }
  split.
  { rewrite E1, Etg, TS.pfold_fold. apply TS.gneg_fold.
    apply (TS.audit_noneg c _ _ A2).
    - cbn [TM.gev TM.g_open]. rewrite TP.in_del. tauto.
    - cbn [TM.gev TM.g_neg]. intros K. apply Hng. now apply C2. }
  split.
  { repeat split.
    - rewrite gstep_open, Fo, Fc. cbn [TS.gneg TM.g_open]. rewrite TS.pfold_open, gev_open_iff, <- C1.
      intros [[]|[Hg Hno]]. cbn [ans_open me] in Hno. repeat split.
      + exact Hg.
      + cbn [topen]. intros [= ->]. apply Hno. now left.
      + intros K. apply Hp2 in K. subst c0. apply Hno. now left.
    - rewrite gstep_open, Fo, Fc. cbn [TS.gneg TM.g_open]. rewrite TS.pfold_open, gev_open_iff, <- C1.
      intros [[Hg Hne] _]. right. split; [exact Hg|]. cbn [topen] in Hne. cbn [ans_open me].
      rewrite in_app_iff. intros [[[= ->]|[]]|K]; [now apply Hne|].
      apply in_map_pair in K. destruct K as [-> _]. now apply Hne.
    - rewrite gstep_neg, Fd. cbn [TS.gneg TM.g_neg In]. rewrite P1, gev_neg_iff, <- C2.
      intros [[->|[]]|[Hg _]]; [now left | right; split; [exact Hg | discriminate]].
    - rewrite gstep_neg, Fd. cbn [TS.gneg TM.g_neg In]. rewrite P1, gev_neg_iff, <- C2.
      intros [->|[Hg _]]; [left; now left | right; split; [exact Hg | intros []]].
    - intros c0. cbn [TS.gneg TM.g_inb]. rewrite P2, gev_inb_iff, gstep_inb_same by discriminate.
      intros [Hg _]. now apply C3.
    - intros c0 p0. rewrite (gstep_att me os g eq_refl). cbn [TS.gneg TM.g_att]. rewrite P8, TS.gev_att. apply C4.
    - cbn [TS.gneg TM.g_ctr]. rewrite P7. cbn [TM.gev TM.g_ctr]. rewrite Hctr. exact C5. }
  split.
  { apply (TS.audit_gle _ (TM.gev (TM.TOpened c) vg)); [|exact A2].
    repeat split; cbn [TS.gneg TM.g_open TM.g_neg TM.g_inb TM.g_att TM.g_ctr TM.g_drawn TM.g_used TM.g_inbids];
      try (symmetry; assumption).
    - intros c0 Hc. apply TS.pfold_open. split; [exact Hc|]. intros K. apply Hp2 in K. subst c0.
      cbn [TM.gev TM.g_open] in Hc. apply TP.in_del in Hc. tauto.
    - intros c0 Hc. right. now rewrite P1.
    - intros c0 Hc. now rewrite P2. }
  split.
  { intros c0 q l Hin. apply TS.neg_state; [rewrite E2; exact Hop|]. apply E3.
    split; [apply (PO c0 q l); now right|]. split; [apply Hp3 | apply Hp4]. }
  exact (TS.last_only_tail _ _ LO).
Qed.

(* ---------- PendingInboundConnection: the transport drew the id, the manager answers ---------- *)
Lemma deliver_pinb st c rest :
  BInv st (TM.TPendingInbound c :: rest) ->
  feasible L (s_m st) (s_g st) (mevs st (TM.TPendingInbound c)) /\
  BInv (deliver_tev st (TM.TPendingInbound c)) rest.
Proof.
  intros B. pose proof B as (vg & I & R & Etg & C & A & PO & LO).
  pose proof (TS.last_only_head _ _ LO eq_refl) as ->.
  destruct st as [m g s tg]. cbn [s_m s_g s_t s_tg] in *.
  split; [cbn [mevs feasible feas]; repeat split|].
  cbn [map TM.audit TM.audit_by TM.tfeas] in A. rewrite andb_true_r in A.
  repeat (apply andb_prop in A; destruct A as [A ?]).
  destruct C as (C1 & C2 & C3 & C4 & C5).
  assert (Hc : c = next_conn m) by lia.
  cbn [map fold_left TM.gout] in Etg.
  unfold deliver_tev. cbn [mevs fold_left].
  (* AllocConn *)
  pose proof (linv_step L m g AllocConn I Logic.I) as I1.
  unfold deliver at 2. cbn [s_m s_g s_t s_tg step fst snd ndraws repeat app flat_map fwd TS.trun] in *.
  set (m1 := bump_conn m) in *. set (g1 := gstep AllocConn [Ret (RET_ALLOC + next_conn m)] g) in *.
  (* PendingInboundConnection *)
  unfold deliver. cbn [s_m s_g s_t s_tg step]. rewrite inst_tcp.
  assert (Hcall : exists o, (o = CallRejectPending c Tg \/ o = CallAcceptPending c Tg) /\
            (if limit_reached (max_in L) (ins m1) then (m1, [CallRejectPending c Tg]) else (m1, [CallAcceptPending c Tg]))
            = (m1, [o])).
  { destruct (limit_reached (max_in L) (ins m1)); [exists (CallRejectPending c Tg) | exists (CallAcceptPending c Tg)];
      split; auto. }
  destruct Hcall as (o & Ho & ->). cbn [fst snd]. rewrite (ndraws_zero _ m1 m1 eq_refl). cbn [repeat app flat_map].
  assert (Hg2 : gstep (TrPendingInbound c Tg) [o] g1 = g1).
  { apply gstep_quiet_cmd; [|exact Logic.I]. destruct Ho as [-> | ->]; unfold quiet, alloc_of; cbn; repeat split. }
  rewrite Hg2.
  assert (Hfw : exists e, (e = TM.ERejectPending c \/ e = TM.EAcceptPending c) /\ fwd (tgt (TrPendingInbound c Tg)) 0 o ++ [] = [e]).
  { destruct Ho as [-> | ->]; cbn [fwd]; rewrite tcp_eqb; [exists (TM.ERejectPending c) | exists (TM.EAcceptPending c)];
      split; auto. }
  destruct Hfw as (e & He & ->).
  destruct (TS.pinb_call s tg c e He R) as (R' & Q1 & Q2 & Q3 & Q4 & Q5).
  set (r := TS.trun s tg [e]) in *.
  exists (snd r). cbn [s_m s_g s_t s_tg].
  split; [exact I1|]. split; [exact R'|]. split; [reflexivity|].
  split.
  { subst tg. cbn [TM.gev TM.g_open TM.g_neg TM.g_inb TM.g_att TM.g_ctr] in *.
    repeat split.
    - unfold g1. rewrite gstep_open, Q1. cbn [flat_map out_open out_cancel ans_open app]. rewrite <- C1. intros [[]|[K _]]. exact K.
    - unfold g1. rewrite gstep_open, Q1. cbn [flat_map out_open out_cancel ans_open app]. rewrite <- C1. intros K. right. split; [exact K | intros []].
    - unfold g1. rewrite gstep_neg, Q2. cbn [flat_map out_dialneg ans_neg]. rewrite <- C2. intros [[]|[K _]]. exact K.
    - unfold g1. rewrite gstep_neg, Q2. cbn [flat_map out_dialneg ans_neg]. rewrite <- C2. intros K. right. split; [exact K | intros []].
    - intros x Hx. unfold g1, gstep. cbn [g_inb]. rewrite alloc_of_ret. cbn [app In].
      destruct (Q3 x Hx) as [-> | Hx']; [left; now symmetry | right; now apply C3].
    - intros x p. unfold g1. rewrite (gstep_att AllocConn _ g eq_refl), Q4. apply C4.
    - rewrite Q5. unfold m1. cbn [bump_conn next_conn]. lia. }
  split; [reflexivity|]. split; [intros c0 q l []|]. exact TS.last_only_nil.
Qed.

(* ====================================================================================== *)
(* Requests of the user / protocol side                                                    *)
(* ====================================================================================== *)
Definition cmdout (o : out) : Prop :=
  match o with
  | CallOpen _ _ | CallDial _ _ | Ret _ | Logged _ | EvEstablished _ _ | EvClosed _ _ => True
  | _ => False
  end.

Lemma cmdout_demote os : Forall cmdout os -> Forall cmdout (map demote os).
Proof.
  intros H. induction H as [|o r Ho Hr IH]; cbn [map]; constructor; [|exact IH].
  destruct o; cbn [demote cmdout] in *; tauto.
Qed.

Lemma cmd_kinds m e : is_cmd e = true -> Forall cmdout (snd (step L m e)).
Proof.
  assert (Hk : forall o, match o with CallOpen _ _ | CallDial _ _ | Ret _ | Logged _ => True | _ => False end -> cmdout o).
  { intros o. destruct o; cbn [cmdout]; tauto. }
  destruct e as [p ts fl|p t f|p t|c t pa|c t f|c t pa|p c t lst f|c t|c ok|p c| |a|p ts fl clog|a clog];
    try discriminate; intros _; cbn [step].
  - apply Forall_forall. intros o Ho. apply Hk. exact (dial_peer_kinds L m p ts fl o Ho).
  - apply Forall_forall. intros o Ho. apply Hk. exact (dial_shape_kinds L m _ f o Ho).
  - constructor.
  - unfold do_accept_done. destruct (lookup c (accepting m)) as [[q b]|]; [|constructor].
    destruct ok; cbn [snd]; [repeat constructor|]. destruct (do_closed _ q c). constructor.
  - destruct (do_closed m p c) as [m1 rep]. destruct rep; cbn [snd]; repeat constructor.
  - apply Forall_forall. intros o Ho. apply Hk. exact (dial_shape_kinds L m a false o Ho).
  - unfold do_hdial_peer. destruct (handle_gate m p); try (cbn [snd]; repeat constructor).
    destruct clog; [cbn [snd]; repeat constructor|].
    pose proof (dial_peer_kinds L m p ts fl) as K. destruct (do_dial_peer L m p ts fl) as [m1 os]. cbn [snd] in *.
    constructor; [exact I|]. apply cmdout_demote. apply Forall_forall. intros o Ho. apply Hk. exact (K o Ho).
  - unfold do_hdial_addr. destruct (negb _); [cbn [snd]; repeat constructor|].
    destruct clog; [cbn [snd]; repeat constructor|].
    pose proof (dial_shape_kinds L m a false) as K. destruct (do_dial_shape L m a false) as [m1 os]. cbn [snd] in *.
    constructor; [exact I|]. apply cmdout_demote. apply Forall_forall. intros o Ho. apply Hk. exact (K o Ho).
Qed.

(* a dial / open call is made on an installed transport *)
Definition fresh_call (o : out) (t : tr) : Prop :=
  match o with CallOpen _ u | CallDial _ u => u = t | _ => False end.

Lemma open_calls_inst c ts fl o t :
  In o (fst (open_calls L c ts fl)) -> fresh_call o t -> installed L t = true.
Proof.
  induction ts as [|u r IH]; cbn [open_calls fst]; [intros []|].
  destruct (installed L u) eqn:Eu; [|exact IH].
  destruct (mem u fl); cbn [fst In].
  - intros [<-|[]] H. cbn [fresh_call] in H. now subst.
  - destruct (open_calls L c r fl) as [os ok]. cbn [fst In] in *. intros [<-|H] Hf; [|exact (IH H Hf)].
    cbn [fresh_call] in Hf. now subst.
Qed.

Lemma dial_peer_inst m p ts fl o t :
  In o (snd (do_dial_peer L m p ts fl)) -> fresh_call o t -> installed L t = true.
Proof.
  unfold do_dial_peer. destruct (limit_reached _ _); [intros [<-|[]] []|]. destruct (p =? LOCAL); [intros [<-|[]] []|].
  destruct (can_dial _); try (intros [<-|[]] []). destruct (is_nil _); [intros [<-|[]] []|].
  pose proof (open_calls_inst (next_conn m) ts fl o t) as H.
  destruct (open_calls L (next_conn m) ts fl) as [calls ok]. cbn [fst] in H.
  destruct ok; cbn [snd]; rewrite in_app_iff; cbn [In]; (intros [Hin|[<-|[]]]; [exact (H Hin) | intros []]).
Qed.

Lemma dial_shape_inst m a f o t :
  In o (snd (do_dial_shape L m a f)) -> fresh_call o t -> installed L t = true.
Proof.
  assert (Hd : forall p u, In o (snd (do_dial_addr L m p u a f)) -> fresh_call o t -> installed L t = true).
  { intros p u. unfold do_dial_addr. destruct (installed L u) eqn:Eu; cbn [negb]; [|intros [<-|[]] []].
    destruct (can_dial _); try (intros [<-|[]] []).
    destruct f; cbn [snd In]; (intros [<-|[<-|[]]]; [|intros []]); intros H; cbn [fresh_call] in H; now subst. }
  unfold do_dial_shape. destruct (limit_reached _ _); [intros [<-|[]] []|].
  destruct (dial_shape LISTEN a); [intros [<-|[]] [] | apply Hd | apply Hd].
Qed.

Lemma in_demote_fresh o os t : In o (map demote os) -> fresh_call o t -> In o os.
Proof.
  intros H Hf. apply in_map_iff in H. destruct H as (o' & <- & Ho).
  destruct o'; cbn [demote fresh_call] in *; try contradiction; exact Ho.
Qed.

Lemma cmd_fresh_inst m e o t :
  is_cmd e = true -> In o (snd (step L m e)) -> fresh_call o t -> installed L t = true.
Proof.
  destruct e as [p ts fl|p u f|p u|c u pa|c u f|c u pa|p c u lst f|c u|c ok|p c| |a|p ts fl clog|a clog];
    try discriminate; intros _; cbn [step].
  - apply dial_peer_inst.
  - apply dial_shape_inst.
  - intros [].
  - intros Ho Hf. pose proof (cmd_kinds m (AcceptDone c ok) eq_refl) as K. rewrite Forall_forall in K.
    specialize (K o Ho). unfold do_accept_done in Ho. destruct (lookup c (accepting m)) as [[q b]|]; [|destruct Ho].
    destruct ok; cbn [snd In] in Ho; [destruct Ho as [<-|[]]; destruct Hf|]. destruct (do_closed _ q c). destruct Ho.
  - intros Ho Hf. destruct (do_closed m p c) as [m1 rep]. destruct rep; cbn [snd In] in Ho; [destruct Ho as [<-|[]]; destruct Hf | destruct Ho].
  - apply dial_shape_inst.
  - unfold do_hdial_peer. destruct (handle_gate m p); try (intros [<-|[]] []).
    destruct clog; [intros [<-|[]] []|].
    pose proof (dial_peer_inst m p ts fl o t) as K. destruct (do_dial_peer L m p ts fl) as [m1 os]. cbn [snd In] in *.
    intros [<-|H] Hf; [destruct Hf|]. exact (K (in_demote_fresh _ _ _ H Hf) Hf).
  - unfold do_hdial_addr. destruct (negb _); [intros [<-|[]] []|]. destruct clog; [intros [<-|[]] []|].
    pose proof (dial_shape_inst m a false o t) as K. destruct (do_dial_shape L m a false) as [m1 os]. cbn [snd In] in *.
    intros [<-|H] Hf; [destruct Hf|]. exact (K (in_demote_fresh _ _ _ H Hf) Hf).
Qed.

Lemma new_id_tcp m e x t :
  is_cmd e = true -> In (CallOpen x t) (snd (step L m e)) \/ In (CallDial x t) (snd (step L m e)) ->
  x = next_conn m /\ t = Tg.
Proof.
  intros Hc H. pose proof (step_prov L m e) as P. rewrite Forall_forall in P. split.
  - destruct H as [H|H]; exact (P _ H).
  - apply only_tcp. destruct H as [H|H]; exact (cmd_fresh_inst m e _ t Hc H eq_refl).
Qed.

(* at most one call, with the id just drawn *)
Lemma newids_nil p k c0 os :
  Forall cmdout os -> (forall x t, In (CallOpen x t) os \/ In (CallDial x t) os -> x = c0 /\ t = Tg) ->
  newids Tg os = [] ->
  flat_map (fwd p k) os = [] /\ flat_map out_open os = [] /\ flat_map out_dialneg os = [] /\
  existsb new_id os = false.
Proof.
  intros K. induction K as [|o r Ho Hr IH]; intros Hid Hn; [repeat split; reflexivity|].
  assert (Hid' : forall x t, In (CallOpen x t) r \/ In (CallDial x t) r -> x = c0 /\ t = Tg).
  { intros x t [H|H]; apply Hid; [left | right]; now right. }
  destruct o; cbn [cmdout] in Ho; try contradiction.
  - exfalso. destruct (Hid c t (or_introl (or_introl eq_refl))) as [_ ->]. cbn [newids flat_map] in Hn.
    rewrite tcp_eqb in Hn. discriminate.
  - exfalso. destruct (Hid c t (or_intror (or_introl eq_refl))) as [_ ->]. cbn [newids flat_map] in Hn.
    rewrite tcp_eqb in Hn. discriminate.
  - exact (IH Hid' Hn).
  - exact (IH Hid' Hn).
  - exact (IH Hid' Hn).
  - exact (IH Hid' Hn).
Qed.

Lemma calls_shape p k c0 os :
  Forall cmdout os -> (forall x t, In (CallOpen x t) os \/ In (CallDial x t) os -> x = c0 /\ t = Tg) ->
  (length (newids Tg os) <= 1)%nat ->
  (flat_map (fwd p k) os = [] /\ flat_map out_open os = [] /\ flat_map out_dialneg os = [] /\
   existsb new_id os = false) \/
  (flat_map (fwd p k) os = [TM.EOpen c0 (repeat (Some p) (S k))] /\ flat_map out_open os = [(c0, Tg)] /\
   flat_map out_dialneg os = [] /\ existsb new_id os = true) \/
  (flat_map (fwd p k) os = [TM.EDial c0 true (Some p)] /\ flat_map out_open os = [] /\
   flat_map out_dialneg os = [c0] /\ existsb new_id os = true).
Proof.
  intros K. induction K as [|o r Ho Hr IH]; intros Hid Hn; [left; repeat split; reflexivity|].
  assert (Hid' : forall x t, In (CallOpen x t) r \/ In (CallDial x t) r -> x = c0 /\ t = Tg).
  { intros x t [H|H]; apply Hid; [left | right]; now right. }
  destruct o; cbn [cmdout] in Ho; try contradiction.
  - destruct (Hid c t (or_introl (or_introl eq_refl))) as [-> ->].
    cbn [newids flat_map] in Hn. rewrite tcp_eqb in Hn. cbn [app length] in Hn. fold (newids Tg r) in Hn.
    assert (Hr0 : newids Tg r = []) by (destruct (newids Tg r); [reflexivity | cbn in Hn; lia]).
    destruct (newids_nil p k c0 r Hr Hid' Hr0) as (F1 & F2 & F3 & F4).
    right. left. cbn [flat_map fwd out_open out_dialneg existsb new_id orb]. rewrite tcp_eqb, F1, F2, F3. repeat split; reflexivity.
  - destruct (Hid c t (or_intror (or_introl eq_refl))) as [-> ->].
    cbn [newids flat_map] in Hn. rewrite tcp_eqb in Hn. cbn [app length] in Hn. fold (newids Tg r) in Hn.
    assert (Hr0 : newids Tg r = []) by (destruct (newids Tg r); [reflexivity | cbn in Hn; lia]).
    destruct (newids_nil p k c0 r Hr Hid' Hr0) as (F1 & F2 & F3 & F4).
    right. right. cbn [flat_map fwd out_open out_dialneg existsb new_id orb]. rewrite tcp_eqb, F1, F2, F3. repeat split; reflexivity.
  - exact (IH Hid' Hn).
  - exact (IH Hid' Hn).
  - exact (IH Hid' Hn).
  - exact (IH Hid' Hn).
Qed.

Lemma cmdout_no_cancel os : Forall cmdout os -> flat_map out_cancel os = [].
Proof.
  intros H. induction H as [|o r Ho Hr IH]; [reflexivity|]. cbn [flat_map]. rewrite IH.
  destruct o; cbn [cmdout] in Ho; try contradiction; reflexivity.
Qed.

Lemma cmd_ans e : is_cmd e = true -> ans_open e = [] /\ ans_neg e = [].
Proof. destruct e; try discriminate; intros _; split; reflexivity. Qed.

Lemma ndraws_cmd e m m' : is_cmd e = true -> ndraws e m m' = N.to_nat (next_conn m' - next_conn m).
Proof. destruct e; try discriminate; reflexivity. Qed.

(* the attempts recorded by the step: none without a call, the drawn id with the named peer otherwise *)
Lemma gstep_att_cmd e os g c0 x q :
  (flat_map out_open os = [] /\ flat_map out_dialneg os = []) \/
  (flat_map out_open os = [(c0, Tg)] /\ flat_map out_dialneg os = []) \/
  (flat_map out_open os = [] /\ flat_map out_dialneg os = [c0]) ->
  lookup x (g_att (gstep e os g)) = Some q ->
  lookup x (g_att g) = Some q \/
  (x = c0 /\ q = tgt e /\ (flat_map out_open os <> [] \/ flat_map out_dialneg os <> [])).
Proof.
  unfold gstep, tgt. cbn [g_att].
  intros [[-> ->]|[[-> ->]|[-> ->]]]; cbn [map app first1 fst]; destruct (ev_target e) as [p|];
    try (destruct (ret_ok os)); cbn [map app lookup]; auto.
  - destruct (c0 =? x) eqn:E; [|auto]. intros [= <-]. right. split; [lia|]. split; [reflexivity|]. left. discriminate.
  - destruct (c0 =? x) eqn:E; [|auto]. intros [= <-]. right. split; [lia|]. split; [reflexivity|]. right. discriminate.
Qed.

Lemma deliver_cmd st e k : Inv st -> is_cmd e = true -> feas L (s_m st) (s_g st) e -> Inv (deliver k st e).
Proof.
  intros (vg & I & R & Etg & C & _ & _ & _) Hc Hf. cbn [map fold_left] in Etg.
  destruct st as [m g s tg]. cbn [s_m s_g s_t s_tg] in *. subst vg.
  pose proof (linv_step L m g e I Hf) as I'.
  pose proof (step_counter L m e) as Cn. cbn zeta in Cn. destruct Cn as (Cn1 & Cn2 & _ & _).
  destruct (step_once L m g e Tg I Hf) as [On _].
  pose proof (cmd_kinds m e Hc) as K.
  destruct C as (C1 & C2 & C3 & C4 & C5).
  destruct (cmd_ans e Hc) as [Hao Han].
  unfold deliver, Inv. cbn [s_m s_g s_t s_tg]. rewrite (ndraws_cmd e m _ Hc).
  set (m' := fst (step L m e)) in *. set (os := snd (step L m e)) in *.
  pose proof (cmdout_no_cancel os K) as Fc.
  assert (Hinb : g_inb (gstep e os g) = g_inb g).
  { apply gstep_inb_same; destruct e; try discriminate. }
  assert (Hfresh : lookup (next_conn m) (g_att g) = None).
  { destruct (lookup (next_conn m) (g_att g)) as [q|] eqn:E; [|reflexivity].
    pose proof (li_fresh _ _ _ I (next_conn m)) as F. apply lookup_in_keys in E. assert (next_conn m < next_conn m) by (apply F; auto). lia. }
  assert (Hfin : forall r : TM.tcp * TM.ghost,
             TT.reach (fst r) (snd r) ->
             (forall c, In (c, Tg) (g_open (gstep e os g)) <-> In c (TM.g_open (snd r))) ->
             (forall c, In c (g_neg (gstep e os g)) <-> In c (TM.g_neg (snd r))) ->
             TM.g_inb (snd r) = TM.g_inb tg ->
             (forall c p, lookup c (g_att (gstep e os g)) = Some p ->
                exists es, TM.lookup c (TM.g_att (snd r)) = Some es /\ es <> [] /\ forall x, In x es -> x = Some p) ->
             TM.g_ctr (snd r) = next_conn m' ->
             BInv (mkSys m' (gstep e os g) (fst r) (snd r)) []).
  { intros r R' D1 D2 D3 D4 D5. exists (snd r). cbn [s_m s_g s_t s_tg].
    split; [exact I'|]. split; [exact R'|]. split; [reflexivity|].
    split; [repeat split; try apply D1; try apply D2; auto; intros c Hin; rewrite Hinb; apply C3; now rewrite <- D3|].
    split; [reflexivity|]. split; [intros c q l []|]. exact TS.last_only_nil. }
  destruct (calls_shape (tgt e) k (next_conn m) os K (fun x t H => new_id_tcp m e x t Hc H) On)
    as [(F1 & F2 & F3 & F4) | [(F1 & F2 & F3 & F4) | (F1 & F2 & F3 & F4)]]; rewrite F1.
  - (* no call: the counter may have moved *)
    rewrite app_nil_r.
    set (d := N.to_nat (next_conn m' - next_conn m)).
    destruct (TS.draws_only d s tg R) as (R' & Q1 & Q2 & Q3 & Q4 & Q5). cbn zeta in *.
    apply Hfin; try assumption.
    + intros c. rewrite gstep_open, F2, Hao, Fc, Q1, <- C1. cbn [app In]. tauto.
    + intros c. rewrite gstep_neg, F3, Han, Q2, <- C2. cbn [In]. tauto.
    + intros c p Hl. rewrite Q4. apply C4.
      destruct (gstep_att_cmd e os g (next_conn m) c p (or_introl (conj F2 F3)) Hl) as [H|(_ & _ & [H|H])];
        [exact H | rewrite F2 in H; congruence | rewrite F3 in H; congruence].
    + rewrite Q5, C5. unfold d. destruct Cn1 as [E|E]; rewrite E; lia.
  - (* open *)
    assert (Hn : next_conn m' = next_conn m + 1) by (apply Cn2; exact F4).
    assert (N.to_nat (next_conn m' - next_conn m) = 1%nat) as -> by lia.
    change (repeat TM.EDraw 1) with [TM.EDraw]. cbn [app].
    destruct (TS.draw_open s tg (next_conn m) (repeat (Some (tgt e)) (S k)) R (eq_sym C5)) as (R' & Q1 & Q2 & Q3 & Q4 & Q5).
    cbn zeta in *. apply Hfin; try assumption.
    + intros c. rewrite gstep_open, F2, Hao, Fc, Q1. cbn [app In]. rewrite <- C1. split.
      * intros [[[= <-]|[]]|[H _]]; [now left | now right].
      * intros [<-|H]; [left; now left | right; tauto].
    + intros c. rewrite gstep_neg, F3, Han, Q2, <- C2. cbn [In]. tauto.
    + intros c p Hl. rewrite Q4.
      destruct (gstep_att_cmd e os g (next_conn m) c p (or_intror (or_introl (conj F2 F3))) Hl) as [H|(-> & -> & _)].
      * assert (c <> next_conn m) by (intros ->; congruence). rewrite TP.lookup_put_ne by assumption. now apply C4.
      * rewrite TP.lookup_put_eq. eexists. split; [reflexivity|]. split; [discriminate|].
        intros x Hx. now apply repeat_spec in Hx.
    + rewrite Q5, C5. lia.
  - (* dial *)
    assert (Hn : next_conn m' = next_conn m + 1) by (apply Cn2; exact F4).
    assert (N.to_nat (next_conn m' - next_conn m) = 1%nat) as -> by lia.
    change (repeat TM.EDraw 1) with [TM.EDraw]. cbn [app].
    destruct (TS.draw_dial s tg (next_conn m) (Some (tgt e)) R (eq_sym C5)) as (R' & Q1 & Q2 & Q3 & Q4 & Q5).
    cbn zeta in *. apply Hfin; try assumption.
    + intros c. rewrite gstep_open, F2, Hao, Fc, Q1, <- C1. cbn [app In]. tauto.
    + intros c. rewrite gstep_neg, F3, Han, Q2. cbn [In]. rewrite <- C2. split.
      * intros [[<-|[]]|[H _]]; [now left | now right].
      * intros [<-|H]; [left; now left | right; tauto].
    + intros c p Hl. rewrite Q4.
      destruct (gstep_att_cmd e os g (next_conn m) c p (or_intror (or_intror (conj F2 F3))) Hl) as [H|(-> & -> & _)].
      * assert (c <> next_conn m) by (intros ->; congruence). rewrite TP.lookup_put_ne by assumption. now apply C4.
      * rewrite TP.lookup_put_eq. eexists. split; [reflexivity|]. split; [discriminate|].
        intros x [<-|[]]. reflexivity.
    + rewrite Q5, C5. lia.
Qed.

(* ====================================================================================== *)
(* Every history of inputs                                                                 *)
(* ====================================================================================== *)
Lemma feasible_app es1 : forall m g es2,
  feasible L m g es1 -> feasible L (fst (lrun L m g es1)) (snd (lrun L m g es1)) es2 ->
  feasible L m g (es1 ++ es2).
Proof.
  induction es1 as [|e r IH]; intros m g es2 H1 H2; cbn [app feasible lrun fst snd] in *; [exact H2|].
  destruct H1 as [Ha Hb]. split; [exact Ha | now apply IH].
Qed.

(* one event of Tg: what the manager is handed is feasible, and the invariant holds for the rest *)
Lemma deliver_tev_inv st t rest :
  BInv st (t :: rest) -> feasible L (s_m st) (s_g st) (mevs st t) /\ BInv (deliver_tev st t) rest.
Proof.
  intros B. destruct t as [c|c|c|c q l|c].
  - apply deliver_pinb. exact B.
  - destruct (deliver_opened st c rest B) as (Hm & Hf & B'). unfold deliver_tev. rewrite Hm.
    cbn [fold_left feasible]. split; [split; [exact Hf | exact I] | exact B'].
  - destruct (deliver_open_failure st c rest B) as (Hf & B'). unfold deliver_tev.
    cbn [mevs fold_left feasible]. split; [split; [exact Hf | exact I] | exact B'].
  - destruct (deliver_established st c q l rest B) as (Hm & Hf & B'). unfold deliver_tev. rewrite Hm.
    cbn [fold_left feasible]. split; [split; [exact Hf | exact I] | exact B'].
  - destruct (deliver_dial_failure st c rest B) as (Hf & B'). unfold deliver_tev.
    cbn [mevs fold_left feasible]. split; [split; [exact Hf | exact I] | exact B'].
Qed.

Lemma tevs_inv ts : forall st,
  BInv st ts -> feasible L (s_m st) (s_g st) (tevs_trace st ts) /\ Inv (fold_left deliver_tev ts st).
Proof.
  induction ts as [|t r IH]; intros st B; cbn [tevs_trace fold_left]; [split; [exact I | exact B]|].
  destruct (deliver_tev_inv st t r B) as [F B']. destruct (IH _ B') as [F' I'].
  split; [|exact I']. apply feasible_app; [exact F|].
  rewrite <- (fold_deliver_mgr 0 (mevs st t) st). cbn [fst snd]. exact F'.
Qed.

(* a poll / a network event: the events the Tg model emits are feasible in its own ledger *)
Lemma net_binv st n :
  Inv st -> TM.polls n = true -> BInv (after_net st n) (TM.events (snd (TM.step (s_t st) n))).
Proof.
  intros (vg & I & R & Etg & C & _ & _ & _) Hp. cbn [map fold_left] in Etg.
  destruct st as [m g s tg]. cbn [s_m s_g s_t s_tg] in *. subst vg.
  exists tg. unfold after_net. cbn [s_m s_g s_t s_tg].
  split; [exact I|].
  split; [apply TT.reachS; [exact R | now apply TS.polls_caller]|].
  split; [rewrite (TS.polls_gstep n _ tg Hp); apply TS.fold_events|].
  split; [exact C|].
  split.
  { rewrite <- TS.audit_events. destruct (TT.reach_inv _ _ R) as [U Cc].
    destruct (TP.stepC s tg n U Cc (TS.polls_caller tg n Hp)) as (_ & A & _).
    rewrite (TS.polls_gcall n _ tg Hp) in A. exact A. }
  split; [intros c q l Hin; apply TS.step_established_pending_open with (q := q) (l := l); now apply TS.in_events|].
  apply TS.step_last_only.
Qed.

Lemma inv0 : Inv sys0.
Proof.
  exists TM.g0. cbn [sys0 s_m s_g s_t s_tg].
  split; [apply linv_init|]. split; [constructor|]. split; [reflexivity|].
  split; [|split; [reflexivity|split; [intros c q l []|exact TS.last_only_nil]]].
  repeat split; cbn; try tauto. intros c p H. discriminate.
Qed.

(* T — one input from outside: the manager is handed a feasible piece of history *)
Theorem sys_step_inv st x :
  Inv st -> xok st x -> feasible L (s_m st) (s_g st) (sys_evs st x) /\ Inv (sys_step st x).
Proof.
  intros Hi Hx. destruct x as [e k|n]; cbn [xok sys_evs sys_step] in *.
  - destruct Hx as [Hc Hf]. split; [cbn [feasible]; split; [exact Hf | exact I] | now apply deliver_cmd].
  - apply (tevs_inv _ (after_net st n)). now apply net_binv.
Qed.

Theorem sys_feasible xs : forall st,
  Inv st -> xfeasible st xs ->
  feasible L (s_m st) (s_g st) (sys_trace st xs) /\ Inv (sys_run st xs).
Proof.
  induction xs as [|x r IH]; intros st Hi Hx; cbn [sys_trace sys_run xfeasible] in *; [split; [exact I | exact Hi]|].
  destruct Hx as [H1 H2]. destruct (sys_step_inv st x Hi H1) as [F Hi'].
  destruct (IH _ Hi' H2) as [F' Hi'']. split; [|exact Hi''].
  apply feasible_app; [exact F|]. rewrite <- (sys_step_mgr st x). cbn [fst snd]. exact F'.
Qed.

(* ---------- the ledger theorems for manager + Tg together ---------- *)
Theorem sys_at_most_one_outcome xs :
  xfeasible sys0 xs -> NoDup (terminals L init (sys_trace sys0 xs)).
Proof. intros H. apply at_most_one_outcome. exact (proj1 (sys_feasible xs sys0 inv0 H)). Qed.

Theorem sys_no_silence xs :
  xfeasible sys0 xs ->
  let st := sys_run sys0 xs in
  quiescent (s_m st) (s_g st) ->
  forall c p, lookup c (g_att (s_g st)) = Some p ->
    In c (g_done (s_g st)) \/ (In c (g_super (s_g st)) /\ In p (g_rep (s_g st))) \/ In c (g_limrej (s_g st)).
Proof.
  intros H st. pose proof (no_silence L (sys_trace sys0 xs) (proj1 (sys_feasible xs sys0 inv0 H))) as T.
  pose proof (sys_run_mgr xs sys0) as E. cbn [sys0 s_m s_g] in E. rewrite <- E in T. exact T.
Qed.

Theorem sys_no_wedge xs :
  xfeasible sys0 xs ->
  let st := sys_run sys0 xs in
  quiescent (s_m st) (s_g st) -> forall p, settled (state_of (s_m st) p).
Proof.
  intros H st. pose proof (no_wedge L (sys_trace sys0 xs) (proj1 (sys_feasible xs sys0 inv0 H))) as T.
  pose proof (sys_run_mgr xs sys0) as E. cbn [sys0 s_m s_g] in E. rewrite <- E in T. exact T.
Qed.

Theorem sys_no_stuck xs x s :
  xfeasible sys0 (xs ++ [x]) ->
  forall e m g es2, sys_evs (sys_run sys0 xs) x = e :: es2 -> (m, g) = (s_m (sys_run sys0 xs), s_g (sys_run sys0 xs)) ->
  ~ In (Stuck s) (snd (step L m e)).
Proof.
  intros H e m g es2 He [= -> ->].
  assert (Hx : forall ys st, xfeasible st (ys ++ [x]) -> Inv st -> Inv (sys_run st ys) /\ xok (sys_run st ys) x).
  { induction ys as [|y r IH]; intros st Hf Hi; cbn [app xfeasible sys_run] in *; [tauto|].
    destruct Hf as [H1 H2]. apply IH; [exact H2 | exact (proj2 (sys_step_inv st y Hi H1))]. }
  destruct (Hx xs sys0 H inv0) as [Hi Hok].
  destruct (sys_step_inv _ x Hi Hok) as [F _]. rewrite He in F. cbn [feasible] in F. destruct F as [F _].
  destruct Hi as (vg & I & _). exact (no_stuck_feasible L _ _ e s I F).
Qed.

(* ---------- what is left to the network ---------- *)
(* quiescence, read off the Tg model's own ledger *)
Lemma nil_iff {A} (l : list A) : l = [] <-> forall x, ~ In x l.
Proof.
  split; [intros -> x []|]. intros H. destruct l as [|a r]; [reflexivity|]. exfalso. apply (H a). now left.
Qed.

Theorem sys_quiescent st :
  Inv st ->
  (quiescent (s_m st) (s_g st) <->
   TM.g_open (s_tg st) = [] /\ TM.g_neg (s_tg st) = [] /\ accepting (s_m st) = []).
Proof.
  intros (vg & I & R & Etg & C & _). cbn [map fold_left] in Etg. subst vg.
  destruct C as (C1 & C2 & _). unfold quiescent. rewrite !nil_iff. split.
  - intros (Ho & Hn & Ha). repeat split; [| |exact Ha].
    + intros c Hc. apply C1 in Hc. exact (Ho _ Hc).
    + intros c Hc. apply C2 in Hc. exact (Hn _ Hc).
  - intros (Ho & Hn & Ha). repeat split; [| |exact Ha].
    + intros [c t] Hin. pose proof (li_open_inst _ _ _ I c t Hin) as Hi. apply only_tcp in Hi. subst t.
      apply C1 in Hin. exact (Ho _ Hin).
    + intros c Hin. apply C2 in Hin. exact (Hn _ Hin).
Qed.

(* whatever the manager waits for is backed by a pending future of the Tg model *)
Theorem sys_owed_is_pending st c :
  Inv st -> owed (s_g st) c ->
  (exists f rem, TM.lookup f (TM.praw (s_t st)) = Some c /\ TM.lookup f (TM.attempts (s_t st)) = Some rem /\
                 ~ In f (TM.aborted (s_t st))) \/
  (exists f k, TM.lookup f (TM.pconn (s_t st)) = Some (c, k) /\ TM.is_inb k = false).
Proof.
  intros (vg & I & R & Etg & C & _) Ho. cbn [map fold_left] in Etg. subst vg.
  destruct C as (C1 & C2 & _). destruct (TT.tcp_owed_is_pending _ _ c R) as [T1 T2].
  destruct Ho as [[t Ht]|Hn].
  - left. apply T1. apply C1. pose proof (li_open_inst _ _ _ I c t Ht) as Hi. apply only_tcp in Hi. now subst t.
  - right. apply T2. now apply C2.
Qed.

(* an event of Tg reaches the manager *)
Lemma tevs_trace_in t ts : forall st, In t ts -> exists st', forall e, In e (mevs st' t) -> In e (tevs_trace st ts).
Proof.
  induction ts as [|t0 r IH]; intros st H; [destruct H|]. cbn [tevs_trace]. destruct H as [->|H].
  - exists st. intros e He. apply in_or_app. now left.
  - destruct (IH (deliver_tev st t0) H) as [st' Hs]. exists st'. intros e He. apply in_or_app. right. now apply Hs.
Qed.

Definition answers (c : conn) (e : ev) : Prop :=
  match e with
  | TrOpened c' _ _ | TrOpenFailure c' _ _ | TrDialFailure c' _ _ | TrEstablished _ c' _ false _ => c' = c
  | _ => False
  end.

(* ... and the network can always complete it: for everything the manager waits for there is a
   network / runtime input (the deadline of the open fires, the dial attempt ends, the transport is
   polled) whose handling hands the manager an answer for that connection id *)
Theorem sys_progress st c :
  Inv st -> owed (s_g st) c ->
  exists n, TM.polls n = true /\ exists e, In e (sys_evs st (XNet n)) /\ answers c e.
Proof.
  intros Hi Ho. pose proof Hi as (vg & I & R & Etg & C & _). cbn [map fold_left] in Etg. subst vg.
  assert (Hdel : forall n t, In (TM.OEv t) (snd (TM.step (s_t st) n)) ->
            (forall st', exists e, In e (mevs st' t) /\ answers c e) ->
            exists e, In e (sys_evs st (XNet n)) /\ answers c e).
  { intros n t Hin Hm. apply TS.in_events in Hin.
    destruct (tevs_trace_in t _ (after_net st n) Hin) as [st' Hs].
    destruct (Hm st') as (e & He & Ha). exists e. split; [cbn [sys_evs]; now apply Hs | exact Ha]. }
  destruct (sys_owed_is_pending st c Hi Ho) as [(f & rem & Hf & Ha & Hab)|(f & k & Hf & Hk)].
  - (* an open: the deadline *)
    assert (Hop : In c (TM.g_open (s_tg st))).
    { destruct C as (C1 & C2 & _). destruct Ho as [[t Ht]|Hn].
      - apply C1. pose proof (li_open_inst _ _ _ I c t Ht) as Hii. apply only_tcp in Hii. now subst t.
      - exfalso. apply C2 in Hn. destruct (TT.reach_inv _ _ R) as [U Cc].
        destruct (TP.c_neg_backed _ _ Cc c Hn) as (f' & k' & Hf' & _).
        exact (TP.c_raw_nconn _ _ Cc f c f' k' (TP.lookup_in _ _ _ Hf) Hf'). }
    exists (TM.EExpire f). split; [reflexivity|].
    apply (Hdel (TM.EExpire f) (TM.TOpenFailure c)).
    + destruct rem as [|x r].
      * apply (TT.tcp_progress_open_no_address _ _ f c (TM.EExpire f) R Hf Hop Ha eq_refl).
      * apply (TT.tcp_progress_open_expire _ _ f c (x :: r) R Hf Hop Ha). discriminate.
    + intros st'. eexists. split; [cbn [mevs]; left; reflexivity | reflexivity].
  - destruct k; try discriminate.
    + (* a dial: the attempt ends *)
      exists (TM.EAns f 0 None). split; [reflexivity|].
      destruct (TT.tcp_progress_dial _ _ f c 0 None R Hf) as (ex & _ & Hin).
      apply (Hdel _ _ Hin). intros st'. eexists. split; [cbn [mevs]; left; reflexivity | reflexivity].
    + (* a negotiate: the next poll *)
      exists TM.EPoll. split; [reflexivity|].
      destruct (TT.tcp_progress_negotiate _ _ f c TM.EPoll R Hf eq_refl) as [q Hin].
      apply (Hdel _ _ Hin). intros st'. eexists. split; [cbn [mevs]; left; reflexivity | reflexivity].
Qed.

(* ---------- the same, stated for the states reachable from the initial one ---------- *)
Theorem sys_feasible0 xs :
  xfeasible sys0 xs ->
  feasible L init g0 (sys_trace sys0 xs) /\
  (s_m (sys_run sys0 xs), s_g (sys_run sys0 xs)) = lrun L init g0 (sys_trace sys0 xs).
Proof.
  intros H. split; [exact (proj1 (sys_feasible xs sys0 inv0 H)) | exact (sys_run_mgr xs sys0)].
Qed.

Theorem sys_quiescent0 xs :
  xfeasible sys0 xs ->
  let st := sys_run sys0 xs in
  quiescent (s_m st) (s_g st) <->
  TM.g_open (s_tg st) = [] /\ TM.g_neg (s_tg st) = [] /\ accepting (s_m st) = [].
Proof. intros H. apply sys_quiescent. exact (proj2 (sys_feasible xs sys0 inv0 H)). Qed.

Theorem sys_owed_is_pending0 xs c :
  xfeasible sys0 xs ->
  let st := sys_run sys0 xs in
  owed (s_g st) c ->
  (exists f rem, TM.lookup f (TM.praw (s_t st)) = Some c /\ TM.lookup f (TM.attempts (s_t st)) = Some rem /\
                 ~ In f (TM.aborted (s_t st))) \/
  (exists f k, TM.lookup f (TM.pconn (s_t st)) = Some (c, k) /\ TM.is_inb k = false).
Proof. intros H. apply sys_owed_is_pending. exact (proj2 (sys_feasible xs sys0 inv0 H)). Qed.

Theorem sys_progress0 xs c :
  xfeasible sys0 xs ->
  let st := sys_run sys0 xs in
  owed (s_g st) c ->
  exists n, TM.polls n = true /\ xfeasible sys0 (xs ++ [XNet n]) /\
            exists e, In e (sys_evs st (XNet n)) /\ answers c e.
Proof.
  intros H st Ho. destruct (sys_progress st c (proj2 (sys_feasible xs sys0 inv0 H)) Ho) as (n & Hp & He).
  exists n. split; [exact Hp|]. split; [|exact He].
  clear He Ho. subst st. revert H. generalize sys0. induction xs as [|x r IH]; intros st0 H; cbn [app xfeasible sys_run] in *.
  - split; [exact Hp | exact I].
  - destruct H as [H1 H2]. split; [exact H1 | now apply IH].
Qed.
End Compose.
End Transport.


(* ====================================================================================== *)
(* What the bookkeeping model inside the composed system stands for                        *)
(* ====================================================================================== *)
Module TV := V.Tcp.Variants.
Module TVT := V.Tcp.VariantTheorems.

(* the transport behind a manager tag *)
Definition transport_of (t : tr) : TV.transport :=
  if t =? WS then V.C10.Model.TWs else V.C10.Model.TTcp.

(* the canonical address of peer p for an installed tag is accepted by the dial of that transport,
   and the negotiation will insist on p *)
Lemma canon_expect p t : t = TCP \/ t = WS -> TV.expect_of (transport_of t) (canon p t) = Some (Some p).
Proof. intros [-> | ->]; reflexivity. Qed.

Lemma attempts_repeat t a e n : TV.expect_of t a = Some e -> TV.attempts_of t (repeat a n) = repeat e n.
Proof.
  intros H. unfold TV.attempts_of. induction n as [|n IH]; [reflexivity|].
  cbn [repeat flat_map]. rewrite H, IH. reflexivity.
Qed.

(* the REAL trait calls the manager makes on transport Tg: the addresses of the dialled peer *)
Definition fwdX (Tg : tr) (p : peer) (k : nat) (o : out) : list TV.tcall :=
  match o with
  | CallOpen c t => if t =? Tg then [TV.XOpen c (repeat (canon p Tg) (S k))] else []
  | CallDial c t => if t =? Tg then [TV.XDial c (canon p Tg)] else []
  | CallNegotiate c t => if t =? Tg then [TV.XEv (TM.ENegotiate c)] else []
  | CallCancel c t => if t =? Tg then [TV.XEv (TM.ECancel c)] else []
  | CallAccept c t => if t =? Tg then [TV.XEv (TM.EAccept c)] else []
  | CallReject c t => if t =? Tg then [TV.XEv (TM.EReject c)] else []
  | CallAcceptPending c t => if t =? Tg then [TV.XEv (TM.EAcceptPending c)] else []
  | CallRejectPending c t => if t =? Tg then [TV.XEv (TM.ERejectPending c)] else []
  | _ => []
  end.

(* the events of the bookkeeping model that the composition executes are exactly the images, under
   the front end of that transport (coq/Tcp/Variants.v `ev_of`), of those real calls *)
Theorem fwd_real Tg p k o :
  Tg = TCP \/ Tg = WS ->
  fwd Tg p k o = map (TV.ev_of (transport_of Tg)) (fwdX Tg p k o).
Proof.
  intros HT. pose proof (canon_expect p Tg HT) as E.
  destruct o; cbn [fwd fwdX]; try reflexivity; destruct (t =? Tg); cbn [map TV.ev_of]; try reflexivity.
  - apply (f_equal (fun l => [TM.EOpen c l])). symmetry. exact (attempts_repeat _ _ _ (S k) E).
  - change (TV.expect_of (transport_of Tg) (canon p Tg)) with (TV.expect_of (transport_of Tg) (canon p Tg)) in E.
    destruct (TV.expect_of (transport_of Tg) (canon p Tg)) as [x|]; [|discriminate]. injection E as ->. reflexivity.
Qed.

(* running the model of transport t on real calls *)
Fixpoint xrun (t : TV.transport) (s : TM.tcp) (g : TM.ghost) (ks : list TV.tcall) : TM.tcp * TM.ghost :=
  match ks with
  | [] => (s, g)
  | k :: r => xrun t (fst (TV.tstep t s k)) (TM.gstep (TV.ev_of t k) (snd (TV.tstep t s k)) g) r
  end.

Lemma xrun_trun t ks : forall s g, xrun t s g ks = TS.trun s g (map (TV.ev_of t) ks).
Proof. induction ks as [|k r IH]; intros s g; cbn [xrun map TS.trun]; [reflexivity | apply IH]. Qed.

Definition real_calls (Tg : tr) (L : limits) (k : nat) (st : sys) (e : ev) : list TV.tcall :=
  map TV.XEv (repeat TM.EDraw (ndraws e (s_m st) (fst (step L (s_m st) e)))) ++
  flat_map (fwdX Tg (tgt e) k) (snd (step L (s_m st) e)).

(* when the manager handles an event, the transport side of the composed system is the model of
   transport `transport_of Tg` (TcpTransport for TCP, WebSocketTransport for WS) run on the real
   trait calls; a network input is one step of that model *)
Theorem deliver_real Tg L k st e :
  Tg = TCP \/ Tg = WS ->
  (s_t (deliver Tg L k st e), s_tg (deliver Tg L k st e)) =
  xrun (transport_of Tg) (s_t st) (s_tg st) (real_calls Tg L k st e).
Proof.
  intros HT. unfold deliver, real_calls. cbn [s_t s_tg]. rewrite xrun_trun, map_app, map_map.
  assert (E1 : forall n, map (fun x => TV.ev_of (transport_of Tg) (TV.XEv x)) (repeat TM.EDraw n) = repeat TM.EDraw n).
  { induction n as [|n IH]; [reflexivity|]. cbn [repeat map]. rewrite IH. reflexivity. }
  rewrite E1.
  assert (E2 : forall os, map (TV.ev_of (transport_of Tg)) (flat_map (fwdX Tg (tgt e) k) os) = flat_map (fwd Tg (tgt e) k) os).
  { induction os as [|o r IH]; [reflexivity|]. cbn [flat_map]. rewrite map_app, IH, <- (fwd_real Tg _ _ _ HT). reflexivity. }
  rewrite E2. destruct (TS.trun _ _ _); reflexivity.
Qed.

Theorem after_net_real st n t :
  (s_t (after_net st n), s_tg (after_net st n)) =
  (fst (TV.tstep t (s_t st) (TV.XEv n)), TM.gstep (TV.ev_of t (TV.XEv n)) (snd (TV.tstep t (s_t st) (TV.XEv n))) (s_tg st)).
Proof. reflexivity. Qed.

(* ---------- WebSocket as the one installed transport (non-vacuity) ---------- *)
Definition L_ws : limits := mkLimits None None [WS].

Lemma L_ws_only : forall t, installed L_ws t = true <-> t = WS.
Proof.
  intros t. unfold installed, L_ws. cbn [inst mem existsb]. split.
  - intros H. apply andb_prop in H. destruct H as [_ H]. apply orb_prop in H.
    destruct H as [H|H]; [|discriminate]. apply N.eqb_eq in H. exact H.
  - intros ->. reflexivity.
Qed.

(* WebSocket alone is installed; a /ws address of peer 5 is added and the peer is dialled with two
   addresses: the first is answered by another identity, the second by peer 5: ConnectionOpened,
   cancel + negotiate, the next poll reports the connection, the protocols accept it; a socket
   arrives, is accepted and authenticates as peer 7; a dial through the handle to a /ws address of
   peer 6 whose attempt fails: DialFailure. Nothing is owed at the end. *)
Definition history_ws : list xev :=
  [XCmd (CmdAddAddr 5 WS) 0; XCmd (CmdDialPeer 5 [WS] []) 1; XNet TM.EPoll;
   XNet (TM.EAns 0 0 (Some 9)); XNet (TM.EAns 0 1 (Some 5)); XNet TM.EPoll; XCmd (AcceptDone 0 true) 0;
   XNet TM.EInbound; XNet (TM.EAns 2 0 (Some 7)); XCmd (AcceptDone 1 true) 0;
   XCmd (HDialAddr (canon 6 WS) false) 0; XNet (TM.EAns 3 0 None)].

Lemma history_ws_ok :
  xfeasible WS L_ws sys0 history_ws /\
  sys_trace WS L_ws sys0 history_ws =
    [CmdAddAddr 5 WS; CmdDialPeer 5 [WS] []; TrOpened 0 WS false; TrEstablished 5 0 WS false false;
     AcceptDone 0 true; AllocConn; TrPendingInbound 1 WS; TrEstablished 7 1 WS true false; AcceptDone 1 true;
     HDialAddr (canon 6 WS) false; TrDialFailure 2 WS 6] /\
  snd (run L_ws init (sys_trace WS L_ws sys0 history_ws)) =
    [[]; [CallOpen 0 WS; Ret RET_OK]; [CallCancel 0 WS; CallNegotiate 0 WS]; [CallAccept 0 WS];
     [EvEstablished 5 0]; [Ret (RET_ALLOC + 1)]; [CallAcceptPending 1 WS]; [CallAccept 1 WS];
     [EvEstablished 7 1]; [Ret RET_OK; CallDial 2 WS; Logged RET_OK]; [ProtoDialFailure 6; EvDialFailure 2 6]] /\
  quiescent (s_m (sys_run WS L_ws sys0 history_ws)) (s_g (sys_run WS L_ws sys0 history_ws)).
Proof. vm_compute. repeat split; auto. Qed.
