//! C01 extra streams (TLS certificate checks, WebRTC Noise prologue): see harness/src/c01.rs,
//! `mod extra`, and tools/c01_extra_streams.sh.
#[path = "../../harness/src/c01.rs"]
mod c01;
#[path = "../../harness/src/util.rs"]
mod util;

fn main() {
    let argv: Vec<String> = std::env::args().collect();
    let args = util::Args::parse(&argv[1..]);
    util::silence_panics();
    c01::main(&args);
}
